/-
Rank 2 (dihedral groups): the language of the model automaton, the reduced words of a rank-2
Coxeter group (via the geometric representation of `GT.Properties.C08` lifted to Mathlib's
`CoxeterSystem`), and the link between the two.  Helper lemmas for `GT.Properties.C07`.
-/
import GT.Lemmas.CoxAut
import GT.Properties.C08
import Mathlib.GroupTheory.Coxeter.Length

namespace GT.CoxAut

/-- bits of a node as a function (out of range reads `false`, as `getD`) -/
def bits (node : List Bool) : Nat → Bool := fun p => node.getD p false

/-- `applyGenToNode` on bit functions -/
def agF (nb : Nat → Nat → Option Nat) (lex : Bool) (k : Nat) (f : Nat → Bool) (pos : Nat) : Bool :=
  if lex && (List.range k).any (fun j => nb j k == some pos) then true
  else if pos == k then true
  else match nb pos k with
    | some sw => f sw
    | none => false

def succF (nb : Nat → Nat → Option Nat) (lex : Bool) (nroots k : Nat) (f : Nat → Bool) : Nat → Bool :=
  fun p => if p < nroots then agF nb lex k f p else false

def runF (nb : Nat → Nat → Option Nat) (lex : Bool) (nroots rank : Nat) :
    (Nat → Bool) → List Nat → Option (Nat → Bool)
  | f, [] => some f
  | f, k :: w => if k < rank ∧ f k = false then runF nb lex nroots rank (succF nb lex nroots k f) w else none

/-- tie of the bit-function variant to the executed list model: on the bits of a node `agF` *is*
`applyGenToNode` -/
theorem agF_bits (nb : Nat → Nat → Option Nat) (lex : Bool) (k : Nat) (node : List Bool) (pos : Nat) :
    agF nb lex k (bits node) pos = applyGenToNode nb lex k node pos := rfl

theorem bits_succNode (nb : Nat → Nat → Option Nat) (lex : Bool) (nroots k : Nat) (node : List Bool) :
    bits (succNode nb lex nroots k node) = succF nb lex nroots k (bits node) := by
  funext p
  unfold bits succF
  rw [succNode_getD]
  rfl

theorem run_bits (nb : Nat → Nat → Option Nat) (lex : Bool) (nroots rank : Nat) :
    ∀ (w : List Nat) (node : List Bool),
      (run (succNode nb lex nroots) rank node w).map bits = runF nb lex nroots rank (bits node) w := by
  intro w
  induction w with
  | nil => intro node; rfl
  | cons k w ih =>
    intro node
    simp only [run, runF]
    have : bits node k = node.getD k false := rfl
    rw [this]
    split
    · rw [ih, bits_succNode]
    · rfl

theorem bits_replicate (n : Nat) : bits (List.replicate n false) = fun _ => false := by
  funext p
  unfold bits
  rw [List.getD_eq_getElem?_getD]
  by_cases h : p < n
  · simp [h]
  · simp [h]

end GT.CoxAut

namespace GT.CoxAut

/-- `nb` is the reflection action of the two generators on the `m` positive roots of the dihedral
group `I₂(m)`, the root with id `p` sitting at angle `ang p · π/m` from `α₀` (so `α₀ ↦ 0`,
`α₁ ↦ m-1`): `s₀` maps angle `a ≠ 0` to `m - a` and negates `α₀`; `s₁` maps `a ≠ m-1` to `m-2-a` and
negates `α₁`. -/
structure DihedralNb (m : Nat) (nb : Nat → Nat → Option Nat) (ang : Nat → Nat) : Prop where
  hm : 2 ≤ m
  ang0 : ang 0 = 0
  ang1 : ang 1 = m - 1
  lt : ∀ p < m, ang p < m
  inj : ∀ p < m, ∀ q < m, ang p = ang q → p = q
  nb0_none : ∀ p < m, ang p = 0 → nb p 0 = none
  nb0_some : ∀ p < m, ang p ≠ 0 → ∃ q < m, nb p 0 = some q ∧ ang q + ang p = m
  nb1_none : ∀ p < m, ang p = m - 1 → nb p 1 = none
  nb1_some : ∀ p < m, ang p ≠ m - 1 → ∃ q < m, nb p 1 = some q ∧ ang q + ang p + 2 = m

section dihedral
variable {m : Nat} {nb : Nat → Nat → Option Nat} {ang : Nat → Nat}

def Low (m : Nat) (ang : Nat → Nat) (ℓ : Nat) (f : Nat → Bool) : Prop :=
  ∀ p, f p = decide (p < m ∧ ang p < ℓ)
def High (m : Nat) (ang : Nat → Nat) (ℓ : Nat) (f : Nat → Bool) : Prop :=
  ∀ p, f p = decide (p < m ∧ m ≤ ang p + ℓ)

theorem step0 (h : DihedralNb m nb ang) (lex : Bool) {ℓ : Nat} {f : Nat → Bool} (hf : High m ang ℓ f) :
    Low m ang (ℓ + 1) (succF nb lex m 0 f) := by
  intro p
  unfold succF
  by_cases hp : p < m
  · simp only [hp, if_true, true_and]
    unfold agF
    simp only [List.range_zero, List.any_nil, Bool.and_false, Bool.false_eq_true, if_false]
    by_cases hp0 : p = 0
    · subst hp0; simp [h.ang0]
    · have hne : ang p ≠ 0 := fun e => hp0 (h.inj p hp 0 (by have := h.hm; omega) (by rw [e, h.ang0]))
      obtain ⟨q, hq, hnb, ha⟩ := h.nb0_some p hp hne
      have : (p == 0) = false := by simpa using hp0
      simp only [this, Bool.false_eq_true, if_false, hnb, hf q, hq, true_and]
      have := h.lt p hp
      congr 1
      apply propext
      omega
  · simp [hp]

theorem step1 (h : DihedralNb m nb ang) (lex : Bool) {ℓ : Nat} {f : Nat → Bool} (hf : Low m ang ℓ f) :
    High m ang (if lex then max (ℓ + 1) 2 else ℓ + 1) (succF nb lex m 1 f) := by
  have hm := h.hm
  have h01 : ang 0 ≠ m - 1 := by rw [h.ang0]; omega
  obtain ⟨q0, hq0, hnb0, ha0⟩ := h.nb1_some 0 (by omega) h01
  rw [h.ang0] at ha0
  intro p
  unfold succF
  by_cases hp : p < m
  · simp only [hp, if_true, true_and]
    unfold agF
    have hany : (List.range 1).any (fun j => nb j 1 == some p) = decide (q0 = p) := by
      simp [List.range_succ, hnb0]
      exact (Bool.beq_eq_decide_eq q0 p)
    rw [hany]
    have hap := h.lt p hp
    by_cases hpq : lex = true ∧ q0 = p
    · obtain ⟨hl, rfl⟩ := hpq
      simp only [hl, decide_true, Bool.and_self, if_true]
      symm; simp only [decide_eq_true_eq]; omega
    · have hfirst : (lex && decide (q0 = p)) = false := by
        cases lex <;> simp at hpq ⊢
        exact hpq
      simp only [hfirst, Bool.false_eq_true, if_false]
      by_cases hp1 : p = 1
      · subst hp1
        simp only [beq_self_eq_true, if_true, h.ang1]
        symm; simp only [decide_eq_true_eq]
        split <;> omega
      · have hne : ang p ≠ m - 1 := fun e => hp1 (h.inj p hp 1 (by omega) (by rw [e, h.ang1]))
        obtain ⟨q, hq, hnb, ha⟩ := h.nb1_some p hp hne
        have : (p == 1) = false := by simpa using hp1
        simp only [this, Bool.false_eq_true, if_false, hnb, hf q, hq, true_and]
        congr 1
        apply propext
        by_cases hl : lex = true
        · have hqp : q0 ≠ p := fun e => hpq ⟨hl, e⟩
          have hang : ang p ≠ m - 2 := by
            intro e
            apply hqp
            exact h.inj q0 hq0 p hp (by omega)
          simp only [hl, if_true]
          omega
        · simp only [hl, Bool.false_eq_true, if_false]
          omega
  · simp [hp]

theorem tail_lang (h : DihedralNb m nb ang) (lex : Bool) :
    ∀ (w : List Nat) (ℓ : Nat) (f : Nat → Bool), 1 ≤ ℓ → ℓ ≤ m →
      (Low m ang ℓ f → ((runF nb lex m 2 f w).isSome ↔ ∃ j, ℓ + j ≤ m ∧ w = altFrom 1 0 j)) ∧
      (High m ang ℓ f → ((runF nb lex m 2 f w).isSome ↔ ∃ j, ℓ + j ≤ m ∧ w = altFrom 0 1 j)) := by
  have hm := h.hm
  intro w
  induction w with
  | nil =>
    intro ℓ f h1 h2
    exact ⟨fun _ => ⟨fun _ => ⟨0, by omega, rfl⟩, fun _ => rfl⟩,
           fun _ => ⟨fun _ => ⟨0, by omega, rfl⟩, fun _ => rfl⟩⟩
  | cons k w ih =>
    intro ℓ f h1 h2
    constructor
    · intro hf
      have f0 : f 0 = true := by rw [hf 0]; simp [h.ang0]; omega
      have f1 : f 1 = decide (m - 1 < ℓ) := by rw [hf 1, h.ang1]; simp; omega
      simp only [runF]
      by_cases hk : k = 1
      · subst hk
        by_cases hl : ℓ < m
        · have : f 1 = false := by rw [f1]; simp; omega
          simp only [this, Nat.one_lt_ofNat, and_self, if_true]
          have hs := step1 h lex hf
          have hL : (if lex = true then max (ℓ + 1) 2 else ℓ + 1) = ℓ + 1 := by
            split <;> omega
          rw [hL] at hs
          rw [((ih (ℓ + 1) _ (by omega) (by omega)).2 hs)]
          constructor
          · rintro ⟨j, hj, rfl⟩; exact ⟨j + 1, by omega, rfl⟩
          · rintro ⟨j, hj, hw⟩
            cases j with
            | zero => simp [altFrom] at hw
            | succ j => simp only [altFrom, List.cons.injEq, true_and] at hw; exact ⟨j, by omega, hw⟩
        · have : f 1 = true := by rw [f1]; simp; omega
          simp only [this, Bool.true_eq_false, and_false, if_false]
          constructor
          · intro hx; cases hx
          · rintro ⟨j, hj, hw⟩
            cases j with
            | zero => simp [altFrom] at hw
            | succ j => omega
      · have hnone : ¬ (k < 2 ∧ f k = false) := by
          rintro ⟨hk2, hfk⟩
          have : k = 0 := by omega
          subst this; rw [f0] at hfk; cases hfk
        simp only [hnone, if_false]
        constructor
        · intro hx; cases hx
        · rintro ⟨j, hj, hw⟩
          cases j with
          | zero => simp [altFrom] at hw
          | succ j => simp only [altFrom, List.cons.injEq] at hw; exact absurd hw.1 hk
    · intro hf
      have f1 : f 1 = true := by rw [hf 1, h.ang1]; simp; omega
      have f0 : f 0 = decide (m ≤ ℓ) := by rw [hf 0, h.ang0]; simp; omega
      simp only [runF]
      by_cases hk : k = 0
      · subst hk
        by_cases hl : ℓ < m
        · have : f 0 = false := by rw [f0]; simp; omega
          simp only [this, Nat.ofNat_pos, and_self, if_true]
          have hs := step0 h lex hf
          rw [((ih (ℓ + 1) _ (by omega) (by omega)).1 hs)]
          constructor
          · rintro ⟨j, hj, rfl⟩; exact ⟨j + 1, by omega, rfl⟩
          · rintro ⟨j, hj, hw⟩
            cases j with
            | zero => simp [altFrom] at hw
            | succ j => simp only [altFrom, List.cons.injEq, true_and] at hw; exact ⟨j, by omega, hw⟩
        · have : f 0 = true := by rw [f0]; simp; omega
          simp only [this, Bool.true_eq_false, and_false, if_false]
          constructor
          · intro hx; cases hx
          · rintro ⟨j, hj, hw⟩
            cases j with
            | zero => simp [altFrom] at hw
            | succ j => omega
      · have hnone : ¬ (k < 2 ∧ f k = false) := by
          rintro ⟨hk2, hfk⟩
          have : k = 1 := by omega
          subst this; rw [f1] at hfk; cases hfk
        simp only [hnone, if_false]
        constructor
        · intro hx; cases hx
        · rintro ⟨j, hj, hw⟩
          cases j with
          | zero => simp [altFrom] at hw
          | succ j => simp only [altFrom, List.cons.injEq] at hw; exact absurd hw.1 hk

end dihedral
end GT.CoxAut

namespace GT.CoxAut
section dihedral2
variable {m : Nat} {nb : Nat → Nat → Option Nat} {ang : Nat → Nat}

theorem start_high (m : Nat) (ang : Nat → Nat) (hlt : ∀ p < m, ang p < m) :
    High m ang 0 (fun _ => false) := by
  intro p
  by_cases hp : p < m
  · have := hlt p hp; simp [hp]; omega
  · simp [hp]

theorem start_low (m : Nat) (ang : Nat → Nat) : Low m ang 0 (fun _ => false) := by
  intro p; simp

/-- finite dihedral group, geodesic automaton: the accepted words are the alternating words of
length at most `m` -/
theorem dihedral_geo (h : DihedralNb m nb ang) (w : List Nat) :
    (runF nb false m 2 (fun _ => false) w).isSome ↔
      ∃ ℓ, ℓ ≤ m ∧ (w = altFrom 0 1 ℓ ∨ w = altFrom 1 0 ℓ) := by
  have hm := h.hm
  cases w with
  | nil => exact ⟨fun _ => ⟨0, by omega, Or.inl rfl⟩, fun _ => rfl⟩
  | cons k w =>
    simp only [runF]
    by_cases hk0 : k = 0
    · subst hk0
      simp only [Nat.ofNat_pos, and_self, if_true]
      rw [((tail_lang h false w 1 _ (by omega) (by omega)).1 (step0 h false (start_high m ang h.lt)))]
      constructor
      · rintro ⟨j, hj, rfl⟩; exact ⟨j + 1, by omega, Or.inl rfl⟩
      · rintro ⟨ℓ, hℓ, hw | hw⟩ <;> cases ℓ with
        | zero => simp [altFrom] at hw
        | succ j =>
          simp only [altFrom, List.cons.injEq] at hw
          first
          | exact ⟨j, by omega, hw.2⟩
          | exact absurd hw.1 (by decide)
    · by_cases hk1 : k = 1
      · subst hk1
        simp only [Nat.one_lt_ofNat, and_self, if_true]
        have hs := step1 h false (start_low m ang)
        simp only [Bool.false_eq_true, if_false] at hs
        rw [((tail_lang h false w 1 _ (by omega) (by omega)).2 hs)]
        constructor
        · rintro ⟨j, hj, rfl⟩; exact ⟨j + 1, by omega, Or.inr rfl⟩
        · rintro ⟨ℓ, hℓ, hw | hw⟩ <;> cases ℓ with
          | zero => simp [altFrom] at hw
          | succ j =>
            simp only [altFrom, List.cons.injEq] at hw
            first
            | exact ⟨j, by omega, hw.2⟩
            | exact absurd hw.1 (by decide)
      · have hk2 : ¬ k < 2 := by omega
        simp only [hk2, false_and, if_false]
        constructor
        · intro hx; cases hx
        · rintro ⟨ℓ, hℓ, hw | hw⟩ <;> cases ℓ with
          | zero => simp [altFrom] at hw
          | succ j =>
            simp only [altFrom, List.cons.injEq] at hw
            first
            | exact absurd hw.1 hk0
            | exact absurd hw.1 hk1

/-- finite dihedral group, shortlex automaton: the alternating words starting with generator `0` of
length at most `m`, and those starting with generator `1` of length at most `m - 1` -/
theorem dihedral_lex (h : DihedralNb m nb ang) (w : List Nat) :
    (runF nb true m 2 (fun _ => false) w).isSome ↔
      (∃ ℓ, ℓ ≤ m ∧ w = altFrom 0 1 ℓ) ∨ (∃ ℓ, ℓ + 1 ≤ m ∧ w = altFrom 1 0 ℓ) := by
  have hm := h.hm
  cases w with
  | nil => exact ⟨fun _ => Or.inl ⟨0, by omega, rfl⟩, fun _ => rfl⟩
  | cons k w =>
    simp only [runF]
    by_cases hk0 : k = 0
    · subst hk0
      simp only [Nat.ofNat_pos, and_self, if_true]
      rw [((tail_lang h true w 1 _ (by omega) (by omega)).1 (step0 h true (start_high m ang h.lt)))]
      constructor
      · rintro ⟨j, hj, rfl⟩; exact Or.inl ⟨j + 1, by omega, rfl⟩
      · rintro (⟨ℓ, hℓ, hw⟩ | ⟨ℓ, hℓ, hw⟩) <;> cases ℓ with
        | zero => simp [altFrom] at hw
        | succ j =>
          simp only [altFrom, List.cons.injEq] at hw
          first
          | exact ⟨j, by omega, hw.2⟩
          | exact absurd hw.1 (by decide)
    · by_cases hk1 : k = 1
      · subst hk1
        simp only [Nat.one_lt_ofNat, and_self, if_true]
        have hs := step1 h true (start_low m ang)
        simp only [if_true] at hs
        have h2 : max (0 + 1) 2 = 2 := by omega
        rw [h2] at hs
        rw [((tail_lang h true w 2 _ (by omega) hm).2 hs)]
        constructor
        · rintro ⟨j, hj, rfl⟩; exact Or.inr ⟨j + 1, by omega, rfl⟩
        · rintro (⟨ℓ, hℓ, hw⟩ | ⟨ℓ, hℓ, hw⟩) <;> cases ℓ with
          | zero => simp [altFrom] at hw
          | succ j =>
            simp only [altFrom, List.cons.injEq] at hw
            first
            | exact ⟨j, by omega, hw.2⟩
            | exact absurd hw.1 (by decide)
      · have hk2 : ¬ k < 2 := by omega
        simp only [hk2, false_and, if_false]
        constructor
        · intro hx; cases hx
        · rintro (⟨ℓ, hℓ, hw⟩ | ⟨ℓ, hℓ, hw⟩) <;> cases ℓ with
          | zero => simp [altFrom] at hw
          | succ j =>
            simp only [altFrom, List.cons.injEq] at hw
            first
            | exact absurd hw.1 hk0
            | exact absurd hw.1 hk1

/-- infinite dihedral group: two small roots, no neighbours; every alternating word is accepted,
by the geodesic and by the shortlex automaton alike -/
theorem dihedral_inf (nb : Nat → Nat → Option Nat) (hnb : ∀ p < 2, ∀ k < 2, nb p k = none) (lex : Bool) :
    ∀ (w : List Nat) (a : Nat) (f : Nat → Bool), a < 2 → (∀ p, f p = decide (p = a)) →
      ((runF nb lex 2 2 f w).isSome ↔ ∃ ℓ, w = altFrom (1 - a) a ℓ) := by
  intro w
  induction w with
  | nil => intro a f _ _; exact ⟨fun _ => ⟨0, rfl⟩, fun _ => rfl⟩
  | cons k w ih =>
    intro a f ha hf
    have hsucc : ∀ k < 2, ∀ p, succF nb lex 2 k f p = decide (p = k) := by
      intro k hk p
      unfold succF agF
      by_cases hp : p < 2
      · have hany : (List.range k).any (fun j => nb j k == some p) = false := by
          rw [List.any_eq_false]
          intro j hj
          have hj' : j < 2 := by have := List.mem_range.1 hj; omega
          simp [hnb j hj' k hk]
        simp only [hp, if_true, hany, Bool.and_false, Bool.false_eq_true, if_false, hnb p hp k hk]
        by_cases e : p = k <;> simp [e]
      · have : p ≠ k := by omega
        simp [hp, this]
    simp only [runF]
    by_cases hk : k < 2 ∧ f k = false
    · have hka : k = 1 - a := by
        have := hk.2; rw [hf k] at this; simp at this; omega
      simp only [hk, and_self, if_true]
      rw [ih k _ hk.1 (hsucc k hk.1)]
      have hak : 1 - k = a := by omega
      rw [hak]
      constructor
      · rintro ⟨ℓ, rfl⟩; exact ⟨ℓ + 1, by rw [hka]; rfl⟩
      · rintro ⟨ℓ, hw⟩
        cases ℓ with
        | zero => simp [altFrom] at hw
        | succ j => simp only [altFrom, List.cons.injEq] at hw; exact ⟨j, by rw [hka]; exact hw.2⟩
    · simp only [hk, if_false]
      constructor
      · intro hx; cases hx
      · rintro ⟨ℓ, hw⟩
        cases ℓ with
        | zero => simp [altFrom] at hw
        | succ j =>
          simp only [altFrom, List.cons.injEq] at hw
          exfalso; apply hk
          rw [hw.1, hf]
          constructor
          · omega
          · simp; omega

end dihedral2
end GT.CoxAut

namespace GT.Cox
open Matrix

end GT.Cox

namespace GT.C07R2
open Matrix GT.Cox

variable {W : Type*} [Group W] {n : ℕ} {M : CoxeterMatrix (Fin n)} (cs : CoxeterSystem M W)

/-- the Coxeter matrix as the integer matrix `cosineForm` takes -/
def intM (M : CoxeterMatrix (Fin n)) : Matrix (Fin n) (Fin n) ℤ := fun i j => (M i j : ℤ)

noncomputable def cosR : ℚ → ℝ := fun x => Real.cos (Real.pi / (x : ℝ))

/-- the real cosine form of a Coxeter matrix (`0` = infinite label) -/
noncomputable def formR (M : CoxeterMatrix (Fin n)) : Matrix (Fin n) (Fin n) ℝ := cosineForm cosR (intM M)

theorem intM_symm (M : CoxeterMatrix (Fin n)) : (intM M)ᵀ = intM M := by
  ext i j; simp [intM, M.symmetric j i]

theorem formR_diag (M : CoxeterMatrix (Fin n)) (i : Fin n) : formR M i i = 1 := by
  have h1 : cosR 1 = -1 := by simp [cosR]
  exact (GT.C08.cosineForm_symm_diag (R := ℝ) cosR (intM M) (intM_symm M)
    (fun i => by simp [intM]) h1).2 i

theorem formR_apply (M : CoxeterMatrix (Fin n)) (i j : Fin n) (h : 2 ≤ M i j) :
    formR M i j = -Real.cos (Real.pi / (M i j : ℝ)) := by
  have h0 : ¬ ((M i j : ℤ) ≤ 0) := by omega
  simp only [formR, cosineForm, intM, h0, if_false, cosR]
  push_cast
  ring

theorem formR_inf (M : CoxeterMatrix (Fin n)) (i j : Fin n) (h : M i j = 0) : formR M i j = -1 := by
  simp only [formR, cosineForm, intM, h, cosR]
  norm_num
  rw [show Real.pi / (1 / 2 : ℝ) = 2 * Real.pi by ring, Real.cos_two_pi]

theorem liftable (M : CoxeterMatrix (Fin n)) : M.IsLiftable (geomRep (formR M)) := by
  intro i i'
  by_cases hii : i = i'
  · subst hii
    rw [M.diagonal i, pow_one]
    exact GT.C08.geomRep_sq _ i (formR_diag M i)
  · have h1 : M i i' ≠ 1 := M.off_diagonal i i' hii
    by_cases h0 : M i i' = 0
    · rw [h0, pow_zero]
    · have h2 : 2 ≤ M i i' := by omega
      have hsym : M i' i = M i i' := M.symmetric i' i
      apply GT.C08.braid_all ((2 : ℝ) • formR M) i i' (by simp [formR_diag]) (by simp [formR_diag]) _ h2
      · simp only [Matrix.smul_apply, smul_eq_mul]
        rw [formR_apply M i i' h2, formR_apply M i' i (by omega), hsym]; ring
      · intro hm
        simp only [Matrix.smul_apply, smul_eq_mul]
        rw [formR_apply M i i' h2, formR_apply M i' i (by omega), hsym, hm]
        have : Real.cos (Real.pi / ((2 : ℕ) : ℝ)) = 0 := by
          have : Real.pi / ((2 : ℕ) : ℝ) = Real.pi / 2 := by norm_num
          rw [this, Real.cos_pi_div_two]
        rw [this]; simp

/-- the geometric representation as a homomorphism from the Coxeter group -/
noncomputable def geomHom : W →* Matrix (Fin n) (Fin n) ℝ := cs.lift ⟨geomRep (formR M), liftable M⟩

theorem geomHom_simple (i : Fin n) : geomHom cs (cs.simple i) = geomRep (formR M) i :=
  cs.lift_apply_simple (liftable M) i

/-- **the order of `sᵢsᵢ'` in the Coxeter group is exactly `M i i'`** (infinite for label `0`) -/
theorem no_early (i i' : Fin n) (hii : i ≠ i') (k : ℕ) (hk : 0 < k) (hM : M i i' = 0 ∨ k < M i i') :
    (cs.simple i * cs.simple i') ^ k ≠ 1 := by
  intro h
  have hφ : (geomRep (formR M) i * geomRep (formR M) i') ^ k = 1 := by
    rw [← geomHom_simple cs i, ← geomHom_simple cs i', ← map_mul, ← map_pow, h, map_one]
  have hCi : ((2 : ℝ) • formR M) i i = 2 := by simp [formR_diag]
  have hCi' : ((2 : ℝ) • formR M) i' i' = 2 := by simp [formR_diag]
  have hsym : M i' i = M i i' := M.symmetric i' i
  unfold geomRep at hφ
  rcases hM with h0 | hlt
  · refine order_infinite _ i i' hii hCi hCi' ?_ k hk hφ
    simp only [Matrix.smul_apply, smul_eq_mul]
    rw [formR_inf M i i' h0, formR_inf M i' i (by rw [hsym, h0])]; ring
  · have h1 : M i i' ≠ 1 := M.off_diagonal i i' hii
    have h2 : 2 ≤ M i i' := by omega
    refine GT.C08.order_exact _ i i' hii hCi hCi' (M i i') h2 ?_ k hk hlt hφ
    simp only [Matrix.smul_apply, smul_eq_mul]
    rw [formR_apply M i i' h2, formR_apply M i' i (by omega), hsym]; ring

end GT.C07R2

namespace GT.C07R2
open CoxeterSystem

section rank2
variable {W : Type*} [Group W] {M : CoxeterMatrix (Fin 2)} (cs : CoxeterSystem M W)

def other (c : Fin 2) : Fin 2 := if c = 0 then 1 else 0

theorem other_ne (c : Fin 2) : other c ≠ c := by fin_cases c <;> decide
theorem other_other (c : Fin 2) : other (other c) = c := by fin_cases c <;> decide
theorem eq_other_of_ne {c d : Fin 2} (h : d ≠ c) : d = other c := by
  fin_cases c <;> fin_cases d <;> first | rfl | exact absurd rfl h

theorem not_reduced_square (c : Fin 2) : ¬ cs.IsReduced [c, c] := by
  intro h
  have : cs.length (cs.wordProd [c, c]) = 2 := h
  simp [wordProd_cons] at this

/-- a reduced word over two generators is alternating -/
theorem reduced_alternating : ∀ (w : List (Fin 2)), cs.IsReduced w →
    w = [] ∨ ∃ c, w = alternatingWord (other c) c w.length := by
  intro w
  induction w using List.reverseRecOn with
  | nil => intro _; exact Or.inl rfl
  | append_singleton u c ih =>
    intro hw
    right
    have hu : cs.IsReduced u := by
      have := hw.take u.length
      simpa using this
    by_cases hu0 : u = []
    · subst hu0; exact ⟨c, by simp [alternatingWord]⟩
    rcases ih hu with rfl | ⟨d, hd⟩
    · exact absurd rfl hu0
    · have hlen : 1 ≤ u.length := by
        rcases u with _ | ⟨a, t⟩
        · exact absurd rfl hu0
        · simp
      by_cases hdc : d = c
      · exfalso
        subst hdc
        -- the last two letters are `d d`
        obtain ⟨k, hk⟩ : ∃ k, u.length = k + 1 := ⟨u.length - 1, by omega⟩
        rw [hk, alternatingWord_succ] at hd
        have hw2 := hw.drop k
        have : (u ++ [d]).drop k = [d, d] := by
          rw [hd]
          simp [List.concat_eq_append, length_alternatingWord]
        rw [this] at hw2
        exact not_reduced_square cs d hw2
      · refine ⟨c, ?_⟩
        have hdo : d = other c := eq_other_of_ne hdc
        have : other d = c := by rw [hdo, other_other]
        rw [List.length_append, List.length_singleton, alternatingWord_succ, ← List.concat_eq_append]
        congr 1
        rw [hd, this, hdo, length_alternatingWord]

theorem simple_mul_inv (i i' : Fin 2) : cs.simple i' * cs.simple i = (cs.simple i * cs.simple i')⁻¹ := by
  rw [mul_inv_rev, inv_simple, inv_simple]

/-- if the two alternating words of length `ℓ` have the same product then `(sᵢsᵢ')^ℓ = 1` -/
theorem pow_eq_one_of_alternating_eq (i i' : Fin 2) (ℓ : ℕ)
    (h : cs.wordProd (alternatingWord i' i ℓ) = cs.wordProd (alternatingWord i i' ℓ)) :
    (cs.simple i * cs.simple i') ^ ℓ = 1 := by
  rw [prod_alternatingWord_eq_mul_pow, prod_alternatingWord_eq_mul_pow, simple_mul_inv] at h
  set P := cs.simple i * cs.simple i' with hP
  rcases Nat.even_or_odd' ℓ with ⟨j, rfl | rfl⟩
  · have he : Even (2 * j) := ⟨j, by ring⟩
    simp only [he, if_true, one_mul, Nat.mul_div_cancel_left j (by norm_num : 0 < 2)] at h
    rw [inv_pow] at h
    rw [two_mul, pow_add]
    have := inv_mul_cancel (P ^ j)
    rw [h] at this
    exact this
  · have ho : ¬ Even (2 * j + 1) := by simp
    have hd : (2 * j + 1) / 2 = j := by omega
    simp only [ho, if_false, hd] at h
    -- s i * P⁻¹^j = s i' * P^j
    rw [inv_pow] at h
    have h2 : (P ^ j)⁻¹ = P * P ^ j := by
      calc (P ^ j)⁻¹ = cs.simple i * (cs.simple i * (P ^ j)⁻¹) := by
            rw [← mul_assoc, simple_mul_simple_self, one_mul]
        _ = cs.simple i * (cs.simple i' * P ^ j) := by rw [h]
        _ = P * P ^ j := by rw [← mul_assoc]
    rw [pow_succ, two_mul, pow_add]
    rw [mul_assoc, pow_mul_comm', ← h2, mul_inv_cancel]

end rank2
end GT.C07R2

namespace GT.C07R2
open CoxeterSystem
section rank2b
variable {W : Type*} [Group W] {M : CoxeterMatrix (Fin 2)} (cs : CoxeterSystem M W)

/-- **alternating words up to the label are reduced** (rank 2) -/
theorem alternating_reduced : ∀ (ℓ : ℕ) (i i' : Fin 2), i ≠ i' → (M i i' = 0 ∨ ℓ ≤ M i i') →
    cs.IsReduced (alternatingWord i i' ℓ) := by
  intro ℓ
  induction ℓ with
  | zero => intro i i' _ _; simp [alternatingWord, CoxeterSystem.IsReduced]
  | succ ℓ ih =>
    intro i i' hii hM
    have hsym : M i' i = M i i' := M.symmetric i' i
    have hu : cs.IsReduced (alternatingWord i' i ℓ) :=
      ih i' i hii.symm (by rw [hsym]; omega)
    have hlu : cs.length (cs.wordProd (alternatingWord i' i ℓ)) = ℓ := by
      rw [hu.eq, length_alternatingWord]
    unfold CoxeterSystem.IsReduced
    rw [alternatingWord_succ, wordProd_concat, List.length_concat, length_alternatingWord]
    rcases cs.length_mul_simple (cs.wordProd (alternatingWord i' i ℓ)) i' with h | h
    · rw [h, hlu]
    · exfalso
      rw [hlu] at h
      set g := cs.wordProd (alternatingWord i' i ℓ) * cs.simple i' with hg
      obtain ⟨v, hv, hgv⟩ := cs.exists_isReduced g
      have hvl : v.length + 1 = ℓ := by rw [← hv.eq, ← hgv]; exact h
      -- `v ++ [i']` is a reduced word for `π u`
      have hvc : cs.wordProd (v.concat i') = cs.wordProd (alternatingWord i' i ℓ) := by
        rw [wordProd_concat, ← hgv, hg, mul_assoc, simple_mul_simple_self, mul_one]
      have hvr : cs.IsReduced (v.concat i') := by
        unfold CoxeterSystem.IsReduced
        rw [hvc, hlu, List.length_concat, hvl]
      rcases reduced_alternating cs _ hvr with hnil | ⟨c, hc⟩
      · simp [List.concat_eq_append] at hnil
      · have hlen : (v.concat i').length = ℓ := by rw [List.length_concat, hvl]
        rw [hlen] at hc
        -- the last letter of `v ++ [i']` is `i'`, so `c = i'`
        have hci : c = i' := by
          obtain ⟨k, hk⟩ : ∃ k, ℓ = k + 1 := ⟨v.length, hvl.symm⟩
          rw [hk, alternatingWord_succ] at hc
          have := congrArg List.getLast? hc
          simpa [List.concat_eq_append] using this.symm
        subst hci
        have hoc : other c = i := (eq_other_of_ne hii).symm
        rw [hoc] at hc
        rw [hc] at hvc
        have hpow := pow_eq_one_of_alternating_eq cs i c ℓ hvc.symm
        refine no_early cs i c hii ℓ (by omega) ?_ hpow
        rcases hM with h0 | hle
        · exact Or.inl h0
        · exact Or.inr (by omega)

/-- **reduced words of a rank-2 Coxeter group**: exactly the alternating words of length at most
the label (any length for the label `0` = ∞) -/
theorem isReduced_iff_rank2 (w : List (Fin 2)) :
    cs.IsReduced w ↔ ∃ ℓ, (M 0 1 = 0 ∨ ℓ ≤ M 0 1) ∧
      (w = alternatingWord 0 1 ℓ ∨ w = alternatingWord 1 0 ℓ) := by
  have h10 : M 1 0 = M 0 1 := M.symmetric 1 0
  constructor
  · intro hw
    rcases reduced_alternating cs w hw with rfl | ⟨c, hc⟩
    · exact ⟨0, by omega, Or.inl rfl⟩
    · refine ⟨w.length, ?_, ?_⟩
      · by_contra hcon
        push Not at hcon
        have hne : M (other c) c ≠ 0 := by
          fin_cases c
          · show M 1 0 ≠ 0; rw [h10]; exact hcon.1
          · show M 0 1 ≠ 0; exact hcon.1
        have hgt : w.length > M (other c) c := by
          fin_cases c
          · show _ > M 1 0; rw [h10]; exact hcon.2
          · show _ > M 0 1; exact hcon.2
        rw [hc] at hw
        exact cs.not_isReduced_alternatingWord (other c) c hne hgt hw
      · fin_cases c
        · right; exact hc
        · left; exact hc
  · rintro ⟨ℓ, hM, rfl | rfl⟩
    · exact alternating_reduced cs ℓ 0 1 (by decide) hM
    · exact alternating_reduced cs ℓ 1 0 (by decide) (by rw [h10]; exact hM)

end rank2b
end GT.C07R2

namespace GT.CoxAut

theorem coxeterAutomaton_of_summary {n : ℕ} (ε : ℚ) (form : Vector (Vector ℚ n) n) (fuel outer bf : Nat)
    (lex : Bool) (L : List (List ℚ × List (Option Nat))) (N : List (List Bool)) (A : Table)
    (hs : summary (findSmallRoots ε form fuel outer) = some L)
    (hg : generateAutomaton (nbOfList (L.map (·.2))) L.length n lex bf = some (N, A)) :
    coxeterAutomaton ε form fuel outer bf lex = .ok A := by
  unfold coxeterAutomaton
  cases hr : findSmallRoots ε form fuel outer with
  | error e => rw [hr] at hs; simp [summary] at hs
  | ok roots =>
    rw [hr] at hs
    simp only [summary, Option.some.injEq] at hs
    have h1 : nbTable roots = nbOfList (L.map (·.2)) := by
      unfold nbTable; rw [← hs]; simp [List.map_map, Function.comp_def]
    have h2 : roots.size = L.length := by rw [← hs]; simp
    simp only [bind, Except.bind, h1, h2, hg]
    rfl

/-- small roots of `I₂(2)` as the model computes them over ℚ (fuel 8 / 8 suffices) -/
theorem smallRoots_two : summary (findSmallRoots eps0 (form2 (0 : ℚ)) 8 8) =
      some [([1, 0], [none, some 0]), ([0, 1], [some 1, none])] ∧
    summary (findSmallRoots eps6 (form2 (0 : ℚ)) 8 8) =
      some [([1, 0], [none, some 0]), ([0, 1], [some 1, none])] := by
  constructor <;> decide +kernel

/-- small roots of `I₂(3)` -/
theorem smallRoots_three : summary (findSmallRoots eps0 (form2 (-1 / 2 : ℚ)) 8 8) =
      some [([1, 0], [none, some 2]), ([0, 1], [some 2, none]), ([1, 1], [some 1, some 0])] ∧
    summary (findSmallRoots eps6 (form2 (-1 / 2 : ℚ)) 8 8) =
      some [([1, 0], [none, some 2]), ([0, 1], [some 2, none]), ([1, 1], [some 1, some 0])] := by
  constructor <;> decide +kernel

/-- small roots of `I₂(∞)` -/
theorem smallRoots_inf : summary (findSmallRoots eps0 (form2 (-1 : ℚ)) 8 8) =
      some [([1, 0], [none, none]), ([0, 1], [none, none])] ∧
    summary (findSmallRoots eps6 (form2 (-1 : ℚ)) 8 8) =
      some [([1, 0], [none, none]), ([0, 1], [none, none])] := by
  constructor <;> decide +kernel

theorem dihedralNb_two : DihedralNb 2 (nbOfList [[none, some 0], [some 1, none]]) (fun p => p) := by
  refine ⟨by decide, rfl, rfl, ?_, ?_, ?_, ?_, ?_, ?_⟩ <;> decide

theorem dihedralNb_three :
    DihedralNb 3 (nbOfList [[none, some 2], [some 2, none], [some 1, some 0]])
      (fun p => if p = 1 then 2 else if p = 2 then 1 else p) := by
  refine ⟨by decide, rfl, rfl, ?_, ?_, ?_, ?_, ?_, ?_⟩ <;> decide


end GT.CoxAut

namespace GT.C07R2
open GT.CoxAut CoxeterSystem

theorem altFrom_map {α β : Type} (f : α → β) (a b : α) (ℓ : ℕ) :
    (altFrom a b ℓ).map f = altFrom (f a) (f b) ℓ := by
  induction ℓ generalizing a b with
  | zero => rfl
  | succ ℓ ih => simp [altFrom, ih]

theorem map_val_injective : Function.Injective (List.map (Fin.val : Fin 2 → ℕ)) :=
  List.map_injective_iff.2 Fin.val_injective

/-- the two alternating words of length `ℓ`, in either naming -/
theorem alt_pair (w : List (Fin 2)) (ℓ : ℕ) :
    (w = alternatingWord 0 1 ℓ ∨ w = alternatingWord 1 0 ℓ) ↔
      (w = altFrom (0 : Fin 2) 1 ℓ ∨ w = altFrom (1 : Fin 2) 0 ℓ) := by
  rw [altFrom_eq, altFrom_eq]
  by_cases h : Even ℓ
  · simp only [h, if_true]
  · simp only [h, if_false]; exact Or.comm


section
variable {W : Type*} [Group W] {M : CoxeterMatrix (Fin 2)} (cs : CoxeterSystem M W)

theorem altFrom_length {α : Type} (a b : α) (ℓ : ℕ) : (altFrom a b ℓ).length = ℓ := by
  induction ℓ generalizing a b with
  | zero => rfl
  | succ ℓ ih => simp [altFrom, ih]

theorem altFrom_ne (ℓ ℓ' : ℕ) (h : 0 < ℓ) : altFrom (0 : Fin 2) 1 ℓ ≠ altFrom (1 : Fin 2) 0 ℓ' := by
  cases ℓ with
  | zero => omega
  | succ ℓ =>
    cases ℓ' with
    | zero => simp [altFrom]
    | succ ℓ' => simp [altFrom]

theorem reduced_form {w : List (Fin 2)} (hw : cs.IsReduced w) :
    (M 0 1 = 0 ∨ w.length ≤ M 0 1) ∧ (w = altFrom 0 1 w.length ∨ w = altFrom 1 0 w.length) := by
  obtain ⟨ℓ, hℓ, hwl⟩ := (isReduced_iff_rank2 cs w).1 hw
  have hlen : w.length = ℓ := by rcases hwl with h | h <;> rw [h, length_alternatingWord]
  rw [hlen]
  exact ⟨hℓ, (alt_pair w ℓ).1 hwl⟩

/-- two different reduced words of the same element of a rank-2 Coxeter group: the label is finite
and they are the two alternating words of that length (the two sides of the braid relation) -/
theorem reduced_unique {w w' : List (Fin 2)} (hw : cs.IsReduced w) (hw' : cs.IsReduced w')
    (hp : cs.wordProd w = cs.wordProd w') (hne : w ≠ w') :
    M 0 1 ≠ 0 ∧ ((w = altFrom 0 1 (M 0 1) ∧ w' = altFrom 1 0 (M 0 1)) ∨
      (w = altFrom 1 0 (M 0 1) ∧ w' = altFrom 0 1 (M 0 1))) := by
  have hl : w.length = w'.length := by rw [← hw.eq, ← hw'.eq, hp]
  obtain ⟨hb, hf⟩ := reduced_form cs hw
  obtain ⟨_, hf'⟩ := reduced_form cs hw'
  rw [← hl] at hf'
  set ℓ := w.length with hℓ
  -- the two words are the two different alternating words of length ℓ
  have hpair : (w = altFrom 0 1 ℓ ∧ w' = altFrom 1 0 ℓ) ∨ (w = altFrom 1 0 ℓ ∧ w' = altFrom 0 1 ℓ) := by
    rcases hf with h | h <;> rcases hf' with h' | h'
    · exact absurd (h.trans h'.symm) hne
    · exact Or.inl ⟨h, h'⟩
    · exact Or.inr ⟨h, h'⟩
    · exact absurd (h.trans h'.symm) hne
  have hprod : cs.wordProd (alternatingWord 1 0 ℓ) = cs.wordProd (alternatingWord 0 1 ℓ) := by
    have e : cs.wordProd (altFrom (0 : Fin 2) 1 ℓ) = cs.wordProd (altFrom (1 : Fin 2) 0 ℓ) := by
      rcases hpair with ⟨h, h'⟩ | ⟨h, h'⟩
      · rw [← h, ← h', hp]
      · rw [← h, ← h', hp]
    rw [altFrom_eq, altFrom_eq] at e
    by_cases he : Even ℓ
    · simp only [he, if_true] at e; exact e.symm
    · simp only [he, if_false] at e; exact e
  have hpow := pow_eq_one_of_alternating_eq cs 0 1 ℓ hprod
  have hpos : 0 < ℓ := by
    rcases Nat.eq_zero_or_pos ℓ with h0 | h0
    · exfalso
      have : w = [] := List.length_eq_zero_iff.1 (hℓ ▸ h0)
      have : w' = [] := List.length_eq_zero_iff.1 (by rw [← hl]; exact hℓ ▸ h0)
      apply hne; simp [*]
    · exact h0
  have hno : ¬ (M 0 1 = 0 ∨ ℓ < M 0 1) := fun h => no_early cs 0 1 (by decide) ℓ hpos h hpow
  have h0 : M 0 1 ≠ 0 := fun h => hno (Or.inl h)
  have hge : M 0 1 ≤ ℓ := by
    rcases Nat.lt_or_ge ℓ (M 0 1) with h | h
    · exact absurd (Or.inr h) hno
    · exact h
  have heq : ℓ = M 0 1 := by
    rcases hb with h | h
    · exact absurd h h0
    · omega
  rw [heq] at hpair
  exact ⟨h0, hpair⟩


end
end GT.C07R2
