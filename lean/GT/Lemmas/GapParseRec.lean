/- record context: step lemmas for `contentsLoop` (a field's value) and `recordLoop` -/
import GT.Lemmas.GapParseListMain

namespace GT.Gap

/-! ### `contentsLoop` -/

theorem contentsLoop_step_ws {f : Nat} {t : List Char} {i : Nat} {c : Char} {more : List Char}
    (h : t.drop i = c :: more) (hc : isWs c = true) (content : List Char) :
    contentsLoop (f + 1) t i content = contentsLoop f t (i + 1) content := by
  obtain ⟨h1, h2, h3, h4, h5, h6, h7, h8⟩ := ws_facts hc
  rw [contentsLoop, hd_of_drop h]
  simp [h1, h3, hc]

theorem contentsLoop_skip_ws : ∀ (w : List Char), AllWs w → ∀ (fuel : Nat) (t : List Char) (i : Nat)
    (more content : List Char), t.drop i = w ++ more → 2 * t.length + 2 ≤ fuel + 2 * i →
    contentsLoop fuel t i content = contentsLoop (fuel - w.length) t (i + w.length) content := by
  intro w
  induction w with
  | nil => intros; simp
  | cons c w ih =>
    intro hw fuel t i more content h hb
    have hlen := len_of_drop h (by simp)
    obtain ⟨f, rfl⟩ : ∃ f, fuel = f + 1 := ⟨fuel - 1, by simp at hlen; omega⟩
    rw [contentsLoop_step_ws (more := w ++ more) (by simpa using h) (hw c (by simp))]
    rw [ih (fun d hd => hw d (by simp [hd])) f t (i + 1) more content
      (tl_of_drop (by simpa using h)) (by omega)]
    simp only [List.length_cons]
    congr 1 <;> omega

/-- a bare token followed by whitespace and a terminator never spells `rec(` -/
theorem no_rec (s' W rest' : List Char) (term : Char) (hs : ∀ c ∈ s', isBareChar c = true)
    (hW : AllWs W) (ht : term = ',' ∨ term = ')') :
    (s' ++ (W ++ term :: rest')).take 3 ≠ ['e', 'c', '('] := by
  have hb : ∀ c ∈ s', c ≠ '(' := fun c hc => (bareChar_facts (hs c hc)).2.2.2.2.2.1
  have hw : ∀ c ∈ W, c ≠ 'e' ∧ c ≠ 'c' ∧ c ≠ '(' := by
    intro c hc
    have := hW c hc
    simp [isWs] at this
    rcases this with (h | h) | h <;> subst h <;> decide
  have ht' : term ≠ 'e' ∧ term ≠ 'c' ∧ term ≠ '(' := by
    rcases ht with rfl | rfl <;> decide
  intro h
  rcases s' with _ | ⟨a, _ | ⟨b, _ | ⟨c, s''⟩⟩⟩
  · rcases W with _ | ⟨x, _ | ⟨y, _ | ⟨z, W'⟩⟩⟩ <;> simp at h
    · exact ht'.1 h.1
    · exact (hw x (by simp)).1 h.1
    · exact (hw x (by simp)).1 h.1
    · exact (hw x (by simp)).1 h.1
  · rcases W with _ | ⟨x, _ | ⟨y, W'⟩⟩ <;> simp at h
    · exact ht'.2.1 h.2.1
    · exact (hw x (by simp)).2.1 h.2.1
    · exact (hw x (by simp)).2.1 h.2.1
  · rcases W with _ | ⟨x, W'⟩ <;> simp at h
    · exact ht'.2.2 h.2.2
    · exact (hw x (by simp)).2.2 h.2.2
  · simp at h
    exact hb c (by simp) h.2.2

theorem contentsLoop_step_bare {f : Nat} {t : List Char} {i : Nat} {c : Char} {s' W rest' : List Char}
    {term : Char} (h : t.drop i = c :: (s' ++ (W ++ term :: rest'))) (hc : isBareChar c = true)
    (hs : ∀ d ∈ s', isBareChar d = true) (hW : AllWs W) (ht : term = ',' ∨ term = ')')
    (content : List Char) :
    contentsLoop (f + 1) t i content = contentsLoop f t (i + 1) (content ++ [c]) := by
  obtain ⟨h0, h1, h2, h3, h4, h5, h6⟩ := bareChar_facts hc
  rw [contentsLoop, hd_of_drop h]
  by_cases hr : c = 'r'
  · subst hr
    have hnr : ((t.drop i).take 4 == ['r', 'e', 'c', '(']) = false := by
      rw [h]
      have := no_rec s' W rest' term hs hW ht
      simp only [List.take_succ_cons]
      simpa using this
    simp [hnr, isWs]
  · simp [h0, h1, h2, h3, h6, hr]

theorem contentsLoop_scan_bare : ∀ (s : List Char), (∀ c ∈ s, isBareChar c = true) →
    ∀ (fuel : Nat) (t : List Char) (i : Nat) (W rest' content : List Char) (term : Char),
    AllWs W → (term = ',' ∨ term = ')') →
    t.drop i = s ++ (W ++ term :: rest') → 2 * t.length + 2 ≤ fuel + 2 * i →
    contentsLoop fuel t i content = contentsLoop (fuel - s.length) t (i + s.length) (content ++ s) := by
  intro s
  induction s with
  | nil => intros; simp
  | cons c s ih =>
    intro hs fuel t i W rest' content term hW ht h hb
    have hlen := len_of_drop h (by simp)
    obtain ⟨f, rfl⟩ : ∃ f, fuel = f + 1 := ⟨fuel - 1, by simp at hlen; omega⟩
    rw [contentsLoop_step_bare (by simpa using h) (hs c (by simp))
      (fun d hd => hs d (by simp [hd])) hW ht]
    rw [ih (fun d hd => hs d (by simp [hd])) f t (i + 1) W rest' (content ++ [c]) term hW ht
      (tl_of_drop (by simpa using h)) (by omega)]
    simp only [List.length_cons, List.append_assoc, List.singleton_append]
    congr 1 <;> omega

theorem contentsLoop_term {f : Nat} {t : List Char} {i : Nat} {term : Char} {more : List Char}
    (h : t.drop i = term :: more) (ht : term = ',' ∨ term = ')') {s : List Char} {v : GVal}
    (hl : literal s = .ok v) : contentsLoop (f + 1) t i s = .ok (v, i + 1) := by
  rw [contentsLoop, hd_of_drop h]
  rcases ht with rfl | rfl <;> simp [hl, isWs] <;> rfl

theorem contentsLoop_quote {f : Nat} {t : List Char} {i : Nat} {s more : List Char}
    (h : t.drop i = '"' :: (s ++ '"' :: more)) (hs : '"' ∉ s) (content : List Char) :
    contentsLoop (f + 1) t i content = .ok (.str s, (s.length + 1) + i + 1) := by
  rw [contentsLoop, hd_of_drop h, tl_of_drop h, parseQuote_spec s more hs]
  simp; rfl

theorem contentsLoop_open {f : Nat} {t : List Char} {i : Nat} {more : List Char}
    (h : t.drop i = '[' :: more) (content : List Char) {l : GVal} {off : Nat}
    (hp : parseList f more = .ok (l, off)) :
    contentsLoop (f + 1) t i content = .ok (l, off + i + 1) := by
  rw [contentsLoop, hd_of_drop h, tl_of_drop h, hp]
  simp; rfl

theorem contentsLoop_rec {f : Nat} {t : List Char} {i : Nat} {more : List Char}
    (h : t.drop i = 'r' :: 'e' :: 'c' :: '(' :: more) (hm : more ≠ []) (content : List Char)
    {r : List (List Char × GVal)} {off : Nat}
    (hp : recordLoop f more 0 [] [] = .ok (r, off)) :
    contentsLoop (f + 1) t i content = .ok (.record r, off + i + 4) := by
  have hlen := len_of_drop h (by simp)
  have hml : more.length ≠ 0 := fun h0 => hm (List.length_eq_zero_iff.1 h0)
  have hgt : decide (t.length > i + 4) = true := by simp at hlen ⊢; omega
  have hdrop : t.drop (i + 4) = more := by
    have : t.drop (i + 4) = (t.drop i).drop 4 := by rw [List.drop_drop]
    rw [this, h]; rfl
  rw [contentsLoop, hd_of_drop h]
  simp only [hdrop, h, hgt]
  simp [isWs, hp]; rfl

end GT.Gap

namespace GT.Gap

/-! ### `recordLoop` -/

theorem nameChar_facts {c : Char} (h : isNameChar c = true) :
    isWs c = false ∧ c ≠ ',' ∧ c ≠ ')' ∧ c ≠ ':' := by
  simp [isNameChar] at h
  obtain ⟨⟨⟨h1, h2⟩, h3⟩, h4⟩ := h
  exact ⟨by simpa using h1, h2, h3, h4⟩

theorem recordLoop_step_ws {f : Nat} {t : List Char} {i : Nat} {c : Char} {more : List Char}
    (h : t.drop i = c :: more) (hc : isWs c = true) (name : List Char) (fs : List (List Char × GVal)) :
    recordLoop (f + 1) t i name fs = recordLoop f t (i + 1) name fs := by
  obtain ⟨h1, h2, h3, h4, h5, h6, h7, h8⟩ := ws_facts hc
  rw [recordLoop, hd_of_drop h]
  simp [h2, h6, h8, hc]

theorem recordLoop_step_name {f : Nat} {t : List Char} {i : Nat} {c : Char} {more : List Char}
    (h : t.drop i = c :: more) (hc : isNameChar c = true) (name : List Char) (fs : List (List Char × GVal)) :
    recordLoop (f + 1) t i name fs = recordLoop f t (i + 1) (name ++ [c]) fs := by
  obtain ⟨h0, h1, h2, h3⟩ := nameChar_facts hc
  rw [recordLoop, hd_of_drop h]
  simp [h0, h1, h2, h3]

theorem recordLoop_skip_ws : ∀ (w : List Char), AllWs w → ∀ (fuel : Nat) (t : List Char) (i : Nat)
    (more name : List Char) (fs : List (List Char × GVal)), t.drop i = w ++ more →
    2 * t.length + 2 ≤ fuel + 2 * i →
    recordLoop fuel t i name fs = recordLoop (fuel - w.length) t (i + w.length) name fs := by
  intro w
  induction w with
  | nil => intros; simp
  | cons c w ih =>
    intro hw fuel t i more name fs h hb
    have hlen := len_of_drop h (by simp)
    obtain ⟨f, rfl⟩ : ∃ f, fuel = f + 1 := ⟨fuel - 1, by simp at hlen; omega⟩
    rw [recordLoop_step_ws (more := w ++ more) (by simpa using h) (hw c (by simp))]
    rw [ih (fun d hd => hw d (by simp [hd])) f t (i + 1) more name fs
      (tl_of_drop (by simpa using h)) (by omega)]
    simp only [List.length_cons]
    congr 1 <;> omega

theorem recordLoop_scan_name : ∀ (s : List Char), (∀ c ∈ s, isNameChar c = true) →
    ∀ (fuel : Nat) (t : List Char) (i : Nat) (more name : List Char) (fs : List (List Char × GVal)),
    t.drop i = s ++ more → 2 * t.length + 2 ≤ fuel + 2 * i →
    recordLoop fuel t i name fs = recordLoop (fuel - s.length) t (i + s.length) (name ++ s) fs := by
  intro s
  induction s with
  | nil => intros; simp
  | cons c s ih =>
    intro hs fuel t i more name fs h hb
    have hlen := len_of_drop h (by simp)
    obtain ⟨f, rfl⟩ : ∃ f, fuel = f + 1 := ⟨fuel - 1, by simp at hlen; omega⟩
    rw [recordLoop_step_name (more := s ++ more) (by simpa using h) (hs c (by simp))]
    rw [ih (fun d hd => hs d (by simp [hd])) f t (i + 1) more (name ++ [c]) fs
      (tl_of_drop (by simpa using h)) (by omega)]
    simp only [List.length_cons, List.append_assoc, List.singleton_append]
    congr 1 <;> omega

theorem recordLoop_comma {f : Nat} {t : List Char} {i : Nat} {more : List Char}
    (h : t.drop i = ',' :: more) (name : List Char) (fs : List (List Char × GVal)) :
    recordLoop (f + 1) t i name fs = recordLoop f t (i + 1) [] fs := by
  rw [recordLoop, hd_of_drop h]; simp

theorem recordLoop_close {f : Nat} {t : List Char} {i : Nat} {more : List Char}
    (h : t.drop i = ')' :: more) (name : List Char) (fs : List (List Char × GVal)) :
    recordLoop (f + 1) t i name fs = .ok (fs, i + 1 + 1) := by
  rw [recordLoop, hd_of_drop h]; simp; rfl

theorem recordLoop_eof {f : Nat} {t : List Char} {i : Nat} (h : t.length ≤ i)
    (name : List Char) (fs : List (List Char × GVal)) :
    recordLoop (f + 1) t i name fs = .ok (fs, i + 1) := by
  rw [recordLoop, List.getElem?_eq_none h]; rfl

theorem recordLoop_assign {f : Nat} {t : List Char} {i : Nat} {more : List Char}
    (h : t.drop i = ':' :: '=' :: more) (name : List Char) (fs : List (List Char × GVal))
    {v : GVal} {off : Nat} (hp : contentsLoop f more 0 [] = .ok (v, off)) :
    recordLoop (f + 1) t i name fs = recordLoop f t (i + off + 1) name (setField fs name v) := by
  have h1 : t[i + 1]? = some '=' := hd_of_drop (tl_of_drop h)
  have h2 : t.drop (i + 2) = more := tl_of_drop (tl_of_drop h)
  rw [recordLoop, hd_of_drop h]
  simp [h1, h2, hp]; rfl

end GT.Gap
