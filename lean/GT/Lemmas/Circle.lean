import GT.Model.Circle
import GT.Lemmas.Targets

open Finset BigOperators

set_option linter.unusedSectionVars false

namespace GT.Circle
open GT.Targets

section field
variable {K : Type*} [Field K] {n : ℕ}

theorem dot_lin_left (a b : K) (x y z : Fin n → K) :
    dot (fun i => a * x i + b * y i) z = a * dot x z + b * dot y z := by
  unfold dot
  rw [Finset.mul_sum, Finset.mul_sum, ← Finset.sum_add_distrib]
  exact Finset.sum_congr rfl fun i _ => by ring

theorem dot_lin_right (a b : K) (x y z : Fin n → K) :
    dot z (fun i => a * x i + b * y i) = a * dot z x + b * dot z y := by
  rw [dot_comm, dot_lin_left, dot_comm x, dot_comm y]

theorem dot_div_left (c : K) (x y : Fin n → K) : dot (fun i => x i / c) y = dot x y / c := by
  have : (fun i => x i / c) = fun i => x i * c⁻¹ := by funext i; rw [div_eq_mul_inv]
  rw [this, dot_smul_left]; field_simp

theorem dot_div_right (c : K) (x y : Fin n → K) : dot x (fun i => y i / c) = dot x y / c := by
  rw [dot_comm, dot_div_left, dot_comm]

theorem dot_affComb_left {k : ℕ} (lam : Fin k → K) (ks : Fin k → Fin n → K) (z : Fin n → K) :
    dot (affComb lam ks) z = ∑ j, lam j * dot (ks j) z := by
  unfold dot affComb
  simp only [Finset.sum_mul, Finset.mul_sum]
  rw [Finset.sum_comm]
  exact Finset.sum_congr rfl fun j _ => Finset.sum_congr rfl fun i _ => by ring

/-- the quadratic whose roots `Segment._compute_aux_data` computes is `⟨·,·⟩` along the line -/
theorem mink_segNull (mu : K) (x₁ x₂ : Fin (n + 1) → K) :
    mink (segNull mu x₁ x₂) (segNull mu x₁ x₂)
      = segA x₁ x₂ * mu ^ 2 + segB x₁ x₂ * mu + segC x₁ x₂ := by
  unfold segNull segA segB segC
  rw [mink_lin_left, mink_lin_right, mink_lin_right, mink_comm x₂ x₁]; ring

theorem segA_eq (x₁ x₂ : Fin (n + 1) → K) :
    segA x₁ x₂ = mink (fun i => x₁ i - x₂ i) (fun i => x₁ i - x₂ i) := by
  unfold segA; rw [mink_sub_left, mink_sub_right, mink_sub_right, mink_comm x₂ x₁]; ring

theorem segDisc_eq (x₁ x₂ : Fin (n + 1) → K) :
    segDisc x₁ x₂ = 4 * (mink x₁ x₂ ^ 2 - mink x₁ x₁ * mink x₂ x₂) := by
  unfold segDisc segA segB segC; ring

/-- consequence of the foot contract: every ideal point has the same product with the foot,
namely the foot's squared norm -/
theorem IsFoot.dot_eq {k : ℕ} {lam : Fin (k + 1) → K} {ks : Fin (k + 1) → Fin n → K}
    (h : IsFoot lam ks) (j : Fin (k + 1)) :
    dot (ks j) (affComb lam ks) = nsq (affComb lam ks) := by
  obtain ⟨h1, h2⟩ := h
  have hj : ∀ j, dot (ks j) (affComb lam ks) = dot (ks 0) (affComb lam ks) := by
    intro j
    have := h2 j
    rw [dot_sub_left] at this
    exact sub_eq_zero.1 this
  have : nsq (affComb lam ks) = dot (ks 0) (affComb lam ks) := by
    unfold nsq
    rw [dot_affComb_left]
    calc ∑ j, lam j * dot (ks j) (affComb lam ks)
        = ∑ j, lam j * dot (ks 0) (affComb lam ks) :=
          Finset.sum_congr rfl fun j _ => by rw [hj j]
      _ = (∑ j, lam j) * dot (ks 0) (affComb lam ks) := by rw [Finset.sum_mul]
      _ = _ := by rw [h1, one_mul]
  rw [this, hj j]

theorem affComb_lamMid (ks : Fin 2 → Fin n → K) :
    affComb lamMid ks = fun i => (ks 0 i + ks 1 i) / 2 := by
  funext i; simp [affComb, lamMid, Fin.sum_univ_two]; ring

theorem centroid_two [CharZero K] (ks : Fin 2 → Fin n → K) :
    centroid ks = fun i => (ks 0 i + ks 1 i) / 2 := by
  funext i; simp [centroid, Fin.sum_univ_two]

end field

section ordered
variable {K : Type*} [Field K] [LinearOrder K] [IsStrictOrderedRing K] {n : ℕ} {r : K → K}

/-- closed form of the Poincaré sphere built from the Klein point `m`: centre `m/|m|²`,
radius `√(1-|m|²)/|m|` -/
theorem poincareSphere_closed (hr : IsSqrt r) (m : Fin n → K) (h0 : 0 < nsq m) (h1 : nsq m ≤ 1) :
    (poincareSphere r m).1 = (fun i => m i / nsq m) ∧
    (poincareSphere r m).2 * (poincareSphere r m).2 = (1 - nsq m) / nsq m ∧
    0 ≤ (poincareSphere r m).2 := by
  have hb : 0 ≤ 1 - nsq m := by linarith
  obtain ⟨hs0, hs1⟩ := hr (1 - nsq m) hb
  have hp : k2p r m = fun i => m i * (1 / (1 + r (1 - nsq m))) := by
    funext j; unfold k2p; rw [abs_of_nonneg hb]
  generalize r (1 - nsq m) = s at hs0 hs1 hp
  have hne : (1 + s) ≠ 0 := by linarith
  have hm : nsq m = 1 - s * s := by rw [hs1]; ring
  have hs_lt : s < 1 := by nlinarith
  have hne2 : (1 - s) ≠ 0 := by linarith
  have hnp : nsq (k2p r m) = (1 - s) / (1 + s) := by
    rw [hp, nsq_smul, hm]; field_simp; ring
  have hnp0 : nsq (k2p r m) ≠ 0 := by rw [hnp]; exact div_ne_zero hne2 hne
  -- p - e = m * (-2 s / (1 - s²))
  have hdiff : (fun i => k2p r m i - sphereInv (k2p r m) i)
      = fun i => m i * (-2 * s / ((1 + s) * (1 - s))) := by
    funext i; unfold sphereInv; rw [hnp, hp]; field_simp; ring
  have hnd : nsq (fun i => k2p r m i - sphereInv (k2p r m) i)
      = (2 * s / ((1 + s) * (1 - s)) * r (nsq m)) ^ 2 := by
    rw [hdiff, nsq_smul]
    have := (hr (nsq m) h0.le).2
    field_simp
    linear_combination (-(s ^ 2)) * this
  have hrm := hr.pos h0
  have hrm2 := (hr (nsq m) h0.le).2
  have hne3 : (1 - s ^ 2) ≠ 0 := by
    have : 1 - s ^ 2 = nsq m := by rw [hm]; ring
    rw [this]; exact h0.ne'
  refine ⟨?_, ?_, ?_⟩
  · funext i
    show (k2p r m i + sphereInv (k2p r m) i) / 2 = _
    unfold sphereInv; rw [hnp, hp, hm]; field_simp; ring
  · show r (nsq (fun i => k2p r m i - sphereInv (k2p r m) i)) / 2
        * (r (nsq (fun i => k2p r m i - sphereInv (k2p r m) i)) / 2) = _
    rw [hnd, hr.sq (by positivity)]
    have e : ((1 + s) * (1 - s)) = nsq m := by rw [hm]; ring
    rw [e]
    field_simp
    rw [hm] at hrm2 ⊢
    linear_combination (s ^ 2) * hrm2
  · show 0 ≤ r (nsq (fun i => k2p r m i - sphereInv (k2p r m) i)) / 2
    have := (hr _ (nsq_nonneg (fun i => k2p r m i - sphereInv (k2p r m) i))).1
    positivity

end ordered
end GT.Circle

/-! ### `poincare_to_halfspace` is an inversion: the distance formula -/
namespace GT.Circle
open GT.Targets

section field
variable {K : Type*} [Field K] {n : ℕ}

/-- the denominator of `poincare_to_halfspace`: squared distance to the pole `(1,0,…,0)` -/
def poleDist (p : Fin (n + 1) → K) : K := nsq (Fin.tail p) + (p 0 - 1) * (p 0 - 1)

theorem nsq_init_last (v : Fin (n + 1) → K) : nsq v = nsq (Fin.init v) + v (Fin.last n) ^ 2 := by
  unfold nsq dot; rw [Fin.sum_univ_castSucc]; simp [Fin.init, pow_two]

theorem nsq_head_tail (v : Fin (n + 1) → K) : nsq v = v 0 ^ 2 + nsq (Fin.tail v) := by
  unfold nsq dot; rw [Fin.sum_univ_succ]; simp [Fin.tail, pow_two]

theorem dot_head_tail (v w : Fin (n + 1) → K) :
    dot v w = v 0 * w 0 + dot (Fin.tail v) (Fin.tail w) := by
  unfold dot; rw [Fin.sum_univ_succ]; simp [Fin.tail]

theorem nsq_lin (a b : K) (x y : Fin n → K) :
    nsq (fun i => a * x i + b * y i) = a ^ 2 * nsq x + 2 * a * b * dot x y + b ^ 2 * nsq y := by
  unfold nsq
  rw [dot_lin_left, dot_lin_right, dot_lin_right, dot_comm y x]; ring

theorem poleDist_eq (p : Fin (n + 1) → K) : poleDist p = nsq p - 2 * p 0 + 1 := by
  unfold poleDist; rw [nsq_head_tail]; ring

/-- `|p2h(p) - p2h(q)|² = 4|p - q|² / (|p - e|²|q - e|²)`, `e` the pole -/
theorem nsq_p2h_sub (p q : Fin (n + 1) → K) (hp : poleDist p ≠ 0) (hq : poleDist q ≠ 0) :
    nsq (fun i => p2h p i - p2h q i)
      = 4 * nsq (fun i => p i - q i) / (poleDist p * poleDist q) := by
  have hp' : nsq (Fin.tail p) + (p 0 - 1) * (p 0 - 1) ≠ 0 := hp
  have hq' : nsq (Fin.tail q) + (q 0 - 1) * (q 0 - 1) ≠ 0 := hq
  rw [nsq_init_last]
  have hinit : Fin.init (fun i => p2h p i - p2h q i)
      = fun i => (-2 / poleDist p) * Fin.tail p i + (2 / poleDist q) * Fin.tail q i := by
    funext i
    simp only [Fin.init, p2h, Fin.snoc_castSucc, poleDist]
    field_simp
    ring
  have hlast : p2h p (Fin.last n) - p2h q (Fin.last n)
      = (1 - nsq (Fin.tail p) - p 0 * p 0) / poleDist p
        - (1 - nsq (Fin.tail q) - q 0 * q 0) / poleDist q := by
    simp only [p2h, Fin.snoc_last, poleDist]
  rw [hinit, hlast, nsq_lin]
  have hsub : nsq (fun i => p i - q i)
      = (p 0 - q 0) ^ 2 + (nsq (Fin.tail p) - 2 * dot (Fin.tail p) (Fin.tail q) + nsq (Fin.tail q)) := by
    rw [nsq_head_tail]
    have : Fin.tail (fun i => p i - q i) = fun i => Fin.tail p i - Fin.tail q i := rfl
    rw [this, nsq_sub]
  rw [hsub]
  have eP : poleDist p = nsq (Fin.tail p) + (p 0 - 1) * (p 0 - 1) := rfl
  have eQ : poleDist q = nsq (Fin.tail q) + (q 0 - 1) * (q 0 - 1) := rfl
  generalize poleDist p = Dp at *
  generalize poleDist q = Dq at *
  generalize nsq (Fin.tail p) = A at *
  generalize nsq (Fin.tail q) = B at *
  generalize dot (Fin.tail p) (Fin.tail q) = C at *
  generalize p 0 = y at *
  generalize q 0 = z at *
  field_simp
  rw [eP, eQ]
  ring

end field
end GT.Circle
