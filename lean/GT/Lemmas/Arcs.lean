import GT.Model.Arcs
import Mathlib.Tactic.Linarith
import Mathlib.Tactic.Ring
import Mathlib.Tactic.LinearCombination
import Mathlib.Algebra.Order.Ring.Cast

set_option linter.unusedSectionVars false

namespace GT.Arcs

variable {K : Type*} [Field K] [LinearOrder K] [IsStrictOrderedRing K]

theorem CongPi.refl (pi a : K) : CongPi pi a a := ⟨0, by simp⟩

theorem CongPi.symm {pi a b : K} (h : CongPi pi a b) : CongPi pi b a := by
  obtain ⟨k, hk⟩ := h
  exact ⟨-k, by push_cast; linear_combination -hk⟩

theorem CongPi.sub {pi a b c d : K} (h1 : CongPi pi a b) (h2 : CongPi pi c d) : CongPi pi (a - c) (b - d) := by
  obtain ⟨k, hk⟩ := h1
  obtain ⟨l, hl⟩ := h2
  exact ⟨k - l, by push_cast; linear_combination hk - hl⟩

theorem shiftNonneg_cong (pi x : K) : CongPi pi (shiftNonneg pi x) x := by
  unfold shiftNonneg
  split_ifs
  · exact ⟨1, by push_cast; ring⟩
  · exact CongPi.refl pi x

theorem shiftNonneg_range {pi x : K} (_hpi : 0 < pi) (h1 : -(2 * pi) < x) (h2 : x < 2 * pi) :
    0 ≤ shiftNonneg pi x ∧ shiftNonneg pi x < 2 * pi := by
  unfold shiftNonneg
  split_ifs with h
  · constructor <;> linarith
  · exact ⟨not_lt.1 h, h2⟩

theorem shiftNonneg_range' {pi x : K} (_hpi : 0 < pi) (h1 : -(2 * pi) ≤ x) (h2 : x ≤ 2 * pi) :
    0 ≤ shiftNonneg pi x ∧ shiftNonneg pi x ≤ 2 * pi := by
  unfold shiftNonneg
  split_ifs with h
  · constructor <;> linarith
  · exact ⟨not_lt.1 h, h2⟩

/-- `short_arc` on a pair of angles in `(−2π, 2π)`: the output is the input pair modulo `2π`, in
one of the two orders, and the counter-clockwise arc from the first to the second output angle
has length `t ≤ π` (so it is the shorter of the two arcs) -/
theorem shortArc_spec' {pi : K} (hpi : 0 < pi) (a b : K) (ha : -(2 * pi) < a ∧ a < 2 * pi)
    (hb : -(2 * pi) < b ∧ b < 2 * pi) :
    ((CongPi pi (shortArc pi (a, b)).1 a ∧ CongPi pi (shortArc pi (a, b)).2 b) ∨
     (CongPi pi (shortArc pi (a, b)).1 b ∧ CongPi pi (shortArc pi (a, b)).2 a)) ∧
    ∃ t, 0 ≤ t ∧ t ≤ pi ∧ CongPi pi ((shortArc pi (a, b)).2 - (shortArc pi (a, b)).1) t := by
  have ca := shiftNonneg_cong pi a
  have cb := shiftNonneg_cong pi b
  obtain ⟨a0, a1⟩ := shiftNonneg_range hpi ha.1 ha.2
  obtain ⟨b0, b1⟩ := shiftNonneg_range hpi hb.1 hb.2
  unfold shortArc
  simp only
  generalize shiftNonneg pi a = a' at *
  generalize shiftNonneg pi b = b' at *
  rcases le_total a' b' with h | h
  · rw [min_eq_left h, max_eq_right h]
    split_ifs with hf
    · refine ⟨Or.inr ⟨cb, ca⟩, 2 * pi - (b' - a'), by linarith, by linarith, ⟨-1, by push_cast; ring⟩⟩
    · refine ⟨Or.inl ⟨ca, cb⟩, b' - a', by linarith, not_lt.1 hf, CongPi.refl _ _⟩
  · rw [min_eq_right h, max_eq_left h]
    split_ifs with hf
    · refine ⟨Or.inl ⟨ca, cb⟩, 2 * pi - (a' - b'), by linarith, by linarith, ⟨-1, by push_cast; ring⟩⟩
    · refine ⟨Or.inr ⟨cb, ca⟩, a' - b', by linarith, not_lt.1 hf, CongPi.refl _ _⟩

/-- `right_to_left`: the output is the input pair in one of the two orders, and the cosine of
the second angle is at most the cosine of the first (the counter-clockwise arc runs right to left) -/
theorem rightToLeft_spec' (cs : K → K) (a b : K) :
    (rightToLeft cs (a, b) = (a, b) ∨ rightToLeft cs (a, b) = (b, a)) ∧
    cs (rightToLeft cs (a, b)).2 ≤ cs (rightToLeft cs (a, b)).1 := by
  unfold rightToLeft
  split_ifs with h
  · exact ⟨Or.inr rfl, h.le⟩
  · exact ⟨Or.inl rfl, not_lt.1 h⟩

/-- `arc_include` on angles in `[−π, π]`: the output is the input pair in one of the two orders,
and walking counter-clockwise from the first output angle one meets the reference angle (after
`s`) no later than the second output angle (after `t`), within one full turn -/
theorem arcInclude_spec' {pi : K} (hpi : 0 < pi) (a b ref : K) (ha : -pi ≤ a ∧ a ≤ pi) (hb : -pi ≤ b ∧ b ≤ pi)
    (href : -pi ≤ ref ∧ ref ≤ pi) :
    (arcInclude pi (a, b) ref = (a, b) ∨ arcInclude pi (a, b) ref = (b, a)) ∧
    ∃ s t, 0 ≤ s ∧ s ≤ t ∧ t ≤ 2 * pi ∧
      CongPi pi (ref - (arcInclude pi (a, b) ref).1) s ∧
      CongPi pi ((arcInclude pi (a, b) ref).2 - (arcInclude pi (a, b) ref).1) t := by
  have c1 := shiftNonneg_cong pi (b - a)
  have c2 := shiftNonneg_cong pi (ref - a)
  obtain ⟨s10, s11⟩ := shiftNonneg_range' hpi (x := b - a) (by linarith) (by linarith)
  obtain ⟨r0, r1⟩ := shiftNonneg_range' hpi (x := ref - a) (by linarith) (by linarith)
  unfold arcInclude
  simp only
  generalize shiftNonneg pi (b - a) = s1 at *
  generalize shiftNonneg pi (ref - a) = sref at *
  split_ifs with h
  · refine ⟨Or.inr rfl, sref - s1, 2 * pi - s1, by linarith, by linarith, by linarith, ?_, ?_⟩
    · obtain ⟨k, hk⟩ := c1
      obtain ⟨l, hl⟩ := c2
      exact ⟨k - l, by push_cast; linear_combination hk - hl⟩
    · obtain ⟨k, hk⟩ := c1
      exact ⟨k - 1, by push_cast; linear_combination hk⟩
  · exact ⟨Or.inl rfl, sref, s1, r0, not_lt.1 h, s11, c2.symm, c1.symm⟩

end GT.Arcs
