/- helper lemmas for the C11 state machine (`GT.Model.ObjState`) -/
import GT.Model.ObjState
import GT.Lemmas.ND
import GT.Lemmas.Obj
import GT.Lemmas.Units
import GT.Lemmas.Action
import Mathlib.Tactic.FinCases

set_option linter.unusedSectionVars false
set_option linter.unusedSimpArgs false
set_option linter.unusedVariables false

open Matrix

namespace GT.Act
open ND

variable {K : Type} [Field K] [Inhabited K]

/-! ### derived data is computed unit by unit -/

theorem auxRows_ne_nil (kind : Kind) (t : ℕ) : auxRows kind t ≠ [] := by
  cases kind <;> simp [auxRows]

/-- `auxEntry` reads the primary unit only at valid positions -/
theorem auxEntry_congr (r : K → K) (kind : Kind) {t n : ℕ} {acc acc' : List ℕ → K}
    (h : ∀ y, Valid [t, n] y → acc y = acc' y) {x : List ℕ}
    (hx : Valid (auxRows kind t ++ [n]) x) :
    auxEntry r kind [t, n] acc x = auxEntry r kind [t, n] acc' x := by
  cases kind
  case polygon =>
    simp only [auxRows, List.cons_append, List.nil_append] at hx
    match x, hx with
    | [v, e, c], hx =>
      simp only [valid_cons_cons] at hx
      simp only [auxEntry]
      apply h
      simp only [valid_cons_cons, valid_nil_nil, and_true]
      exact ⟨Nat.mod_lt _ (by omega), hx.2.2.1⟩
  case segment =>
    simp only [auxRows, List.cons_append, List.nil_append] at hx
    match x, hx with
    | [e, c], hx =>
      by_cases ht : t = 2
      · subst ht
        have hm : (Matrix.of fun (a : Fin 2) (b : Fin n) => acc [a.1, b.1]) = Matrix.of fun a b => acc' [a.1, b.1] := by
          ext a b; simp only [Matrix.of_apply]; apply h; simp [a.2, b.2]
        simp only [auxEntry, hm]
      · match t, ht with
        | 0, _ => simp [auxEntry]
        | 1, _ => simp [auxEntry]
        | (k + 3), _ => simp [auxEntry]
  case tangent =>
    simp only [auxRows, List.cons_append, List.nil_append] at hx
    match x, hx with
    | [e, c], hx =>
      by_cases ht : t = 2
      · subst ht
        have hm : (Matrix.of fun (a : Fin 2) (b : Fin n) => acc [a.1, b.1]) = Matrix.of fun a b => acc' [a.1, b.1] := by
          ext a b; simp only [Matrix.of_apply]; apply h; simp [a.2, b.2]
        simp only [auxEntry, hm]
      · match t, ht with
        | 0, _ => simp [auxEntry]
        | 1, _ => simp [auxEntry]
        | (k + 3), _ => simp [auxEntry]
  all_goals simp [auxEntry]

theorem computeAux_none (r : K → K) {kind : Kind} (h : kind.auxNdims = 0) (p : ND K) :
    computeAux r kind p = none := by simp [computeAux, h]

/-- shape and entries of `computeAux` -/
theorem computeAux_spec (r : K → K) {kind : Kind} (hk : kind.auxNdims ≠ 0) (p : ND K)
    {o : List ℕ} {t n : ℕ} (hp : p.shape = o ++ [t, n]) :
    ∃ a, computeAux r kind p = some a ∧ a.shape = o ++ auxRows kind t ++ [n] ∧
      ∀ i x, Valid o i → Valid (auxRows kind t ++ [n]) x →
        a.get (i ++ x) = auxEntry r kind [t, n] (fun y => p.get (i ++ y)) x := by
  have hl : p.shape.length - 2 = o.length := by simp [hp]
  have htake : p.shape.take o.length = o := by rw [hp]; exact List.take_left' rfl
  have hdrop : p.shape.drop o.length = [t, n] := by rw [hp]; exact List.drop_left' rfl
  refine ⟨_, by simp only [computeAux, hk, if_false, hl, htake, hdrop]; rfl, by simp, ?_⟩
  intro i x hi hx
  rw [get_ofFn]
  · have e1 : (i ++ x).take o.length = i := List.take_left' hi.length
    have e2 : (i ++ x).drop o.length = x := List.drop_left' hi.length
    rw [e1, e2]
  · simp only [List.headD_cons, List.getD_cons_succ, List.getD_cons_zero, List.append_assoc]
    exact hi.append hx

/-! ### the invariant -/

theorem inv_of_construct (r : K → K) (kind : Kind) (p : ND K) {o : List ℕ} {t n : ℕ}
    (hp : p.shape = o ++ [t, n]) : Inv r (Obj.construct r kind p) := by
  by_cases hk : kind.auxNdims = 0
  · left; exact ⟨hk, computeAux_none r hk p⟩
  · right
    obtain ⟨a, ha, hs, hg⟩ := computeAux_spec r hk p hp
    refine ⟨hk, a, o, t, n, ha, hp, hs, ?_⟩
    intro i ρ hi hρ
    refine ⟨1, one_ne_zero, fun j hj => ?_⟩
    have := hg i (ρ ++ [j]) hi (hρ.append (by simpa using hj))
    simp only [Obj.construct, one_mul]
    rw [← this, List.append_assoc]

/-- **transport**: if every unit of a new object (primary and derived data alike) is a unit of
some object satisfying `Inv`, the new object satisfies `Inv`.  All structural operations
(copy, reshape, flatten, stack, combine, astype) are instances.  (Sources are only needed when
units are non-empty: `0 < t`, `0 < n`.) -/
theorem inv_transport (r : K → K) {kind : Kind} (hk : kind.auxNdims ≠ 0) {p' a' : ND K}
    {d : Option (ND K)} {o' : List ℕ} {t n : ℕ}
    (hp' : p'.shape = o' ++ [t, n]) (ha' : a'.shape = o' ++ auxRows kind t ++ [n])
    (src : 0 < t → 0 < n → ∀ i', Valid o' i' → ∃ (Y : Obj K) (a : ND K) (o i : List ℕ),
      Y.kind = kind ∧ Inv r Y ∧ Y.aux = some a ∧ Y.proj.shape = o ++ [t, n] ∧ Valid o i ∧
      (∀ y, Valid [t, n] y → p'.get (i' ++ y) = Y.proj.get (i ++ y)) ∧
      (∀ x, Valid (auxRows kind t ++ [n]) x → a'.get (i' ++ x) = a.get (i ++ x))) :
    Inv r ⟨kind, p', some a', d⟩ := by
  right
  refine ⟨hk, a', o', t, n, rfl, hp', ha', ?_⟩
  intro i' ρ hi' hρ
  by_cases hn : n = 0
  · exact ⟨1, one_ne_zero, fun j hj => by omega⟩
  have ht : 0 < t := by
    cases kind <;> simp only [auxRows] at hρ <;>
      (match ρ, hρ with
       | (v :: _), hρ => simp only [valid_cons_cons] at hρ; omega)
  obtain ⟨Y, a, o, i, hYk, hInv, hYa, hYp, hi, hpu, hau⟩ := src ht (Nat.pos_of_ne_zero hn) i' hi'
  rcases hInv with ⟨h0, _⟩ | ⟨_, a2, o2, t2, n2, ha2, hp2, hs2, hg2⟩
  · rw [hYk] at h0; exact absurd h0 hk
  · rw [hYa] at ha2
    cases ha2
    -- the two decompositions of Y.proj.shape agree
    have hsh : o ++ [t, n] = o2 ++ [t2, n2] := by rw [← hYp, hp2]
    have hlen : o.length = o2.length := by
      have := congrArg List.length hsh; simp at this; omega
    have ho : o = o2 := List.append_inj_left hsh hlen
    have htn : [t, n] = [t2, n2] := List.append_inj_right hsh hlen
    simp only [List.cons.injEq, and_true] at htn
    obtain ⟨rfl, rfl⟩ := htn
    subst ho
    rw [hYk] at hg2
    obtain ⟨c, hc, hcg⟩ := hg2 i ρ hi hρ
    refine ⟨c, hc, fun j hj => ?_⟩
    have hx : Valid (auxRows kind t ++ [n]) (ρ ++ [j]) := hρ.append (by simpa using hj)
    rw [List.append_assoc, hau _ hx, ← List.append_assoc, hcg j hj]
    congr 1
    exact (auxEntry_congr r kind (fun y hy => hpu y hy) hx).symm

/-- any object whose derived data is `computeAux` of its primary data -/
theorem inv_of_computeAux (r : K → K) (kind : Kind) (p : ND K) (d : Option (ND K)) {o : List ℕ} {t n : ℕ}
    (hp : p.shape = o ++ [t, n]) : Inv r ⟨kind, p, computeAux r kind p, d⟩ := by
  have := inv_of_construct r kind p hp
  simpa [Inv, Obj.construct] using this

theorem inv_noaux (r : K → K) {kind : Kind} (hk : kind.auxNdims = 0) (p : ND K) (d : Option (ND K)) :
    Inv r ⟨kind, p, none, d⟩ := Or.inl ⟨hk, rfl⟩

theorem unitNdims_of_aux {kind : Kind} (hk : kind.auxNdims ≠ 0) : kind.unitNdims = 2 := by
  cases kind <;> simp_all [Kind.auxNdims, Kind.unitNdims]

theorem auxNdims_eq {kind : Kind} (hk : kind.auxNdims ≠ 0) (t : ℕ) :
    kind.auxNdims = (auxRows kind t).length + 1 := by
  cases kind <;> simp_all [Kind.auxNdims, auxRows]

theorem reshape_eq_ok {a b : ND K} {s : List ℕ} (h : a.reshape s = .ok b) :
    sz s = sz a.shape ∧ b = ⟨s, a.data⟩ := by
  unfold ND.reshape at h
  split at h
  · rename_i hs; cases h; exact ⟨hs, rfl⟩
  · cases h

/-! ### structural steps -/

theorem inv_step_copy (r : K → K) {X Y : Obj K} (hX : Inv r X) (h : X.step r .copy = .ok Y) : Inv r Y := by
  simp only [Obj.step] at h; cases h; exact hX

theorem inv_step_astype (r : K → K) {X Y : Obj K} (hX : Inv r X) (h : X.step r .astype = .ok Y) : Inv r Y := by
  simp only [Obj.step] at h; cases h; exact hX

theorem sz_pos_cancel {a b c : ℕ} (hc : 0 < c) (h : a * c = b * c) : a = b :=
  Nat.eq_of_mul_eq_mul_right hc h

theorem inv_step_reshape (r : K → K) {X Y : Obj K} {s : List ℕ} (hX : Inv r X)
    (h : X.step r (.reshape s) = .ok Y) : Inv r Y := by
  simp only [Obj.step] at h
  rcases hX with ⟨h0, haux⟩ | ⟨hk, a, o, t, n, ha, hp, hs, hg⟩
  · rw [haux] at h
    simp only [optMapE] at h
    split at h
    · cases h
    · cases h; exact inv_noaux r h0 _ _
  · rw [ha] at h
    simp only [optMapE] at h
    split at h
    · cases h
    · rename_i p hpr
      split at h
      · cases h
      · rename_i a'' har
        cases h
        cases hr : a.reshape (s ++ a.shape.drop (a.shape.length - X.kind.auxNdims)) with
        | error e => rw [hr] at har; simp [Except.map] at har
        | ok a' =>
          rw [hr] at har
          simp only [Except.map, Except.ok.injEq] at har
          subst har
          obtain ⟨hsz, hpe⟩ := reshape_eq_ok hpr
          obtain ⟨hsza, hae⟩ := reshape_eq_ok hr
          have hdp : X.proj.shape.drop (X.proj.shape.length - X.kind.unitNdims) = [t, n] := by
            rw [unitNdims_of_aux hk, hp]; simp
          have hda : a.shape.drop (a.shape.length - X.kind.auxNdims) = auxRows X.kind t ++ [n] := by
            rw [auxNdims_eq hk t, hs]
            have : (o ++ auxRows X.kind t ++ [n]).length - ((auxRows X.kind t).length + 1) = o.length := by
              simp
            rw [this, List.append_assoc]; exact List.drop_left' rfl
          rw [hdp] at hsz hpe
          rw [hda] at hae
          subst hpe hae
          refine inv_transport r hk (o' := s) (t := t) (n := n) rfl (by simp) ?_
          intro ht hn i' hi'
          have hso : sz s = sz o := by
            rw [hp, sz_append, sz_append] at hsz
            refine sz_pos_cancel (c := sz [t, n]) ?_ hsz
            simp [sz_cons, sz_nil]; exact ⟨ht, hn⟩
          have hk' : flatIx s i' < sz o := hso ▸ flatIx_lt hi'
          refine ⟨X, a, o, unravel o (flatIx s i'), rfl, Or.inr ⟨hk, a, o, t, n, ha, hp, hs, hg⟩, ha, hp,
            valid_unravel hk', ?_, ?_⟩
          · intro y hy
            exact get_reshape_outer X.proj hp (valid_unravel hk').length hi'.length hy
              (flatIx_unravel hk').symm
          · intro x hx
            have hs' : a.shape = o ++ (auxRows X.kind t ++ [n]) := by rw [hs]; simp
            have := get_reshape_outer a hs' (valid_unravel hk').length hi'.length hx
              (flatIx_unravel hk').symm
            simpa using this

theorem inv_step_flatten (r : K → K) {X Y : Obj K} (hX : Inv r X)
    (h : X.step r .flatten = .ok Y) : Inv r Y := by
  simp only [Obj.step, Except.ok.injEq] at h
  subst h
  rcases hX with ⟨h0, haux⟩ | ⟨hk, a, o, t, n, ha, hp, hs, hg⟩
  · rw [haux]; exact inv_noaux r h0 _ _
  · rw [ha]
    simp only [Option.map_some]
    have hs' : a.shape = o ++ (auxRows X.kind t ++ [n]) := by rw [hs]; simp
    have e1 : X.proj.flattenOuter X.kind.unitNdims = ⟨[sz o] ++ [t, n], X.proj.data⟩ := by
      rw [unitNdims_of_aux hk]; simp [flattenOuter, hp]
    have e2 : a.flattenOuter X.kind.auxNdims = ⟨[sz o] ++ (auxRows X.kind t ++ [n]), a.data⟩ := by
      rw [auxNdims_eq hk t]
      have : (auxRows X.kind t).length + 1 = (auxRows X.kind t ++ [n]).length := by simp
      rw [this]
      simp [flattenOuter, hs']
    rw [e1, e2]
    refine inv_transport r hk (o' := [sz o]) (t := t) (n := n) rfl (by simp) ?_
    intro ht hn i' hi'
    match i', hi' with
    | [k], hi' =>
      have hk' : k < sz o := by simpa using hi'
      refine ⟨X, a, o, unravel o k, rfl, Or.inr ⟨hk, a, o, t, n, ha, hp, hs, hg⟩, ha, hp,
        valid_unravel hk', ?_, ?_⟩
      · intro y hy
        exact get_reshape_outer X.proj (o' := [sz o]) (i' := [k]) hp (valid_unravel hk').length rfl hy
          (by simp [flatIx, sz_nil, flatIx_unravel hk'])
      · intro x hx
        exact get_reshape_outer a (o' := [sz o]) (i' := [k]) hs' (valid_unravel hk').length rfl hx
          (by simp [flatIx, sz_nil, flatIx_unravel hk'])

theorem inv_step_index (r : K → K) {X Y : Obj K} {k : ℕ} (hX : Inv r X)
    (h : X.step r (.index k) = .ok Y) : Inv r Y := by
  simp only [Obj.step] at h
  split at h
  · rename_i hc
    cases h
    rcases hX with ⟨h0, haux⟩ | ⟨hk, a, o, t, n, ha, hp, hs, hg⟩
    · exact Or.inl ⟨h0, computeAux_none r h0 _⟩
    · rw [unitNdims_of_aux hk, hp] at hc
      match o, hp, hc with
      | d :: o1, hp, hc =>
        apply inv_of_construct r X.kind _ (o := o1) (t := t) (n := n)
        simp [ND.sub, hp]
  · cases h

theorem inv_step_setItem (r : K → K) {X Y : Obj K} {k : ℕ} {v : ND K} (hX : Inv r X)
    (h : X.step r (.setItem k v) = .ok Y) : Inv r Y := by
  simp only [Obj.step] at h
  split at h
  · cases h
    rcases hX with ⟨h0, haux⟩ | ⟨hk, a, o, t, n, ha, hp, hs, hg⟩
    · simp only [computeAux_none r h0]; exact inv_noaux r h0 _ _
    · exact inv_of_computeAux r X.kind _ _ (o := o) (t := t) (n := n) (by simp [ND.setSub, hp])
  · cases h

/-! ### apply -/

theorem matrixProduct_22_mismatch (a1 a2 : ND K) {o : List ℕ} {p n n' m : ℕ}
    (h1 : a1.shape = o ++ [p, n]) (h2 : a2.shape = [n', m]) (hne : n ≠ n') :
    matrixProduct a1 a2 2 2 .elementwise = .error "ValueError" := by
  have h2' : a2.shape = [] ++ [n', m] := by simpa using h2
  unfold matrixProduct
  simp only [expandUnitAxes_of_le _ (le_refl 2), pairExpand, matmul, h1, h2', splitLast2_append,
    ne_eq, hne, not_false_eq_true, if_true]

/-- derived data is equivariant, entry by entry -/
theorem auxEntry_equivariant (r : K → K) (kind : Kind) {t n : ℕ} (M : Matrix (Fin n) (Fin n) K)
    (hM : kind = .segment ∨ kind = .tangent → IsIso (minkJ n) M) {accX accY : List ℕ → K}
    (hacc : ∀ a b (_ : a < t) (hb : b < n), accY [a, b] = ∑ j : Fin n, accX [a, j.1] * M j ⟨b, hb⟩)
    {ρ : List ℕ} (hρ : Valid (auxRows kind t) ρ) {c : ℕ} (hc : c < n) :
    auxEntry r kind [t, n] accY (ρ ++ [c]) =
      ∑ j : Fin n, auxEntry r kind [t, n] accX (ρ ++ [j.1]) * M j ⟨c, hc⟩ := by
  cases kind
  case polygon =>
    simp only [auxRows] at hρ
    match ρ, hρ with
    | [v, e], hρ =>
      simp only [valid_cons_cons] at hρ
      simp only [List.cons_append, List.nil_append, auxEntry]
      exact hacc _ _ (Nat.mod_lt _ (by omega)) hc
  case segment =>
    simp only [auxRows] at hρ
    match ρ, hρ with
    | [e], hρ =>
      simp only [valid_cons_cons, valid_nil_nil, and_true] at hρ
      by_cases ht : t = 2
      · subst ht
        have hMY : (Matrix.of fun (a : Fin 2) (b : Fin n) => accY [a.1, b.1]) =
            actMat M (Matrix.of fun a b => accX [a.1, b.1]) := by
          ext a b
          simp only [Matrix.of_apply, actMat, Matrix.mul_apply]
          rw [hacc a.1 b.1 a.2 b.2]
        have hI := hM (Or.inl rfl)
        simp only [List.cons_append, List.nil_append, auxEntry, hρ, hc, and_self, dite_true, hMY]
        rw [segmentIdeal_equivariant' hI]
        simp only [actMat, Matrix.mul_apply]
        apply Finset.sum_congr rfl
        intro j _
        simp [j.2]
      · match t, ht with
        | 0, _ => simp [auxEntry]
        | 1, _ => simp [auxEntry]
        | (k + 3), _ => simp [auxEntry]
  case tangent =>
    simp only [auxRows] at hρ
    match ρ, hρ with
    | [e], hρ =>
      simp only [valid_cons_cons, valid_nil_nil, and_true] at hρ
      by_cases ht : t = 2
      · subst ht
        have hMY : (Matrix.of fun (a : Fin 2) (b : Fin n) => accY [a.1, b.1]) =
            actMat M (Matrix.of fun a b => accX [a.1, b.1]) := by
          ext a b
          simp only [Matrix.of_apply, actMat, Matrix.mul_apply]
          rw [hacc a.1 b.1 a.2 b.2]
        have hI := hM (Or.inr rfl)
        simp only [List.cons_append, List.nil_append, auxEntry, hρ, hc, and_self, dite_true, hMY]
        rw [tangentProj_equivariant' hI]
        simp only [actMat, Matrix.mul_apply]
        apply Finset.sum_congr rfl
        intro j _
        simp [j.2]
      · match t, ht with
        | 0, _ => simp [auxEntry]
        | 1, _ => simp [auxEntry]
        | (k + 3), _ => simp [auxEntry]
  all_goals
    simp only [auxRows] at hρ
    match ρ, hρ with
    | [e], hρ => simp [auxEntry]

theorem mp22_single (a A : ND K) {o : List ℕ} {t n : ℕ} (hs : a.shape = o ++ [t, n])
    (hA : A.shape = [n, n]) :
    ∃ c, matrixProduct a A 2 2 .elementwise = .ok c ∧ c.shape = o ++ [t, n] ∧
      ∀ i e j, Valid o i → e < t → j < n →
        c.get (i ++ [e, j]) = ∑ j' : Fin n, a.get (i ++ [e, j'.1]) * A.get [j'.1, j] := by
  obtain ⟨c, hc, hsh, hg⟩ := mp22 .elementwise a A (o2 := []) hs (by simpa using hA) (bcastShape_nil_right o)
  refine ⟨c, hc, hsh, fun i e j hi he hj => ?_⟩
  rw [hg i e j hi he hj, sum_map_range]
  simp [unitIx1, unitIx2, bcIx_self hi]

theorem mp32_single (a A : ND K) {o : List ℕ} {t p n : ℕ} (hs : a.shape = o ++ [t, p, n])
    (hA : A.shape = [n, n]) :
    ∃ c, matrixProduct a A 3 2 .elementwise = .ok c ∧ c.shape = o ++ [t, p, n] ∧
      ∀ i v e j, Valid o i → v < t → e < p → j < n →
        c.get (i ++ [v, e, j]) = ∑ j' : Fin n, a.get (i ++ [v, e, j'.1]) * A.get [j'.1, j] := by
  obtain ⟨c, hc, hsh, hg⟩ := mp32 .elementwise a A (o2 := []) hs (by simpa using hA) (bcastShape_nil_right o)
  refine ⟨c, hc, hsh, fun i v e j hi hv he hj => ?_⟩
  rw [hg i v e j hi hv he hj, sum_map_range]
  simp [unitIx1, unitIx2, bcIx_self hi]

/-- the derived-data block of `apply`, uniformly over the three classes that have one -/
theorem aux_product_get {kind : Kind} (hk : kind.auxNdims ≠ 0) (a A : ND K) {o : List ℕ} {t n : ℕ}
    (hs : a.shape = o ++ auxRows kind t ++ [n]) (hA : A.shape = [n, n]) :
    ∃ a', matrixProduct a A kind.auxNdims 2 .elementwise = .ok a' ∧
      a'.shape = o ++ auxRows kind t ++ [n] ∧
      ∀ i ρ j, Valid o i → Valid (auxRows kind t) ρ → j < n →
        a'.get (i ++ ρ ++ [j]) = ∑ j' : Fin n, a.get (i ++ ρ ++ [j'.1]) * A.get [j'.1, j] := by
  cases kind
  case polygon =>
    have hs' : a.shape = o ++ [t, 2, n] := by simpa [auxRows] using hs
    obtain ⟨c, hc, hsh, hg⟩ := mp32_single a A hs' hA
    refine ⟨c, hc, by simpa [auxRows] using hsh, ?_⟩
    intro i ρ j hi hρ hj
    simp only [auxRows] at hρ
    match ρ, hρ with
    | [v, e], hρ =>
      simp only [valid_cons_cons, valid_nil_nil, and_true] at hρ
      have := hg i v e j hi hρ.1 hρ.2 hj
      simpa using this
  case segment =>
    have hs' : a.shape = o ++ [t, n] := by simpa [auxRows] using hs
    obtain ⟨c, hc, hsh, hg⟩ := mp22_single a A hs' hA
    refine ⟨c, hc, by simpa [auxRows] using hsh, ?_⟩
    intro i ρ j hi hρ hj
    simp only [auxRows] at hρ
    match ρ, hρ with
    | [e], hρ =>
      simp only [valid_cons_cons, valid_nil_nil, and_true] at hρ
      have := hg i e j hi hρ hj
      simpa using this
  case tangent =>
    have hs' : a.shape = o ++ [t, n] := by simpa [auxRows] using hs
    obtain ⟨c, hc, hsh, hg⟩ := mp22_single a A hs' hA
    refine ⟨c, hc, by simpa [auxRows] using hsh, ?_⟩
    intro i ρ j hi hρ hj
    simp only [auxRows] at hρ
    match ρ, hρ with
    | [e], hρ =>
      simp only [valid_cons_cons, valid_nil_nil, and_true] at hρ
      have := hg i e j hi hρ hj
      simpa using this
  all_goals simp [Kind.auxNdims] at hk

theorem apply_ok_parts {X Y : Obj K} {A AinvT : ND K} {mode : Bcast}
    (h : X.apply A AinvT mode = .ok Y) :
    Y.kind = X.kind ∧ matrixProduct X.proj A X.kind.unitNdims 2 mode = .ok Y.proj ∧
    (X.aux = none → Y.aux = none) ∧
    (∀ a, X.aux = some a → ∃ a', matrixProduct a A X.kind.auxNdims 2 mode = .ok a' ∧ Y.aux = some a') := by
  unfold Obj.apply at h
  split at h
  · cases h
  · rename_i p hp
    split at h
    · cases h
    · rename_i a' ha'
      split at h
      · cases h
      · rename_i d' hd'
        cases h
        refine ⟨rfl, hp, ?_, ?_⟩
        · intro hn; rw [hn] at ha'; simpa using ha'.symm
        · intro a hsome
          rw [hsome] at ha'
          simp only at ha'
          cases hm : matrixProduct a A X.kind.auxNdims 2 mode with
          | error e => rw [hm] at ha'; simp [Except.map] at ha'
          | ok a'' => rw [hm] at ha'; simp [Except.map] at ha'; exact ⟨a'', rfl, ha'.symm⟩

theorem inv_step_apply (r : K → K) {X Y : Obj K} {A AinvT : ND K} (hX : Inv r X)
    (hA : OpOk r X.kind (.apply A AinvT)) (h : X.step r (.apply A AinvT) = .ok Y) : Inv r Y := by
  simp only [Obj.step] at h
  obtain ⟨hYk, hYp, hYnone, hYsome⟩ := apply_ok_parts h
  obtain ⟨nA, hAs, hIso⟩ := hA
  rcases hX with ⟨h0, haux⟩ | ⟨hk, a, o, t, n, ha, hp, hs, hg⟩
  · left; rw [hYk]; exact ⟨h0, hYnone haux⟩
  · rw [unitNdims_of_aux hk] at hYp
    by_cases hn : n = nA
    · subst hn
      obtain ⟨c, hc, hcs, hcg⟩ := mp22_single X.proj A hp hAs
      rw [hc] at hYp
      cases hYp
      obtain ⟨a', ha'p, ha'⟩ := hYsome a ha
      obtain ⟨a2, ha2, ha2s, ha2g⟩ := aux_product_get hk a A hs hAs
      rw [ha2] at ha'p
      cases ha'p
      right
      refine ⟨by rw [hYk]; exact hk, a', o, t, n, ha', hcs, by rw [hYk]; exact ha2s, ?_⟩
      intro i ρ hi hρ
      rw [hYk] at hρ ⊢
      obtain ⟨cc, hcc, hccg⟩ := hg i ρ hi hρ
      refine ⟨cc, hcc, fun j hj => ?_⟩
      rw [ha2g i ρ j hi hρ hj]
      have hEq := auxEntry_equivariant r X.kind (t := t) (matAt A n n []) hIso
        (accX := fun y => X.proj.get (i ++ y)) (accY := fun y => Y.proj.get (i ++ y))
        (by
          intro e b he hb
          rw [hcg i e b hi he hb]
          simp [matAt]) hρ hj
      rw [hEq, Finset.mul_sum]
      apply Finset.sum_congr rfl
      intro j' _
      rw [hccg j'.1 j'.2]
      simp [matAt, mul_assoc]
    · rw [matrixProduct_22_mismatch X.proj A hp hAs hn] at hYp
      cases hYp

/-! ### stack -/

theorem stack0_ok_shapes {a c : ND K} {rest : List (ND K)} (h : ND.stack (a :: rest) 0 = .ok c) :
    ∀ b ∈ rest, b.shape = a.shape := by
  simp only [ND.stack] at h
  split at h
  · rename_i hall
    simpa [List.all_eq_true] using hall
  · cases h

theorem allSome_spec {α : Type} {l : List (Option α)} {as : List α} (h : allSome l = some as) :
    l = as.map some := by
  induction l generalizing as with
  | nil => simp [allSome] at h; subst h; rfl
  | cons x l ih =>
    cases x with
    | none => simp [allSome] at h
    | some a =>
      simp only [allSome, Option.map_eq_some_iff] at h
      obtain ⟨as', h', rfl⟩ := h
      simp [ih h']

/-- same primary shape ⇒ same decomposition -/
theorem shape_decomp_unique {o o2 : List ℕ} {t n t2 n2 : ℕ} (h : o ++ [t, n] = o2 ++ [t2, n2]) :
    o = o2 ∧ t = t2 ∧ n = n2 := by
  have hlen : o.length = o2.length := by
    have := congrArg List.length h; simp at this; omega
  have ho : o = o2 := List.append_inj_left h hlen
  have htn : [t, n] = [t2, n2] := List.append_inj_right h hlen
  simp only [List.cons.injEq, and_true] at htn
  exact ⟨ho, htn.1, htn.2⟩

theorem inv_step_stack (r : K → K) {X Y : Obj K} {others : List (Obj K)} (hX : Inv r X)
    (hO : OpOk r X.kind (.stack others)) (h : X.step r (.stack others) = .ok Y) : Inv r Y := by
  simp only [Obj.step] at h
  split at h
  · cases h
  · rename_i p hp
    have hps : ((X :: others).map (·.proj)) = X.proj :: others.map (·.proj) := rfl
    rw [hps] at hp
    have hshapes := stack0_ok_shapes hp
    obtain ⟨c, hc, hcs, hcg⟩ := stack0_spec X.proj (others.map (·.proj)) hshapes
    rw [hc] at hp
    cases hp
    rcases hX with ⟨h0, haux⟩ | ⟨hk, a, o, t, n, ha, hpX, hs, hg⟩
    · -- no derived data
      split at h
      · cases h; simp only [computeAux_none r h0]; exact inv_noaux r h0 _ _
      · rename_i as has
        have := allSome_spec has
        simp [haux] at this
        cases as <;> simp at this
    · have hpc : p.shape = ((others.length + 1) :: o) ++ [t, n] := by rw [hcs, hpX]; simp
      split at h
      · cases h
        exact inv_of_computeAux r X.kind _ _ hpc
      · rename_i as has
        have hmap := allSome_spec has
        split at h
        · cases h
        · rename_i a' ha'
          cases h
          -- the auxiliary arrays of all items
          match as, hmap with
          | [], hmap => simp at hmap
          | a0 :: as', hmap =>
            simp only [List.map_cons, List.cons.injEq] at hmap
            obtain ⟨hXa, hrest⟩ := hmap
            rw [ha] at hXa
            cases hXa
            have hashapes := stack0_ok_shapes ha'
            obtain ⟨c2, hc2, hc2s, hc2g⟩ := stack0_spec a as' hashapes
            rw [hc2] at ha'
            cases ha'
            have hlen : as'.length = others.length := by
              have := congrArg List.length hrest; simpa using this.symm
            refine inv_transport r hk (o' := (others.length + 1) :: o) (t := t) (n := n) hpc
              (by rw [hc2s, hs, hlen]; simp) ?_
            intro ht hn i' hi'
            match i', hi' with
            | k :: i, hi' =>
              simp only [valid_cons_cons] at hi'
              obtain ⟨hk', hi⟩ := hi'
              -- the k-th item
              have hYmem : (X :: others).getD k X ∈ X :: others := by
                rw [List.getD_eq_getElem?_getD, List.getElem?_eq_getElem (by simpa using hk')]
                simp only [Option.getD_some]
                exact List.getElem_mem _
              have hYinv : ((X :: others).getD k X).kind = X.kind ∧ Inv r ((X :: others).getD k X) := by
                rcases List.mem_cons.1 hYmem with heq | hmem
                · rw [heq]; exact ⟨rfl, Or.inr ⟨hk, a, o, t, n, ha, hpX, hs, hg⟩⟩
                · exact hO _ hmem
              have hYproj : ((X :: others).getD k X).proj = (X.proj :: others.map (·.proj)).getD k X.proj := by
                have : X.proj :: others.map (·.proj) = (X :: others).map (·.proj) := rfl
                rw [this]
                simp only [List.getD_eq_getElem?_getD, List.getElem?_map]
                rw [List.getElem?_eq_getElem (by simpa using hk')]
                simp
              have hYaux : ((X :: others).getD k X).aux = some ((a :: as').getD k a) := by
                have hfull : (X :: others).map (·.aux) = (a :: as').map some := by
                  simp only [List.map_cons, ha, hrest]
                have h1 : ((X :: others).map (·.aux))[k]? = ((a :: as').map some)[k]? := by rw [hfull]
                simp only [List.getElem?_map] at h1
                rw [List.getElem?_eq_getElem (by simpa using hk'),
                  List.getElem?_eq_getElem (by simp [hlen]; omega)] at h1
                simp only [Option.map_some, Option.some.injEq] at h1
                simp only [List.getD_eq_getElem?_getD]
                rw [List.getElem?_eq_getElem (by simpa using hk'),
                  List.getElem?_eq_getElem (by simp [hlen]; omega)]
                simpa using h1
              have hYshape : ((X :: others).getD k X).proj.shape = o ++ [t, n] := by
                rw [hYproj]
                rcases Nat.eq_zero_or_pos k with rfl | hkpos
                · simpa using hpX
                · have hm : (X.proj :: others.map (·.proj)).getD k X.proj ∈ others.map (·.proj) := by
                    obtain ⟨k', rfl⟩ := Nat.exists_eq_succ_of_ne_zero (by omega : k ≠ 0)
                    simp only [List.getD_cons_succ, List.getD_eq_getElem?_getD]
                    rw [List.getElem?_eq_getElem (by simp; omega)]
                    simp only [Option.getD_some]
                    exact List.getElem_mem _
                  rw [hshapes _ hm, hpX]
              refine ⟨(X :: others).getD k X, (a :: as').getD k a, o, i, hYinv.1, hYinv.2, hYaux, hYshape,
                hi, ?_, ?_⟩
              · intro y hy
                have := hcg k (i ++ y) (by simpa using hk') (by rw [hpX]; exact hi.append hy)
                rw [hYproj]
                simpa using this
              · intro x hx
                have := hc2g k (i ++ x) (by rw [hlen]; exact hk') (by rw [hs, List.append_assoc]; exact hi.append hx)
                simpa using this

/-! ### combine = flatten every item, then concatenate along the unit-list axis -/

/-- the result of `flatten_to_unit` -/
def flatObj (Y : Obj K) : Obj K :=
  ⟨Y.kind, Y.proj.flattenOuter Y.kind.unitNdims, Y.aux.map (·.flattenOuter Y.kind.auxNdims), Y.dual⟩

theorem inv_flatObj (r : K → K) {Y : Obj K} (h : Inv r Y) : Inv r (flatObj Y) :=
  inv_step_flatten r h (by simp only [Obj.step, flatObj])

theorem flatObj_facts (r : K → K) {Y : Obj K} (hk : Y.kind.auxNdims ≠ 0) (h : Inv r Y) :
    ∃ a0 d t n, Y.aux = some a0 ∧
      (flatObj Y).aux = some (a0.flattenOuter Y.kind.auxNdims) ∧
      (flatObj Y).proj.shape = [d, t, n] ∧
      (a0.flattenOuter Y.kind.auxNdims).shape = [d] ++ auxRows Y.kind t ++ [n] := by
  rcases h with ⟨h0, _⟩ | ⟨_, a, o, t, n, ha, hp, hs, _⟩
  · exact absurd h0 hk
  · refine ⟨a, sz o, t, n, ha, by simp [flatObj, ha], ?_, ?_⟩
    · have := shape_flattenOuter Y.proj (u := [t, n]) hp
      simpa [flatObj, unitNdims_of_aux hk] using this
    · have hs' : a.shape = o ++ (auxRows Y.kind t ++ [n]) := by rw [hs]; simp
      have := shape_flattenOuter a hs'
      rw [auxNdims_eq hk t]
      simpa using this

theorem getD_map_cons {α β : Type} (f : α → β) (x : α) (l : List α) {k : ℕ} (hk : k < l.length + 1) :
    ((x :: l).map f).getD k (f x) = f ((x :: l).getD k x) := by
  simp only [List.getD_eq_getElem?_getD, List.getElem?_map]
  rw [List.getElem?_eq_getElem (by simpa using hk)]
  simp

theorem getD_mem_cons {α : Type} (x : α) (l : List α) {k : ℕ} (hk : k < l.length + 1) :
    (x :: l).getD k x ∈ x :: l := by
  rw [List.getD_eq_getElem?_getD, List.getElem?_eq_getElem (by simpa using hk)]
  simp only [Option.getD_some]
  exact List.getElem_mem _

theorem inv_step_combine (r : K → K) {X Y : Obj K} {others : List (Obj K)} (hX : Inv r X)
    (hO : OpOk r X.kind (.combine others)) (h : X.step r (.combine others) = .ok Y) : Inv r Y := by
  simp only [Obj.step] at h
  split at h
  · cases h
  · rename_i p hp
    by_cases hk : X.kind.auxNdims = 0
    · simp only [hk, if_true] at h; cases h; exact inv_noaux r hk _ _
    · simp only [hk, if_false] at h
      split at h
      · cases h
      · rename_i as has
        split at h
        · cases h
        · rename_i a' ha'
          cases h
          have hall : ∀ Z ∈ X :: others, Z.kind = X.kind ∧ Inv r Z := by
            intro Z hZ
            rcases List.mem_cons.1 hZ with rfl | hm
            · exact ⟨rfl, hX⟩
            · exact hO _ hm
          have hmap := allSome_spec has
          -- the list of flattened auxiliary arrays as a map over the items
          let g : Obj K → ND K := fun Z => (Z.aux.getD X.proj).flattenOuter X.kind.auxNdims
          have has' : as = (X :: others).map (fun Z => Z.aux.getD X.proj) := by
            have := congrArg (List.map (fun (x : Option (ND K)) => x.getD X.proj)) hmap
            simp only [List.map_map, Function.comp_def, Option.getD_some, List.map_id'] at this
            exact this.symm
          have hAL : as.map (fun a => a.flattenOuter X.kind.auxNdims) = (X :: others).map g := by
            rw [has']; simp [g, List.map_map, Function.comp_def]
          rw [hAL] at ha'
          have hgZ : ∀ Z ∈ X :: others, (flatObj Z).aux = some (g Z) ∧
              ∃ d t n, (flatObj Z).proj.shape = [d, t, n] ∧ (g Z).shape = [d] ++ auxRows X.kind t ++ [n] := by
            intro Z hZ
            obtain ⟨hZk, hZinv⟩ := hall Z hZ
            obtain ⟨a0, d, t, n, hZa, hfa, hfp, hfs⟩ := flatObj_facts r (by rw [hZk]; exact hk) hZinv
            rw [hZk] at hfa hfs
            refine ⟨by rw [hfa]; simp [g, hZa], d, t, n, hfp, by simpa [g, hZa] using hfs⟩
          obtain ⟨hgX, d0, t, n, hXp, hXs⟩ := hgZ X (by simp)
          -- projective blocks
          have hPL : (X :: others).map (fun Z => Z.proj.flattenOuter Z.kind.unitNdims) =
              (flatObj X).proj :: others.map (fun Z => (flatObj Z).proj) := rfl
          rw [hPL] at hp
          obtain ⟨_, hPsh⟩ := concat0_ok_shapes hp
          have hPtail : ∀ b ∈ (flatObj X).proj :: others.map (fun Z => (flatObj Z).proj), ∃ d, b.shape = d :: [t, n] := by
            intro b hb
            rcases List.mem_cons.1 hb with rfl | hm
            · exact ⟨d0, hXp⟩
            · obtain ⟨h1, h2⟩ := hPsh b hm
              rw [hXp] at h1 h2
              match hb' : b.shape, h1, h2 with
              | [x, y, z], h1, h2 => simp at h1; exact ⟨x, by simp [h1.1, h1.2]⟩
          obtain ⟨cp, hcp, hcps, hcpg⟩ := concat0_spec _ _ hPtail
          rw [hcp] at hp
          cases hp
          -- auxiliary blocks
          have hALc : (X :: others).map g = g X :: others.map g := rfl
          rw [hALc] at ha'
          obtain ⟨_, hAsh⟩ := concat0_ok_shapes ha'
          have hAtail : ∀ b ∈ g X :: others.map g, ∃ d, b.shape = d :: (auxRows X.kind t ++ [n]) := by
            intro b hb
            rcases List.mem_cons.1 hb with rfl | hm
            · exact ⟨d0, by simpa using hXs⟩
            · obtain ⟨h1, h2⟩ := hAsh b hm
              rw [hXs] at h1 h2
              match hb' : b.shape, h1, h2 with
              | x :: rest, h1, h2 => simp at h1; exact ⟨x, by simp [h1]⟩
              | [], h1, h2 => simp at h2
          obtain ⟨ca, hca, hcas, hcag⟩ := concat0_spec _ _ hAtail
          rw [hca] at ha'
          cases ha'
          -- the block lengths agree
          have hlens : ((g X :: others.map g).map fun b => b.shape.headD 0) =
              (((flatObj X).proj :: others.map (fun Z => (flatObj Z).proj)).map fun b => b.shape.headD 0) := by
            have e1 : (g X :: others.map g) = (X :: others).map g := rfl
            have e2 : ((flatObj X).proj :: others.map (fun Z => (flatObj Z).proj)) =
                (X :: others).map (fun Z => (flatObj Z).proj) := rfl
            rw [e1, e2, List.map_map, List.map_map]
            apply List.map_congr_left
            intro Z hZ
            obtain ⟨_, d, t', n', h1, h2⟩ := hgZ Z hZ
            simp [h1, h2]
          refine inv_transport r hk (o' := [(((flatObj X).proj :: others.map (fun Z => (flatObj Z).proj)).map
              fun b => b.shape.headD 0).sum]) (t := t) (n := n) (by rw [hcps]; rfl)
            (by rw [hcas, hlens]; simp) ?_
          intro ht hn i' hi'
          match i', hi' with
          | [m], hi' =>
            simp only [valid_cons_cons, valid_nil_nil, and_true] at hi'
            set lens := (((flatObj X).proj :: others.map (fun Z => (flatObj Z).proj)).map
              fun b => b.shape.headD 0) with hlensdef
            obtain ⟨hk1, hk2, hk3⟩ := locate_spec lens hi'
            set k := (locate lens m).1
            set j := (locate lens m).2
            have hklt : k < others.length + 1 := by simpa [lens] using hk1
            have hZmem := getD_mem_cons X others hklt
            set Z := (X :: others).getD k X with hZdef
            obtain ⟨hZk, hZinv⟩ := hall Z hZmem
            obtain ⟨hZaux, dz, tz, nz, hZp, hZs⟩ := hgZ Z hZmem
            have hPk : ((flatObj X).proj :: others.map (fun Z => (flatObj Z).proj)).getD k (flatObj X).proj =
                (flatObj Z).proj := getD_map_cons (fun Z => (flatObj Z).proj) X others hklt
            have hAk : (g X :: others.map g).getD k (g X) = g Z := getD_map_cons g X others hklt
            -- tails agree with X's
            obtain ⟨dz', hdz'⟩ := hPtail (flatObj Z).proj (by
              have := List.mem_map_of_mem (f := fun Z => (flatObj Z).proj) hZmem
              simpa using this)
            rw [hZp] at hdz'
            simp only [List.cons.injEq, and_true] at hdz'
            obtain ⟨rfl, rfl, rfl⟩ := hdz'
            have hjlt : j < dz := by
              have : lens.getD k 0 = dz := by
                simp only [lens, List.getD_eq_getElem?_getD, List.getElem?_map]
                have hk'' : k < ((flatObj X).proj :: others.map (fun Z => (flatObj Z).proj)).length := by
                  simpa using hklt
                rw [List.getElem?_eq_getElem hk'']
                have := hPk
                simp only [List.getD_eq_getElem?_getD, List.getElem?_eq_getElem hk'', Option.getD_some] at this
                simp [this, hZp]
              rw [this] at hk2; exact hk2
            refine ⟨flatObj Z, g Z, [dz], [j], hZk, inv_flatObj r hZinv, hZaux, by simpa using hZp,
              by simpa using hjlt, ?_, ?_⟩
            · intro y hy
              have := hcpg k j y (by simpa using hklt) (by rw [hPk, hZp]; simpa using hjlt) hy
              rw [hk3, hPk] at this
              simpa using this
            · intro x hx
              have := hcag k j x (by simpa using hklt) (by rw [hAk, hZs]; simpa using hjlt) hx
              rw [hlens, hk3, hAk] at this
              simpa using this

/-! ### every step keeps the class; all steps together; histories -/

theorem step_kind (r : K → K) {X Y : Obj K} {op : ObjOp K} (h : X.step r op = .ok Y) : Y.kind = X.kind := by
  cases op <;> simp only [Obj.step] at h
  case copy => cases h; rfl
  case astype => cases h; rfl
  case apply A AinvT => exact (apply_ok_parts h).1
  case reshape s =>
    split at h
    · cases h
    · split at h
      · cases h
      · cases h; rfl
  case flatten => cases h; rfl
  case index k => split at h <;> cases h; rfl
  case setItem k v => split at h <;> cases h; rfl
  case stack others =>
    split at h
    · cases h
    · split at h
      · cases h; rfl
      · split at h <;> cases h; rfl
  case combine others =>
    split at h
    · cases h
    · split at h
      · cases h; rfl
      · split at h
        · cases h
        · split at h <;> cases h; rfl

theorem inv_step_all (r : K → K) {X Y : Obj K} {op : ObjOp K} (hX : Inv r X) (hop : OpOk r X.kind op)
    (h : X.step r op = .ok Y) : Inv r Y := by
  cases op
  case copy => exact inv_step_copy r hX h
  case apply A AinvT => exact inv_step_apply r hX hop h
  case reshape s => exact inv_step_reshape r hX h
  case flatten => exact inv_step_flatten r hX h
  case index k => exact inv_step_index r hX h
  case setItem k v => exact inv_step_setItem r hX h
  case stack others => exact inv_step_stack r hX hop h
  case combine others => exact inv_step_combine r hX hop h
  case astype => exact inv_step_astype r hX h

theorem inv_run (r : K → K) {X Z : Obj K} {ops : List (ObjOp K)} (hX : Inv r X)
    (hops : ∀ op ∈ ops, OpOk r X.kind op) (h : X.run r ops = .ok Z) : Inv r Z ∧ Z.kind = X.kind := by
  induction ops generalizing X with
  | nil => simp only [Obj.run] at h; cases h; exact ⟨hX, rfl⟩
  | cons op ops ih =>
    simp only [Obj.run] at h
    split at h
    · cases h
    · rename_i Y hY
      have hk := step_kind r hY
      have hInvY := inv_step_all r hX (hops op (by simp)) hY
      obtain ⟨h1, h2⟩ := ih hInvY (fun op' hop' => by rw [hk]; exact hops op' (by simp [hop'])) h
      exact ⟨h1, by rw [h2, hk]⟩

/-! ### the literal numpy form of a polygon's edges -/

theorem computeAuxPolygonLit_spec (r : K → K) (p : ND K) {o : List ℕ} {t n : ℕ} (hp : p.shape = o ++ [t, n]) :
    ∃ a c, computeAuxPolygonLit p = .ok a ∧ computeAux r .polygon p = some c ∧ a.shape = c.shape ∧
      ∀ ix, Valid a.shape ix → a.get ix = c.get ix := by
  obtain ⟨c, hc, hcs, hcg⟩ := computeAux_spec r (kind := .polygon) (by simp [Kind.auxNdims]) p hp
  have hrank : p.rank = o.length + 2 := by simp [ND.rank, hp]
  have hroll : (p.rollBack 1 (p.rank - 2)).shape = p.shape := rfl
  unfold computeAuxPolygonLit
  simp only [ND.stack, List.all_cons, hroll, beq_self_eq_true, List.all_nil, Bool.and_self, if_true]
  refine ⟨_, c, rfl, hc, ?_, ?_⟩
  · rw [hcs, shape_ofFn, hp, hrank]
    have : o.length + 2 - 1 = (o ++ [t]).length := by simp
    rw [this]
    have e : o ++ [t, n] = (o ++ [t]) ++ [n] := by simp
    rw [e, insertIdx_length_append]
    simp [auxRows]
  · intro ix hix
    rw [shape_ofFn, hp, hrank] at hix
    have hl : o.length + 2 - 1 = (o ++ [t]).length := by simp
    have e : o ++ [t, n] = (o ++ [t]) ++ [n] := by simp
    rw [hl, e, insertIdx_length_append] at hix
    have hix' : Valid (o ++ [t, 2, n]) ix := by simpa using hix
    obtain ⟨i, x, rfl, hi, hx⟩ := hix'.split
    match x, hx with
    | [v, e', cc], hx =>
      simp only [valid_cons_cons, valid_nil_nil, and_true] at hx
      rw [hcg i [v, e', cc] hi (by simp [auxRows, hx])]
      rw [get_ofFn _ _ (by rw [hp, hrank, hl, e, insertIdx_length_append]; simpa using hi.append (by simp [hx] : Valid [t, 2, n] [v, e', cc]))]
      simp only [auxEntry]
      have hget : (i ++ [v, e', cc]).getD (p.rank - 1) 0 = e' := by
        rw [hrank]
        simp [List.getD_eq_getElem?_getD, List.getElem?_append_right, hi.length]
      have hera : (i ++ [v, e', cc]).eraseIdx (p.rank - 1) = i ++ [v, cc] := by
        rw [hrank]
        rw [List.eraseIdx_append_of_length_le (by simp [hi.length])]
        simp [hi.length]
      rw [hget, hera]
      have he' : e' = 0 ∨ e' = 1 := by omega
      rcases he' with rfl | rfl
      · simp only [List.getD_cons_zero, Nat.add_zero, Nat.mod_eq_of_lt hx.1]
      · simp only [List.getD_cons_succ, List.getD_cons_zero]
        rw [get_rollBack p 1 (p.rank - 2) (by rw [hp]; exact hi.append (by simp [hx]))]
        rw [hrank, hp]
        congr 1
        simp [hi.length, List.getD_eq_getElem?_getD, List.getElem?_append_right]

end GT.Act
