/-
The read accessors `has_edge` / `edge_labels` / `edge_label` (as repaired: they read with `.get` and
no longer write to the `defaultdict` behind the outgoing view).
-/
import GT.Lemmas.FSAViews

set_option linter.unusedSectionVars false
set_option linter.unusedSimpArgs false

namespace GT.FSA
variable {V L : Type} [DecidableEq V] [DecidableEq L]
open Dict

/-- `edge_labels(t, h)` on a vertex `t` returns exactly the labels of the edges `t → h` -/
theorem edgeLabels_spec {s : FSA V L} (hs : s.Coherent) {t : V} (ht : t ∈ s.out.keys) (h : V) :
    ∃ ls, s.edgeLabels t h = .ok ls ∧ ls.Nodup ∧ ∀ l, l ∈ ls ↔ s.step t l = some h := by
  obtain ⟨row, hrow⟩ := (mem_keys_iff _ _).1 ht
  refine ⟨(row.get? h).getD [], by simp [edgeLabels, Dict.get, hrow, bind, Except.bind, pure, Except.pure], ?_, ?_⟩
  · cases hg : row.get? h with
    | none => simp
    | some ls => simpa using hs.nodup t h ls (by rw [og_def, hrow]; exact hg)
  · intro l
    rw [hs.label t l h, og_def, hrow]
    cases hg : row.get? h with
    | none => simp [hg]
    | some x => simp [hg]

theorem hasEdge_spec {s : FSA V L} (hs : s.WF) {t : V} (ht : t ∈ s.out.keys) (h : V) :
    ∃ b, s.hasEdge t h = .ok b ∧ (b = true ↔ ∃ l, s.step t l = some h) := by
  obtain ⟨ls, e, -, hl⟩ := edgeLabels_spec hs.1 ht h
  refine ⟨decide (ls.length > 0), by simp [hasEdge, e, bind, Except.bind, pure, Except.pure], ?_⟩
  simp only [decide_eq_true_eq]
  constructor
  · intro hp
    obtain ⟨l, hm⟩ := List.exists_mem_of_length_pos hp
    exact ⟨l, (hl l).1 hm⟩
  · rintro ⟨l, hst⟩
    exact List.length_pos_of_mem ((hl l).2 hst)

end GT.FSA
