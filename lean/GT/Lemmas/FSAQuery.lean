/-
The read accessors `has_edge` / `edge_labels` / `edge_label` write to a `defaultdict`: on an
existing edge they change nothing, on a non-edge they leave an empty entry behind.
-/
import GT.Lemmas.FSAViews

set_option linter.unusedSectionVars false
set_option linter.unusedSimpArgs false

namespace GT.FSA
variable {V L : Type} [DecidableEq V] [DecidableEq L]
open Dict

/-- asked about an existing entry, the query returns its labels and leaves the automaton alone -/
theorem edgeLabels_of_entry {s : FSA V L} {t h : V} {ls : List L} (hog : s.og t h = some ls) :
    s.edgeLabels t h = .ok (s, ls) := by
  rw [og_def] at hog
  cases hrow : s.out.get? t with
  | none => simp [hrow] at hog
  | some row =>
    simp only [hrow, Option.bind_some] at hog
    simp [edgeLabels, Dict.get, hrow, hog, bind, Except.bind, pure, Except.pure]

theorem hasEdge_of_edge {s : FSA V L} (hs : s.WF) {t h : V} {l : L} (hst : s.step t l = some h) :
    s.hasEdge t h = .ok (s, true) := by
  obtain ⟨ls, hls, hl⟩ := (hs.1.label t l h).1 hst
  have : 0 < ls.length := List.length_pos_of_mem hl
  simp [hasEdge, edgeLabels_of_entry hls, bind, Except.bind, pure, Except.pure, this]

/-- asked about a pair of vertices that is not an edge, the query answers "no labels" but inserts
an empty entry into the outgoing view: the edge listings of the three views are unchanged, yet the
automaton is no longer free of empty entries -/
theorem edgeLabels_of_nonEdge {s : FSA V L} (hs : s.WF) {t h : V} (ht : t ∈ s.out.keys)
    (hno : ∀ l, s.step t l ≠ some h) :
    ∃ s', s.edgeLabels t h = .ok (s', []) ∧ s'.graph = s.graph ∧ s'.inn = s.inn ∧
      (∀ a b, s'.og a b = if a = t ∧ b = h then some [] else s.og a b) ∧ ¬ s'.NoEmpty := by
  obtain ⟨row, hrow⟩ := (mem_keys_iff _ _).1 ht
  have hnone : row.get? h = none := by
    cases hg : row.get? h with
    | none => rfl
    | some ls =>
      have hog : s.og t h = some ls := by rw [og_def, hrow]; exact hg
      obtain ⟨l, hl⟩ := List.exists_mem_of_ne_nil ls (hs.2 t h ls hog)
      exact absurd ((hs.1.label t l h).2 ⟨ls, hog, hl⟩) (hno l)
  have hog' : ∀ a b, FSA.og { s with out := s.out.set t (row.set h []) } a b =
      if a = t ∧ b = h then some [] else s.og a b := by
    intro a b
    simp only [og_def, get?_set]
    by_cases ha : a = t
    · subst ha
      simp only [if_true, Option.bind_some, get?_set, hrow, true_and]
    · simp [ha]
  refine ⟨{ s with out := s.out.set t (row.set h []) }, ?_, rfl, rfl, hog', ?_⟩
  · simp [edgeLabels, Dict.get, hrow, hnone, bind, Except.bind, pure, Except.pure]
  · intro hne
    exact hne t h [] (by rw [hog']; simp) rfl

end GT.FSA
