/-
Lemmas for `remove_long_paths`: soundness of the breadth-first loop (every kept edge is an edge
of the original automaton that goes from a level to the next one).
-/
import GT.Lemmas.FSADel

set_option linter.unusedSectionVars false
set_option linter.unusedSimpArgs false

namespace GT.FSA
variable {V L : Type} [DecidableEq V] [DecidableEq L]
open Dict

theorem get?_foldl_setConst {κ ν : Type} [DecidableEq κ] (xs : List κ) (c : ν) (m0 : Dict κ ν) (k : κ) :
    (xs.foldl (fun m w => Dict.set m w c) m0).get? k = if k ∈ xs then some c else m0.get? k := by
  induction xs generalizing m0 with
  | nil => simp
  | cons x xs ih =>
    simp only [List.foldl_cons, ih, get?_set, List.mem_cons]
    by_cases h1 : k ∈ xs <;> by_cases h2 : k = x <;> simp [h1, h2]

theorem unmarked_spec {marked : Dict V Bool} {ws tv : List V} (h : unmarked marked ws = .ok tv) :
    ∀ w, w ∈ tv ↔ w ∈ ws ∧ marked.get? w = some false := by
  induction ws generalizing tv with
  | nil => simp [unmarked] at h; subst h; simp
  | cons x xs ih =>
    simp only [unmarked, Dict.get] at h
    cases hm : marked.get? x with
    | none => simp [hm, bind, Except.bind] at h
    | some b =>
      cases hr : unmarked marked xs with
      | error e => simp [hm, hr, bind, Except.bind] at h
      | ok r =>
        simp only [hm, hr, bind, Except.bind, pure, Except.pure, Except.ok.injEq] at h
        subst h
        intro w
        cases b
        · simp only [Bool.false_eq_true, if_false, List.mem_cons, ih hr]
          constructor
          · rintro (rfl | h); exact ⟨Or.inl rfl, hm⟩; exact ⟨Or.inr h.1, h.2⟩
          · rintro ⟨rfl | h, h2⟩; exact Or.inl rfl; exact Or.inr ⟨h, h2⟩
        · simp only [if_true, List.mem_cons, ih hr]
          constructor
          · rintro ⟨h1, h2⟩; exact ⟨Or.inr h1, h2⟩
          · rintro ⟨rfl | h1, h2⟩
            · rw [hm] at h2; cases h2
            · exact ⟨h1, h2⟩

theorem atLevel_spec {dist : Dict V Nat} {d : Nat} {ws r : List V} (h : atLevel dist d ws = .ok r) :
    ∀ w, w ∈ r ↔ w ∈ ws ∧ dist.get? w = some d := by
  induction ws generalizing r with
  | nil => simp [atLevel] at h; subst h; simp
  | cons x xs ih =>
    simp only [atLevel, Dict.get] at h
    cases hm : dist.get? x with
    | none => simp [hm, bind, Except.bind] at h
    | some dx =>
      cases hr : atLevel dist d xs with
      | error e => simp [hm, hr, bind, Except.bind] at h
      | ok r' =>
        simp only [hm, hr, bind, Except.bind, pure, Except.pure, Except.ok.injEq] at h
        subst h
        intro w
        by_cases hd : dx = d
        · subst hd
          simp only [if_true, List.mem_cons, ih hr]
          constructor
          · rintro (rfl | h); exact ⟨Or.inl rfl, hm⟩; exact ⟨Or.inr h.1, h.2⟩
          · rintro ⟨rfl | h, h2⟩; exact Or.inl rfl; exact Or.inr ⟨h, h2⟩
        · simp only [hd, if_false, List.mem_cons, ih hr]
          constructor
          · rintro ⟨h1, h2⟩; exact ⟨Or.inr h1, h2⟩
          · rintro ⟨rfl | h1, h2⟩
            · rw [hm] at h2; cases h2; exact absurd rfl hd
            · exact ⟨h1, h2⟩

theorem labelled_spec {row : Dict V (List L)} {v : V} {ws : List V} {es : List (V × V × List L)}
    (h : labelled row v ws = .ok es) :
    ∀ e ∈ es, e.1 = v ∧ e.2.1 ∈ ws ∧ row.get? e.2.1 = some e.2.2 := by
  induction ws generalizing es with
  | nil => simp [labelled] at h; subst h; simp
  | cons x xs ih =>
    simp only [labelled, Dict.get] at h
    cases hm : row.get? x with
    | none => simp [hm, bind, Except.bind] at h
    | some ls =>
      cases hr : labelled row v xs with
      | error e => simp [hm, hr, bind, Except.bind] at h
      | ok r' =>
        simp only [hm, hr, bind, Except.bind, pure, Except.pure, Except.ok.injEq] at h
        subst h
        intro e he
        rcases List.mem_cons.1 he with rfl | he
        · exact ⟨rfl, by simp, hm⟩
        · obtain ⟨a, b, c⟩ := ih hr e he
          exact ⟨a, by simp [b], c⟩

/-- adding edges that all belong to a deterministic relation containing the current edge set never
contradicts an existing `(tail, label)` -/
theorem labelsOK_of_subset (R : V → L → V → Prop) (hR : ∀ v l w w', R v l w → R v l w' → w = w')
    (t h : V) (ls : List L) (m : SetFSA V L) (hm : ∀ v l w, m.edges v l w → R v l w)
    (hls : ∀ l ∈ ls, R t l h) : SetFSA.LabelsOK true t h m ls := by
  induction ls generalizing m with
  | nil => trivial
  | cons l ls ih =>
    refine ⟨fun w hw => hR t l w h (hm t l w hw) (hls l (by simp)), by simp, ?_⟩
    apply ih
    · intro v l' w hw
      rcases hw with hw | ⟨rfl, rfl, rfl⟩
      · exact hm v l' w hw
      · exact hls l' (by simp)
    · intro l' hl'; exact hls l' (by simp [hl'])

theorem edgesLOK_of_subset (R : V → L → V → Prop) (hR : ∀ v l w w', R v l w → R v l w' → w = w')
    (es : List (V × V × List L)) (m : SetFSA V L) (hm : ∀ v l w, m.edges v l w → R v l w)
    (hes : ∀ e ∈ es, ∀ l ∈ e.2.2, R e.1 l e.2.1) : SetFSA.EdgesLOK true m es := by
  induction es generalizing m with
  | nil => trivial
  | cons e es ih =>
    refine ⟨labelsOK_of_subset R hR e.1 e.2.1 e.2.2 m hm (hes e (by simp)), ?_⟩
    apply ih
    · intro v l w hw
      rcases hw with hw | ⟨rfl, hl, rfl⟩
      · exact hm v l w hw
      · exact hes e (by simp) l hl
    · intro e' he'; exact hes e' (by simp [he'])

theorem SetFSA.addEdgesL_edges (m : SetFSA V L) (es : List (V × V × List L)) (v : V) (l : L) (w : V) :
    (m.addEdgesL es).edges v l w ↔ m.edges v l w ∨ ∃ e ∈ es, e.1 = v ∧ e.2.1 = w ∧ l ∈ e.2.2 := by
  induction es generalizing m with
  | nil => simp [SetFSA.addEdgesL]
  | cons e es ih =>
    simp only [SetFSA.addEdgesL, List.foldl_cons] at ih ⊢
    rw [ih]; simp only [SetFSA.addEdgeL, List.mem_cons, exists_eq_or_imp]; grind

theorem SetFSA.addEdgesL_verts (m : SetFSA V L) (es : List (V × V × List L)) (v : V) :
    (m.addEdgesL es).verts v ↔ m.verts v ∨ ∃ e ∈ es, e.1 = v ∨ e.2.1 = v := by
  induction es generalizing m with
  | nil => simp [SetFSA.addEdgesL]
  | cons e es ih =>
    simp only [SetFSA.addEdgesL, List.foldl_cons] at ih ⊢
    rw [ih]; simp only [SetFSA.addEdgeL, List.mem_cons, exists_eq_or_imp]; grind

/-- invariant of the breadth-first loop of `remove_long_paths` -/
structure RlpInv (s : FSA V L) (root : V) (H : FSA V L) (marked : Dict V Bool) (dist : Dict V Nat)
    (queue : List V) : Prop where
  wf : H.WF
  verts : ∀ v, v ∈ H.out.keys ↔ v ∈ s.out.keys
  starts : H.starts = [root]
  sound : ∀ v l w, H.step v l = some w →
    s.step v l = some w ∧ ∃ d, dist.get? v = some d ∧ dist.get? w = some (d + 1)
  mark : ∀ v, marked.get? v = some true ↔ ∃ d, dist.get? v = some d
  queued : ∀ v ∈ queue, marked.get? v = some true
  root : dist.get? root = some 0

theorem unmarked_total {marked : Dict V Bool} {ws tv : List V} (h : unmarked marked ws = .ok tv) :
    ∀ w ∈ ws, ∃ b, marked.get? w = some b := by
  induction ws generalizing tv with
  | nil => simp
  | cons x xs ih =>
    simp only [unmarked, Dict.get] at h
    cases hm : marked.get? x with
    | none => simp [hm, bind, Except.bind] at h
    | some b =>
      cases hr : unmarked marked xs with
      | error e => simp [hm, hr, bind, Except.bind] at h
      | ok r =>
        intro w hw
        rcases List.mem_cons.1 hw with rfl | hw
        · exact ⟨b, hm⟩
        · exact ih hr w hw

theorem labelled_complete {row : Dict V (List L)} {v : V} {ws : List V} {es : List (V × V × List L)}
    (h : labelled row v ws = .ok es) :
    ∀ w ∈ ws, ∃ ls, row.get? w = some ls ∧ (v, w, ls) ∈ es := by
  induction ws generalizing es with
  | nil => simp
  | cons x xs ih =>
    simp only [labelled, Dict.get] at h
    cases hm : row.get? x with
    | none => simp [hm, bind, Except.bind] at h
    | some ls =>
      cases hr : labelled row v xs with
      | error e => simp [hm, hr, bind, Except.bind] at h
      | ok r' =>
        simp only [hm, hr, bind, Except.bind, pure, Except.pure, Except.ok.injEq] at h
        subst h
        intro w hw
        rcases List.mem_cons.1 hw with rfl | hw
        · exact ⟨ls, hm, by simp⟩
        · obtain ⟨ls', h1, h2⟩ := ih hr w hw
          exact ⟨ls', h1, by simp [h2]⟩

/-- the facts about one iteration of the breadth-first loop, given that its local computations
succeed (no assumption on the rest of the run) -/
theorem rlp_step {s : FSA V L} (hs : s.WF) (root : V) (ties : Bool)
    (H : FSA V L) (marked : Dict V Bool) (dist : Dict V Nat) (v : V) (q : List V)
    (inv : RlpInv s root H marked dist (v :: q))
    {row : Dict V (List L)} {toVisit short : List V} {dv : Nat} {es : List (V × V × List L)}
    {marked1 : Dict V Bool} {dist1 : Dict V Nat}
    (hrow : s.out.get? v = some row) (htv : unmarked marked row.keys = .ok toVisit)
    (hdv : dist.get? v = some dv)
    (hM : toVisit.foldl (fun m w => Dict.set m w true) marked = marked1)
    (hD : toVisit.foldl (fun d w => Dict.set d w (dv + 1)) dist = dist1)
    (hshort : (if ties = true then atLevel dist1 (dv + 1) row.keys else pure toVisit) = Except.ok short)
    (hes : labelled row v short = .ok es) :
    ∃ H1, H.addEdgesL es = .ok H1 ∧
      (∀ w, w ∈ toVisit ↔ w ∈ row.keys ∧ marked.get? w = some false) ∧
      (∀ x, marked1.get? x = if x ∈ toVisit then some true else marked.get? x) ∧
      (∀ x, dist1.get? x = if x ∈ toVisit then some (dv + 1) else dist.get? x) ∧
      (∀ w, w ∈ short ↔
        if ties = true then (w ∈ row.keys ∧ dist1.get? w = some (dv + 1)) else w ∈ toVisit) ∧
      (∀ a l b, H1.step a l = some b ↔
        H.step a l = some b ∨ (a = v ∧ b ∈ short ∧ ∃ ls, row.get? b = some ls ∧ l ∈ ls)) ∧
      RlpInv s root H1 marked1 dist1 (q ++ toVisit) := by
  have hM' : ∀ x, marked1.get? x = if x ∈ toVisit then some true else marked.get? x := by
    intro x; rw [← hM]; exact get?_foldl_setConst toVisit true marked x
  have hD' : ∀ x, dist1.get? x = if x ∈ toVisit then some (dv + 1) else dist.get? x := by
    intro x; rw [← hD]; exact get?_foldl_setConst toVisit (dv + 1) dist x
  have htv' := unmarked_spec htv
  have hgrow : ∀ x d, dist.get? x = some d → dist1.get? x = some d := by
    intro x d hx
    rw [hD' x]
    have : x ∉ toVisit := by
      intro hm
      have := ((htv' x).1 hm).2
      have h2 := (inv.mark x).2 ⟨d, hx⟩
      rw [this] at h2; cases h2
    simp [this, hx]
  have hes' := labelled_spec hes
  have hshort' : ∀ w ∈ short, w ∈ row.keys ∧ dist1.get? w = some (dv + 1) := by
    intro w hw
    cases ties
    · simp only [Bool.false_eq_true, if_false, pure, Except.pure, Except.ok.injEq] at hshort
      subst hshort
      exact ⟨((htv' w).1 hw).1, by rw [hD' w]; simp [hw]⟩
    · simp only [if_true] at hshort
      exact (atLevel_spec hshort w).1 hw
  -- the new edges are edges of `s`
  have hnew : ∀ e ∈ es, ∀ l ∈ e.2.2, s.step e.1 l = some e.2.1 := by
    intro e he l hl
    obtain ⟨h1, -, h3⟩ := hes' e he
    rw [h1, hs.1.label]
    exact ⟨e.2.2, by rw [og_def, hrow]; exact h3, hl⟩
  have hok : SetFSA.EdgesLOK true H.abs es :=
    edgesLOK_of_subset (fun v l w => s.step v l = some w)
      (fun v l w w' h1 h2 => by rw [h1] at h2; exact Option.some.inj h2) es H.abs
      (fun v l w hw => (inv.sound v l w hw).1) hnew
  obtain ⟨H1, eH1, wH1, stH1, aH1⟩ := addEdgesL_spec inv.wf true es hok
  have hedge : ∀ a l b, H1.step a l = some b ↔
      H.step a l = some b ∨ ∃ e ∈ es, e.1 = a ∧ e.2.1 = b ∧ l ∈ e.2.2 := by
    intro a l b
    have h1 : H1.abs.edges a l b ↔ (H.abs.addEdgesL es).edges a l b := by rw [aH1]
    exact h1.trans (SetFSA.addEdgesL_edges H.abs es a l b)
  have hvert : ∀ a, a ∈ H1.out.keys ↔ a ∈ s.out.keys := by
    intro a
    have h1 : H1.abs.verts a ↔ (H.abs.addEdgesL es).verts a := by rw [aH1]
    have := h1.trans (SetFSA.addEdgesL_verts H.abs es a)
    have hv_in : v ∈ s.out.keys := (mem_keys_iff _ _).2 ⟨row, hrow⟩
    constructor
    · intro ha
      rcases this.1 ha with h1 | ⟨e, he, h2⟩
      · exact (inv.verts a).1 h1
      · obtain ⟨e1, e2, e3⟩ := hes' e he
        rcases h2 with rfl | rfl
        · rw [e1]; exact hv_in
        · have := (hshort' _ e2).1
          obtain ⟨ls, hls⟩ := (mem_keys_iff _ _).1 this
          exact hs.1.closed v e.2.1 ls (by rw [og_def, hrow]; exact hls)
    · intro ha; exact this.2 (Or.inl ((inv.verts a).2 ha))
  have hvmark : marked.get? v = some true := inv.queued v (by simp)
  have hvnot : v ∉ toVisit := by
    intro hm; have := ((htv' v).1 hm).2; rw [hvmark] at this; cases this
  have hshortiff : ∀ w, w ∈ short ↔
      if ties = true then (w ∈ row.keys ∧ dist1.get? w = some (dv + 1)) else w ∈ toVisit := by
    intro w
    cases ties
    · simp only [Bool.false_eq_true, if_false, pure, Except.pure, Except.ok.injEq] at hshort ⊢
      rw [hshort]
    · simp only [if_true] at hshort ⊢
      exact atLevel_spec hshort w
  have hedge2 : ∀ a l b, H1.step a l = some b ↔
      H.step a l = some b ∨ (a = v ∧ b ∈ short ∧ ∃ ls, row.get? b = some ls ∧ l ∈ ls) := by
    intro a l b
    rw [hedge]
    constructor
    · rintro (h1 | ⟨e, he, rfl, rfl, hl⟩)
      · exact Or.inl h1
      · obtain ⟨e1, e2, e3⟩ := hes' e he
        exact Or.inr ⟨e1, e2, e.2.2, e3, hl⟩
    · rintro (h1 | ⟨rfl, hb, ls, hls, hl⟩)
      · exact Or.inl h1
      · obtain ⟨ls', h1, h2⟩ := labelled_complete hes b hb
        rw [hls] at h1; cases h1
        exact Or.inr ⟨(a, b, ls), h2, rfl, rfl, hl⟩
  refine ⟨H1, eH1, htv', hM', hD', hshortiff, hedge2, ?_⟩
  refine ⟨wH1, hvert, by rw [stH1, inv.starts], ?_, ?_, ?_, hgrow root 0 inv.root⟩
  · intro a l b hab
    rcases (hedge a l b).1 hab with h1 | ⟨e, he, rfl, rfl, hl⟩
    · obtain ⟨h2, d, h3, h4⟩ := inv.sound a l b h1
      exact ⟨h2, d, hgrow a d h3, hgrow b (d + 1) h4⟩
    · obtain ⟨e1, e2, e3⟩ := hes' e he
      refine ⟨hnew e he l hl, dv, ?_, (hshort' _ e2).2⟩
      rw [e1]; exact hgrow v dv hdv
  · intro x; rw [hM' x, hD' x]
    by_cases hx : x ∈ toVisit
    · simp [hx]
    · simp only [hx, if_false]; exact inv.mark x
  · intro x hx
    rw [hM' x]
    rcases List.mem_append.1 hx with h1 | h1
    · have := inv.queued x (by simp [h1])
      by_cases hx' : x ∈ toVisit <;> simp [hx', this]
    · simp [h1]

/-- unfolding one iteration of the loop whose local computations succeed -/
theorem rlpLoop_succ_eq {s : FSA V L} (ties : Bool) (fuel : Nat)
    (H : FSA V L) (marked : Dict V Bool) (dist : Dict V Nat) (v : V) (q : List V)
    {row : Dict V (List L)} {toVisit short : List V} {dv : Nat} {es : List (V × V × List L)} {H1 : FSA V L}
    (hrow : s.out.get? v = some row) (htv : unmarked marked row.keys = .ok toVisit)
    (hdv : dist.get? v = some dv)
    (hshort : (if ties = true then atLevel (toVisit.foldl (fun d w => Dict.set d w (dv + 1)) dist) (dv + 1) row.keys
      else pure toVisit) = Except.ok short)
    (hes : labelled row v short = .ok es) (hH1 : H.addEdgesL es = .ok H1) :
    rlpLoop s ties (fuel + 1) H marked dist (v :: q) =
      rlpLoop s ties fuel H1 (toVisit.foldl (fun m w => Dict.set m w true) marked)
        (toVisit.foldl (fun d w => Dict.set d w (dv + 1)) dist) (q ++ toVisit) := by
  simp only [rlpLoop, Dict.get, hrow, htv, hdv, bind, Except.bind]
  cases ties
  · simp only [Bool.false_eq_true, if_false, pure, Except.pure, Except.ok.injEq] at hshort ⊢
    subst hshort
    simp only [hes, hH1]
  · simp only [if_true] at hshort ⊢
    simp only [hshort, hes, hH1]

/-- one iteration of the breadth-first loop: what is computed, and that the invariant carries over -/
theorem rlp_iter {s : FSA V L} (hs : s.WF) (root : V) (ties : Bool) (fuel : Nat)
    (H : FSA V L) (marked : Dict V Bool) (dist : Dict V Nat) (v : V) (q : List V)
    (H' : FSA V L) (dist' : Dict V Nat) (inv : RlpInv s root H marked dist (v :: q))
    (h : rlpLoop s ties (fuel + 1) H marked dist (v :: q) = .ok (H', dist')) :
    ∃ (row : Dict V (List L)) (toVisit short : List V) (dv : Nat) (H1 : FSA V L)
      (marked1 : Dict V Bool) (dist1 : Dict V Nat),
      s.out.get? v = some row ∧ dist.get? v = some dv ∧
      (∀ w, w ∈ toVisit ↔ w ∈ row.keys ∧ marked.get? w = some false) ∧
      (∀ w ∈ row.keys, ∃ b, marked.get? w = some b) ∧
      (∀ x, marked1.get? x = if x ∈ toVisit then some true else marked.get? x) ∧
      (∀ x, dist1.get? x = if x ∈ toVisit then some (dv + 1) else dist.get? x) ∧
      (∀ w, w ∈ short ↔
        if ties = true then (w ∈ row.keys ∧ dist1.get? w = some (dv + 1)) else w ∈ toVisit) ∧
      (∀ a l b, H1.step a l = some b ↔
        H.step a l = some b ∨ (a = v ∧ b ∈ short ∧ ∃ ls, row.get? b = some ls ∧ l ∈ ls)) ∧
      RlpInv s root H1 marked1 dist1 (q ++ toVisit) ∧
      rlpLoop s ties fuel H1 marked1 dist1 (q ++ toVisit) = .ok (H', dist') := by
  have h0 := h
  simp only [rlpLoop, Dict.get] at h
  cases hrow : s.out.get? v with
  | none => simp [hrow, bind, Except.bind] at h
  | some row =>
  cases htv : unmarked marked row.keys with
  | error e => simp [hrow, htv, bind, Except.bind] at h
  | ok toVisit =>
  cases hdv : dist.get? v with
  | none => simp [hrow, htv, hdv, bind, Except.bind] at h
  | some dv =>
  simp only [hrow, htv, hdv, bind, Except.bind] at h
  obtain ⟨short, hshort, h⟩ : ∃ short,
      (if ties = true then atLevel (toVisit.foldl (fun d w => Dict.set d w (dv + 1)) dist) (dv + 1) row.keys
        else pure toVisit) = Except.ok short ∧
      Except.bind (labelled row v short) (fun es => Except.bind (H.addEdgesL es)
        (fun H1 => s.rlpLoop ties fuel H1 (toVisit.foldl (fun m w => Dict.set m w true) marked)
          (toVisit.foldl (fun d w => Dict.set d w (dv + 1)) dist) (q ++ toVisit))) = Except.ok (H', dist') := by
    cases ties
    · simp only [Bool.false_eq_true, if_false, pure, Except.pure] at h ⊢
      exact ⟨toVisit, rfl, h⟩
    · simp only [if_true] at h ⊢
      cases hat : atLevel (toVisit.foldl (fun d w => Dict.set d w (dv + 1)) dist) (dv + 1) row.keys with
      | error e => simp [hat] at h
      | ok r => simp only [hat] at h; exact ⟨r, rfl, h⟩
  cases hes : labelled row v short with
  | error e => simp [hes, Except.bind] at h
  | ok es =>
  obtain ⟨H1, eH1, f1, f2, f3, f4, f5, inv1⟩ :=
    rlp_step hs root ties H marked dist v q inv hrow htv hdv rfl rfl hshort hes
  refine ⟨row, toVisit, short, dv, H1, _, _, rfl, rfl, f1, unmarked_total htv, f2, f3, f4, f5, inv1, ?_⟩
  rw [← rlpLoop_succ_eq ties fuel H marked dist v q hrow htv hdv hshort hes eH1]
  exact h0

theorem rlpLoop_sound {s : FSA V L} (hs : s.WF) (root : V) (ties : Bool) (fuel : Nat) :
    ∀ (H : FSA V L) (marked : Dict V Bool) (dist : Dict V Nat) (queue : List V)
      (H' : FSA V L) (dist' : Dict V Nat),
      RlpInv s root H marked dist queue → rlpLoop s ties fuel H marked dist queue = .ok (H', dist') →
      ∃ marked', RlpInv s root H' marked' dist' [] := by
  induction fuel with
  | zero =>
    intro H marked dist queue H' dist' inv h
    cases queue with
    | nil => simp only [rlpLoop, Except.ok.injEq, Prod.mk.injEq] at h; obtain ⟨rfl, rfl⟩ := h; exact ⟨marked, inv⟩
    | cons v q => simp [rlpLoop] at h
  | succ fuel ih =>
    intro H marked dist queue H' dist' inv h
    cases queue with
    | nil => simp only [rlpLoop, Except.ok.injEq, Prod.mk.injEq] at h; obtain ⟨rfl, rfl⟩ := h; exact ⟨marked, inv⟩
    | cons v q =>
      obtain ⟨row, toVisit, short, dv, H1, marked1, dist1, -, -, -, -, -, -, -, -, inv1, h1⟩ :=
        rlp_iter hs root ties fuel H marked dist v q H' dist' inv h
      exact ih H1 marked1 dist1 (q ++ toVisit) H' dist' inv1 h1

theorem wf_emptyFSA (st : List V) : (FSA.empty st : FSA V L).WF := by
  have : (FSA.empty st : FSA V L) = { graph := [], out := [], inn := [], starts := st } := rfl
  rw [this]
  refine ⟨⟨⟨by simp, by simp, by simp, by simp, by simp, by simp⟩, by simp, by simp, ?_, ?_, ?_, ?_⟩, ?_⟩
  · intro v w; rfl
  · intro v l w; simp [step_def, og_def]
  · intro v w ls h; simp [og_def] at h
  · intro v w ls h; simp [og_def] at h
  · intro v w ls h; simp [og_def] at h

/-- the set-up of `remove_long_paths`: the chosen root, the initial state of the loop, and the
loop invariant there -/
theorem removeLongPaths_unfold {s : FSA V L} (root : Option V) (ties : Bool)
    {H : FSA V L} {dist : Dict V Nat} (h : s.removeLongPaths root ties = .ok (H, dist)) :
    ∃ (r : V) (H0 : FSA V L) (marked0 : Dict V Bool),
      (root = some r ∨ (root = none ∧ s.starts.head? = some r)) ∧
      rlpLoop s ties (s.out.length + 2) H0 marked0 [(r, 0)] [r] = .ok (H, dist) ∧
      RlpInv s r H0 marked0 [(r, 0)] [r] ∧
      (∀ x, marked0.get? x = some true ↔ x = r) ∧ (∀ v l w, H0.step v l ≠ some w) := by
  simp only [removeLongPaths] at h
  obtain ⟨r, hr, h⟩ : ∃ r, (root = some r ∨ (root = none ∧ s.starts.head? = some r)) ∧
      rlpLoop s ties (s.out.length + 2) ((FSA.empty [r] : FSA V L).addVertices s.vertices)
        (Dict.set (s.vertices.map fun v => (v, false)) r true) [(r, 0)] [r] = .ok (H, dist) := by
    cases root with
    | some r => exact ⟨r, Or.inl rfl, by simpa [bind, Except.bind, pure, Except.pure] using h⟩
    | none =>
      simp only [start0] at h
      cases hst : s.starts with
      | nil => simp [hst, bind, Except.bind] at h
      | cons r rest =>
        exact ⟨r, Or.inr ⟨rfl, by simp⟩, by simpa [hst, bind, Except.bind, pure, Except.pure] using h⟩
  have hw0 : ((FSA.empty [r] : FSA V L).addVertices s.vertices).WF :=
    wf_addVertices (wf_emptyFSA [r]) _
  have habs0 := abs_addVertices (wf_emptyFSA [r] (L := L)) s.vertices
  have hnoedge : ∀ v l w, ((FSA.empty [r] : FSA V L).addVertices s.vertices).step v l ≠ some w := by
    intro v l w hst
    have : ((FSA.empty [r] : FSA V L).addVertices s.vertices).abs.edges v l w := hst
    rw [habs0] at this
    have : (FSA.empty [r] : FSA V L).step v l = some w := this
    simp [step_def, FSA.empty, fromGraphDict, hiddenVertices] at this
  have hmark0 : ∀ x, (Dict.set (s.vertices.map fun v => (v, false)) r true).get? x = some true ↔ x = r := by
    intro v
    rw [get?_set]
    by_cases hv : v = r
    · subst hv; simp
    · simp only [hv, if_false]
      constructor
      · intro hm
        have := mem_of_get? hm
        simp at this
      · intro h; cases h
  refine ⟨r, _, _, hr, h, ?_, hmark0, hnoedge⟩
  refine ⟨hw0, ?_, by rw [starts_addVertices]; rfl, ?_, ?_, ?_, by simp [get?_cons]⟩
  · intro v; rw [mem_keys_addVertices]
    have : v ∉ (FSA.empty [r] : FSA V L).out.keys := by intro h; cases h
    simp [this, vertices]
  · intro v l w hst; exact absurd hst (hnoedge v l w)
  · intro v
    rw [hmark0, get?_cons]
    by_cases hv : v = r
    · subst hv; simp
    · simp only [hv, if_false, get?_nil]
      constructor
      · intro h; cases h
      · rintro ⟨d, hd⟩; cases hd
  · intro v hv; simp at hv; subst hv; exact (hmark0 v).2 rfl

/-- `remove_long_paths`: whenever the call returns, the result is a well-formed automaton on the
same vertex set, with no start vertices, all of whose edges are edges of the original automaton
leading from a breadth-first level to the next one; the root is at level 0. -/
theorem removeLongPaths_sound {s : FSA V L} (hs : s.WF) (root : Option V) (ties : Bool)
    {H : FSA V L} {dist : Dict V Nat} (h : s.removeLongPaths root ties = .ok (H, dist)) :
    H.WF ∧ (∀ v, v ∈ H.vertices ↔ v ∈ s.vertices) ∧
    (∃ r, (root = some r ∨ (root = none ∧ s.starts.head? = some r)) ∧ H.starts = [r] ∧ dist.get? r = some 0) ∧
    ∀ v l w, H.step v l = some w →
      s.step v l = some w ∧ ∃ d, dist.get? v = some d ∧ dist.get? w = some (d + 1) := by
  obtain ⟨r, H0, marked0, hr, hloop, inv0, -, -⟩ := removeLongPaths_unfold root ties h
  obtain ⟨marked', inv⟩ := rlpLoop_sound hs r ties _ _ _ _ _ H dist inv0 hloop
  exact ⟨inv.wf, inv.verts, ⟨r, hr, inv.starts, inv.root⟩, inv.sound⟩

end GT.FSA
