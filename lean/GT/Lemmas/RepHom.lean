/-
Helper lemmas for C05: dict look-ups after `dset`, the `Coherent` invariant under
`_set_generator`, free reduction / formal inverse, and the look-up characterisation of
`_compose` from which functoriality of every derived representation follows.
-/
import GT.Lemmas.Rep

namespace GT.RepW
open Matrix

section dict
variable {κ ν : Type} [DecidableEq κ]

@[simp] theorem dget_nil (k : κ) : dget ([] : List (κ × ν)) k = none := rfl

theorem dget_dset_self (d : List (κ × ν)) (k : κ) (v : ν) : dget (dset d k v) k = some v := by
  induction d with
  | nil => simp [dset, dget]
  | cons p d ih =>
    obtain ⟨k', v'⟩ := p
    by_cases h : k' = k
    · simp [dset, dget, h]
    · simp [dset, dget, h, ih]

theorem dget_dset_ne (d : List (κ × ν)) {k k' : κ} (v : ν) (h : k' ≠ k) :
    dget (dset d k v) k' = dget d k' := by
  induction d with
  | nil => simp [dset, dget, Ne.symm h]
  | cons p d ih =>
    obtain ⟨k₀, v₀⟩ := p
    by_cases h0 : k₀ = k
    · subst h0
      simp [dset, dget, Ne.symm h]
    · by_cases h1 : k₀ = k'
      · subst h1
        simp [dset, dget, h0]
      · simp [dset, dget, h0, h1, ih]

theorem dget_dset (d : List (κ × ν)) (k k' : κ) (v : ν) :
    dget (dset d k v) k' = if k' = k then some v else dget d k' := by
  by_cases h : k' = k
  · subst h; simp [dget_dset_self]
  · simp [h, dget_dset_ne d v h]

theorem dget_eq_none_iff (d : List (κ × ν)) (k : κ) : dget d k = none ↔ k ∉ d.map Prod.fst := by
  induction d with
  | nil => simp
  | cons p d ih =>
    obtain ⟨k', v'⟩ := p
    by_cases h : k' = k
    · simp [dget, h]
    · simp [dget, h, ih, Ne.symm h]

theorem dget_of_mem (d : List (κ × ν)) {k : κ} (h : k ∈ d.map Prod.fst) : ∃ v, dget d k = some v := by
  cases hd : dget d k with
  | none => exact absurd h ((dget_eq_none_iff d k).1 hd)
  | some v => exact ⟨v, rfl⟩

end dict

namespace Rep
variable {n m : ℕ} {R S : Type} [Inhabited R] [CommRing R] [Inhabited S] [CommRing S]

theorem gen_eq (ρ : Rep n R) (g : Gen) :
    ρ.gen g = match dget ρ.gens g with | some A => .ok A | none => .error "KeyError" := rfl

theorem genM_ok_iff (ρ : Rep n R) (g : Gen) (A : Matrix (Fin n) (Fin n) R) :
    ρ.genM g = .ok A ↔ ∃ D, dget ρ.gens g = some D ∧ D.toMatrix = A := by
  unfold genM gen
  cases dget ρ.gens g with
  | none => simp [Except.map]
  | some D => simp [Except.map]

theorem gen_ok_iff (ρ : Rep n R) (g : Gen) (D : DMat n n R) :
    ρ.gen g = .ok D ↔ dget ρ.gens g = some D := by
  unfold gen
  cases dget ρ.gens g with
  | none => simp
  | some D' => simp

/-- square matrices over a commutative ring: a right inverse is a left inverse -/
theorem mul_eq_one_swap {A B : Matrix (Fin n) (Fin n) R} (h : A * B = 1) : B * A = 1 :=
  mul_eq_one_comm.mp h

/-- the dict invariant used throughout: stored letters come in mutually inverse pairs, and the
inverse map is an involution on the stored names -/
structure WF (ρ : Rep n R) : Prop where
  coh : ρ.Coherent
  invol : ∀ g A, ρ.genM g = .ok A → ρ.inv (ρ.inv g) = g

theorem wf_empty (inv : Gen → Gen) (ps : Bool) (rels : List Word) :
    WF ({ gens := [], inv := inv, parseSimple := ps, relations := rels } : Rep n R) := by
  constructor
  · intro g A h; simp [genM, gen, dget, Except.map] at h
  · intro g A h; simp [genM, gen, dget, Except.map] at h

/-- `rep[g] = A` (with `compute_inverse=True`) keeps the invariant: this is what makes
"an inverse letter maps to the inverse matrix" true after *any* history of assignments and
re-assignments, to lower- or upper-case names, in any order. -/
theorem setGenerator_wf {invert : DMat n n R → Option (DMat n n R)} (hinv : InvertOK invert)
    {ρ σ : Rep n R} (hρ : WF ρ) {g : Gen} {A : DMat n n R}
    (hg2 : ρ.inv (ρ.inv g) = g) (hg1 : ρ.inv g ≠ g)
    (h : ρ.setGenerator invert g A true = .ok σ) : WF σ := by
  unfold setGenerator at h
  split_ifs at h with hv h2
  swap
  · exact absurd rfl h2
  · simp only at h
    cases hi : invert A with
    | none => rw [hi] at h; cases h
    | some Ai =>
      rw [hi] at h
      simp only [Except.ok.injEq] at h
      have hAAi : A.toMatrix * Ai.toMatrix = 1 := hinv A Ai hi
      have hAiA : Ai.toMatrix * A.toMatrix = 1 := mul_eq_one_swap hAAi
      subst h
      -- look-ups in the new dict
      have look : ∀ h', dget (dset (dset ρ.gens g A) (ρ.inv g) Ai) h'
          = if h' = ρ.inv g then some Ai else if h' = g then some A else dget ρ.gens h' := by
        intro h'
        rw [dget_dset, dget_dset]
      have key : ∀ h' X, genM { ρ with gens := dset (dset ρ.gens g A) (ρ.inv g) Ai } h' = .ok X →
          ρ.inv (ρ.inv h') = h' ∧ ∃ B, genM { ρ with gens := dset (dset ρ.gens g A) (ρ.inv g) Ai } (ρ.inv h') = .ok B
            ∧ X * B = 1 ∧ B * X = 1 := by
        intro h' X hX
        rw [genM_ok_iff] at hX
        obtain ⟨D, hD, rfl⟩ := hX
        simp only [look] at hD
        by_cases c1 : h' = ρ.inv g
        · subst c1
          simp only [if_true, Option.some.injEq] at hD
          subst hD
          refine ⟨by rw [hg2], A.toMatrix, ?_, hAiA, hAAi⟩
          rw [genM_ok_iff]
          refine ⟨A, ?_, rfl⟩
          simp only [look, hg2, if_neg (Ne.symm hg1), if_true]
        · by_cases c2 : h' = g
          · subst c2
            simp only [if_neg c1, if_true, Option.some.injEq] at hD
            subst hD
            refine ⟨hg2, Ai.toMatrix, ?_, hAAi, hAiA⟩
            rw [genM_ok_iff]
            exact ⟨Ai, by simp only [look, if_true], rfl⟩
          · simp only [if_neg c1, if_neg c2] at hD
            have hX' : ρ.genM h' = .ok D.toMatrix := (genM_ok_iff ρ h' _).2 ⟨D, hD, rfl⟩
            have hi2 := hρ.invol h' _ hX'
            obtain ⟨B, hB, h1, h2⟩ := hρ.coh h' _ hX'
            refine ⟨hi2, B, ?_, h1, h2⟩
            rw [genM_ok_iff] at hB ⊢
            obtain ⟨DB, hDB, rfl⟩ := hB
            refine ⟨DB, ?_, rfl⟩
            have n1 : ρ.inv h' ≠ ρ.inv g := by
              intro e
              apply c2
              rw [← hi2, e, hg2]
            have n2 : ρ.inv h' ≠ g := by
              intro e
              apply c1
              rw [← hi2, e]
            simp only [look, if_neg n1, if_neg n2, hDB]
      constructor
      · intro h' X hX
        exact (key h' X hX).2
      · intro h' X hX
        exact (key h' X hX).1


/-! ### inverse letters, free reduction, formal inverse -/

theorem value_singleton_ok {ρ : Rep n R} {g : Gen} {A : Matrix (Fin n) (Fin n) R} :
    ρ.value [g] = .ok A ↔ ρ.genM g = .ok A := by rw [value_singleton]

/-- every letter that has a matrix has an inverse letter with the inverse matrix -/
theorem value_inv_letter {ρ : Rep n R} (hc : ρ.Coherent) {g : Gen} {A : Matrix (Fin n) (Fin n) R}
    (h : ρ.value [g] = .ok A) : ρ.value [ρ.inv g] = .ok A⁻¹ ∧ A * A⁻¹ = 1 ∧ A⁻¹ * A = 1 := by
  rw [value_singleton] at h
  obtain ⟨B, hB, h1, h2⟩ := hc g A h
  have : A⁻¹ = B := Matrix.inv_eq_right_inv h1
  rw [value_singleton, this]
  exact ⟨hB, h1, h2⟩

/-- every word that has a value has an invertible value -/
theorem value_isUnit {ρ : Rep n R} (hc : ρ.Coherent) {w : Word} {A : Matrix (Fin n) (Fin n) R}
    (h : ρ.value w = .ok A) : A * A⁻¹ = 1 ∧ A⁻¹ * A = 1 := by
  induction w generalizing A with
  | nil =>
    rw [value_nil] at h; cases h
    simp
  | cons g w ih =>
    obtain ⟨G, W, hG, hW, rfl⟩ := value_append_inv ρ (u := [g]) (v := w) h
    obtain ⟨_, g1, g2⟩ := value_inv_letter hc hG
    obtain ⟨w1, w2⟩ := ih hW
    rw [Matrix.mul_inv_rev]
    constructor
    · calc G * W * (W⁻¹ * G⁻¹) = G * (W * W⁻¹) * G⁻¹ := by simp only [Matrix.mul_assoc]
        _ = 1 := by rw [w1, Matrix.mul_one, g1]
    · calc W⁻¹ * G⁻¹ * (G * W) = W⁻¹ * (G⁻¹ * G) * W := by simp only [Matrix.mul_assoc]
        _ = 1 := by rw [g2, Matrix.mul_one, w2]

/-- state of the stack machine of `simplify_word`: processing the rest `w` from stack `st`
(reversed) does not change the image -/
theorem value_simplify_aux {ρ : Rep n R} (hc : ρ.Coherent) (w : Word) :
    ∀ (st : List Gen) (A : Matrix (Fin n) (Fin n) R), ρ.value (st.reverse ++ w) = .ok A →
      ρ.value ((w.foldl (simplifyStep ρ.inv) st).reverse) = .ok A := by
  induction w with
  | nil => intro st A h; simpa using h
  | cons l w ih =>
    intro st A h
    simp only [List.foldl_cons]
    cases st with
    | nil =>
      apply ih
      simpa [simplifyStep] using h
    | cons t rest =>
      unfold simplifyStep
      by_cases hl : l = ρ.inv t
      · -- cancellation: drop `t` and `l`
        simp only [hl, ne_eq, not_true_eq_false, if_false]
        apply ih
        -- value (rest.reverse ++ [t] ++ [inv t] ++ w) = value (rest.reverse ++ w)
        have h' : ρ.value (rest.reverse ++ ([t] ++ ([ρ.inv t] ++ w))) = .ok A := by
          simpa [hl, List.append_assoc] using h
        obtain ⟨P, Q, hP, hQ, rfl⟩ := value_append_inv ρ h'
        obtain ⟨T, Q', hT, hQ', rfl⟩ := value_append_inv ρ hQ
        obtain ⟨Ti, W, hTi, hW, rfl⟩ := value_append_inv ρ hQ'
        obtain ⟨hTi', t1, _⟩ := value_inv_letter hc hT
        rw [hTi'] at hTi
        cases hTi
        have := value_append_ok ρ hP hW
        rw [this]
        congr 1
        rw [← Matrix.mul_assoc T, t1, Matrix.one_mul]
      · simp only [ne_eq, hl, not_false_eq_true, if_true]
        apply ih
        simpa [List.append_assoc] using h

/-- free reduction does not change the image -/
theorem value_simplify {ρ : Rep n R} (hc : ρ.Coherent) {w : Word} {A : Matrix (Fin n) (Fin n) R}
    (h : ρ.value w = .ok A) : ρ.value (simplifyWord ρ.inv w) = .ok A := by
  unfold simplifyWord
  exact value_simplify_aux hc w [] A (by simpa using h)

/-- the formal inverse word maps to the inverse matrix -/
theorem value_formalInverse {ρ : Rep n R} (hc : ρ.Coherent) {w : Word} {A : Matrix (Fin n) (Fin n) R}
    (h : ρ.value w = .ok A) : ρ.value (formalInverse ρ.inv w) = .ok A⁻¹ := by
  induction w generalizing A with
  | nil =>
    rw [value_nil] at h; cases h
    simp [formalInverse, value_nil]
  | cons g w ih =>
    obtain ⟨G, W, hG, hW, rfl⟩ := value_append_inv ρ (u := [g]) (v := w) h
    have h1 := ih hW
    obtain ⟨h2, _, _⟩ := value_inv_letter hc hG
    have : formalInverse ρ.inv (g :: w) = formalInverse ρ.inv w ++ [ρ.inv g] := by
      simp [formalInverse]
    rw [this, Matrix.mul_inv_rev]
    exact value_append_ok ρ h1 h2


/-! ### `_compose`: look-up characterisation and functoriality -/

/-- `_set_generator(g, M, compute_inverse=False)` -/
theorem setGenerator_noinv {ρ σ : Rep n R} {f : DMat n n R → Option (DMat n n R)} {g : Gen} {A : DMat n n R}
    (h : ρ.setGenerator f g A false = .ok σ) :
    σ = { ρ with gens := dset ρ.gens g A } ∧ validName g = true := by
  unfold setGenerator at h
  split_ifs at h with hv h2
  · exact absurd h2 (by simp)
  · simp only [Except.ok.injEq] at h
    exact ⟨h.symm, by simpa using hv⟩

/-- loop body of `_compose` -/
def composeStep (h : DMat n n R → DMat n n R → M? (DMat m m S)) (ρ : Rep n R) (σ : Rep m S)
    (kv : Gen × DMat n n R) : M? (Rep m S) := do
  let image ← ρ.gen kv.1
  let invImage ← ρ.gen (ρ.inv kv.1)
  let composed ← h image invImage
  σ.setGenerator (fun _ => none) kv.1 composed false

theorem compose_eq (h : DMat n n R → DMat n n R → M? (DMat m m S)) (ρ : Rep n R) :
    ρ.compose h = ρ.gens.foldlM (composeStep h ρ)
      { gens := [], inv := ρ.inv, parseSimple := ρ.parseSimple, relations := ρ.relations } := rfl

theorem composeStep_ok {h : DMat n n R → DMat n n R → M? (DMat m m S)} {ρ : Rep n R} {σ σ' : Rep m S}
    {kv : Gen × DMat n n R} (hs : composeStep h ρ σ kv = .ok σ') :
    ∃ A Ai B, ρ.gen kv.1 = .ok A ∧ ρ.gen (ρ.inv kv.1) = .ok Ai ∧ h A Ai = .ok B ∧
      σ' = { σ with gens := dset σ.gens kv.1 B } := by
  unfold composeStep at hs
  cases h1 : ρ.gen kv.1 with
  | error e => rw [h1] at hs; cases hs
  | ok A =>
    cases h2 : ρ.gen (ρ.inv kv.1) with
    | error e => rw [h1, h2] at hs; cases hs
    | ok Ai =>
      cases h3 : h A Ai with
      | error e => rw [h1, h2] at hs; simp only [bind, Except.bind] at hs; rw [h3] at hs; cases hs
      | ok B =>
        rw [h1, h2] at hs
        simp only [bind, Except.bind] at hs
        rw [h3] at hs
        exact ⟨A, Ai, B, rfl, rfl, h3, (setGenerator_noinv hs).1⟩

theorem compose_fold {h : DMat n n R → DMat n n R → M? (DMat m m S)} {ρ : Rep n R}
    (l : List (Gen × DMat n n R)) :
    ∀ (σ0 σ : Rep m S), l.foldlM (composeStep h ρ) σ0 = .ok σ →
      σ.inv = σ0.inv ∧ σ.parseSimple = σ0.parseSimple ∧ σ.relations = σ0.relations ∧
      ∀ g, (g ∉ l.map Prod.fst → dget σ.gens g = dget σ0.gens g) ∧
        (g ∈ l.map Prod.fst → ∃ A Ai B, ρ.gen g = .ok A ∧ ρ.gen (ρ.inv g) = .ok Ai ∧
            h A Ai = .ok B ∧ dget σ.gens g = some B) := by
  induction l with
  | nil =>
    intro σ0 σ hf
    simp only [List.foldlM_nil, pure, Except.pure, Except.ok.injEq] at hf
    subst hf
    simp
  | cons kv l ih =>
    intro σ0 σ hf
    rw [List.foldlM_cons] at hf
    cases hs : composeStep h ρ σ0 kv with
    | error e => rw [hs] at hf; cases hf
    | ok σ1 =>
      rw [hs] at hf
      simp only [bind, Except.bind] at hf
      obtain ⟨A, Ai, B, hA, hAi, hB, rfl⟩ := composeStep_ok hs
      obtain ⟨i1, i2, i3, i4⟩ := ih _ σ hf
      refine ⟨i1, i2, i3, fun g => ?_⟩
      obtain ⟨j1, j2⟩ := i4 g
      constructor
      · intro hg
        simp only [List.map_cons, List.mem_cons, not_or] at hg
        rw [j1 hg.2]
        exact dget_dset_ne _ _ hg.1
      · intro hg
        by_cases hm : g ∈ l.map Prod.fst
        · exact j2 hm
        · simp only [List.map_cons, List.mem_cons] at hg
          have hgk : g = kv.1 := by
            rcases hg with hg | hg
            · exact hg
            · exact absurd hg hm
          subst hgk
          refine ⟨A, Ai, B, hA, hAi, hB, ?_⟩
          rw [j1 hm]
          exact dget_dset_self _ _ _

/-- look-ups in the composed representation -/
theorem compose_gen {h : DMat n n R → DMat n n R → M? (DMat m m S)} {ρ : Rep n R} {σ : Rep m S}
    (hσ : ρ.compose h = .ok σ) :
    σ.inv = ρ.inv ∧ σ.parseSimple = ρ.parseSimple ∧ σ.relations = ρ.relations ∧
    ∀ g, (dget ρ.gens g = none → dget σ.gens g = none) ∧
      (∀ A, ρ.gen g = .ok A → ∃ Ai B, ρ.gen (ρ.inv g) = .ok Ai ∧ h A Ai = .ok B ∧ σ.gen g = .ok B) := by
  rw [compose_eq] at hσ
  obtain ⟨i1, i2, i3, i4⟩ := compose_fold _ _ _ hσ
  refine ⟨i1, i2, i3, fun g => ⟨?_, ?_⟩⟩
  · intro hn
    rw [(i4 g).1 ((dget_eq_none_iff _ _).1 hn)]
    rfl
  · intro A hA
    have hm : g ∈ ρ.gens.map Prod.fst := by
      by_contra hc
      rw [gen_ok_iff, (dget_eq_none_iff _ _).2 hc] at hA
      cases hA
    obtain ⟨A', Ai, B, hA', hAi, hB, hd⟩ := (i4 g).2 hm
    rw [hA] at hA'
    cases hA'
    exact ⟨Ai, B, hAi, hB, (gen_ok_iff _ _ _).2 hd⟩

/-- **functoriality**: if the map `h` applied generator by generator denotes a multiplicative,
unit-preserving matrix function `H` (on pairs (matrix, its inverse)), the composed
representation sends every word to `H` of its original image. -/
theorem compose_value {h : DMat n n R → DMat n n R → M? (DMat m m S)} {ρ : Rep n R} {σ : Rep m S}
    (H : Matrix (Fin n) (Fin n) R → Matrix (Fin m) (Fin m) S)
    (hone : H 1 = 1) (hmul : ∀ A B, H (A * B) = H A * H B)
    (hh : ∀ A Ai B, h A Ai = .ok B → A.toMatrix * Ai.toMatrix = 1 → B.toMatrix = H A.toMatrix)
    (hc : ρ.Coherent) (hσ : ρ.compose h = .ok σ) {w : Word} {A : Matrix (Fin n) (Fin n) R}
    (hw : ρ.value w = .ok A) : σ.value w = .ok (H A) := by
  obtain ⟨_, _, _, hg⟩ := compose_gen hσ
  induction w generalizing A with
  | nil => rw [value_nil] at hw; cases hw; rw [value_nil, hone]
  | cons g w ih =>
    obtain ⟨G, W, hG, hW, rfl⟩ := value_append_inv ρ (u := [g]) (v := w) hw
    rw [hmul]
    refine value_append_ok σ (u := [g]) (v := w) ?_ (ih hW)
    rw [value_singleton] at hG ⊢
    obtain ⟨Gi, hGi, g1, _⟩ := hc g G hG
    rw [genM_ok_iff] at hG hGi ⊢
    obtain ⟨D, hD, rfl⟩ := hG
    obtain ⟨Di, hDi, rfl⟩ := hGi
    obtain ⟨Ai, B, hAi, hB, hσg⟩ := (hg g).2 D ((gen_ok_iff _ _ _).2 hD)
    rw [gen_ok_iff, hDi] at hAi
    cases hAi
    exact ⟨B, (gen_ok_iff _ _ _).1 hσg, hh D Di B hB g1⟩

/-- the composed representation keeps the dict invariant (so derived representations can be
derived again) -/
theorem compose_coherent {h : DMat n n R → DMat n n R → M? (DMat m m S)} {ρ : Rep n R} {σ : Rep m S}
    (H : Matrix (Fin n) (Fin n) R → Matrix (Fin m) (Fin m) S)
    (hone : H 1 = 1) (hmul : ∀ A B, H (A * B) = H A * H B)
    (hh : ∀ A Ai B, h A Ai = .ok B → A.toMatrix * Ai.toMatrix = 1 → B.toMatrix = H A.toMatrix)
    (hwf : ρ.WF) (hσ : ρ.compose h = .ok σ) : σ.WF := by
  obtain ⟨hinv, _, _, hg⟩ := compose_gen hσ
  have back : ∀ g X, σ.genM g = .ok X → ∃ A, ρ.genM g = .ok A ∧ X = H A := by
    intro g X hX
    rw [genM_ok_iff] at hX
    obtain ⟨D, hD, rfl⟩ := hX
    cases hρ : dget ρ.gens g with
    | none => rw [(hg g).1 hρ] at hD; cases hD
    | some A =>
      refine ⟨A.toMatrix, (genM_ok_iff _ _ _).2 ⟨A, hρ, rfl⟩, ?_⟩
      obtain ⟨Ai, B, hAi, hB, hσg⟩ := (hg g).2 A ((gen_ok_iff _ _ _).2 hρ)
      rw [gen_ok_iff, hD] at hσg
      cases hσg
      obtain ⟨Bi, hBi, b1, _⟩ := hwf.coh g A.toMatrix ((genM_ok_iff _ _ _).2 ⟨A, hρ, rfl⟩)
      rw [genM_ok_iff] at hBi
      obtain ⟨Di, hDi, rfl⟩ := hBi
      rw [gen_ok_iff, hDi] at hAi
      cases hAi
      exact hh A _ D hB b1
  constructor
  · intro g X hX
    obtain ⟨A, hA, rfl⟩ := back g X hX
    obtain ⟨B, hB, h1, h2⟩ := hwf.coh g A hA
    refine ⟨H B, ?_, by rw [← hmul, h1, hone], by rw [← hmul, h2, hone]⟩
    rw [hinv]
    have := compose_value H hone hmul hh hwf.coh hσ (w := [ρ.inv g]) (A := B) (by rw [value_singleton]; exact hB)
    rwa [value_singleton] at this
  · intro g X hX
    obtain ⟨A, hA, rfl⟩ := back g X hX
    rw [hinv]
    exact hwf.invol g A hA

end Rep
end GT.RepW
