import GT.Model.GramSchmidt
import GT.Lemmas.Isometry
import Mathlib.LinearAlgebra.Span.Basic
import Mathlib.Tactic.Positivity
import Mathlib.Tactic.Linarith

open Finset BigOperators Matrix

set_option linter.unusedSectionVars false

namespace GT.GS
open GT.Iso

variable {K : Type*} [Field K] {n : ℕ}

/-! ### bilinearity of `bil` -/

theorem bil_add_left (F : Matrix (Fin n) (Fin n) K) (x y z : Fin n → K) :
    bil F (x + y) z = bil F x z + bil F y z := by unfold bil; rw [add_dotProduct]

theorem bil_sub_left (F : Matrix (Fin n) (Fin n) K) (x y z : Fin n → K) :
    bil F (x - y) z = bil F x z - bil F y z := by unfold bil; rw [sub_dotProduct]

theorem bil_smul_left (F : Matrix (Fin n) (Fin n) K) (c : K) (x z : Fin n → K) :
    bil F (c • x) z = c * bil F x z := by unfold bil; rw [smul_dotProduct, smul_eq_mul]

theorem bil_add_right (F : Matrix (Fin n) (Fin n) K) (x y z : Fin n → K) :
    bil F z (x + y) = bil F z x + bil F z y := by unfold bil; rw [Matrix.mulVec_add, dotProduct_add]

theorem bil_sub_right (F : Matrix (Fin n) (Fin n) K) (x y z : Fin n → K) :
    bil F z (x - y) = bil F z x - bil F z y := by unfold bil; rw [Matrix.mulVec_sub, dotProduct_sub]

theorem bil_smul_right (F : Matrix (Fin n) (Fin n) K) (c : K) (x z : Fin n → K) :
    bil F z (c • x) = c * bil F z x := by
  unfold bil; rw [Matrix.mulVec_smul, dotProduct_smul, smul_eq_mul]

theorem bil_zero_left (F : Matrix (Fin n) (Fin n) K) (z : Fin n → K) : bil F 0 z = 0 := by
  unfold bil; rw [zero_dotProduct]

theorem bil_zero_right (F : Matrix (Fin n) (Fin n) K) (z : Fin n → K) : bil F z 0 = 0 := by
  unfold bil; rw [Matrix.mulVec_zero, dotProduct_zero]

/-- a symmetric matrix gives a symmetric form -/
theorem bil_comm {F : Matrix (Fin n) (Fin n) K} (hF : Fᵀ = F) (x y : Fin n → K) : bil F x y = bil F y x := by
  unfold bil
  rw [Matrix.dotProduct_mulVec, dotProduct_comm, ← Matrix.mulVec_transpose, hF]

theorem bil_minkJ (x y : Fin (n + 1) → K) : bil (minkJ n) x y = mink x y := (mink_eq_dotProduct x y).symm

/-! ### Gram–Schmidt: structure of the loops -/

@[simp] theorem gs_nil (F : Matrix (Fin n) (Fin n) K) : gs F [] = [] := rfl

theorem gs_append_singleton (F : Matrix (Fin n) (Fin n) K) (rows : List (Fin n → K)) (r : Fin n → K) :
    gs F (rows ++ [r]) = gs F rows ++ [gsStep F (gs F rows) r] := by
  unfold gs; rw [List.foldl_append]; rfl

theorem gs_length (F : Matrix (Fin n) (Fin n) K) (rows : List (Fin n → K)) : (gs F rows).length = rows.length := by
  induction rows using List.reverseRecOn with
  | nil => rfl
  | append_singleton rows r ih => rw [gs_append_singleton]; simp [ih]

/-- the first `j` output rows depend only on the first `j` input rows -/
theorem gs_append (F : Matrix (Fin n) (Fin n) K) (pre post : List (Fin n → K)) :
    ∃ tail, gs F (pre ++ post) = gs F pre ++ tail ∧ tail.length = post.length := by
  induction post using List.reverseRecOn with
  | nil => exact ⟨[], by simp, rfl⟩
  | append_singleton post r ih =>
    obtain ⟨tail, h1, h2⟩ := ih
    refine ⟨tail ++ [gsStep F (gs F (pre ++ post)) r], ?_, by simp [h2]⟩
    rw [← List.append_assoc, gs_append_singleton, h1, List.append_assoc]

theorem gs_take (F : Matrix (Fin n) (Fin n) K) (rows : List (Fin n → K)) (j : ℕ) :
    (gs F rows).take j = gs F (rows.take j) := by
  obtain ⟨tail, h1, _⟩ := gs_append F (rows.take j) (rows.drop j)
  rw [List.take_append_drop] at h1
  rw [h1]
  by_cases hj : j ≤ rows.length
  · rw [List.take_append_of_le_length (by rw [gs_length, List.length_take]; omega)]
    rw [List.take_of_length_le (by rw [gs_length, List.length_take]; omega)]
  · push_neg at hj
    rw [List.take_of_length_le (by
      rw [List.length_append, gs_length, List.length_take]
      have : tail.length = (rows.drop j).length := by assumption
      rw [this, List.length_drop]; omega)]
    have : rows.drop j = [] := List.drop_eq_nil_of_le hj.le
    have ht : tail = [] := by
      apply List.eq_nil_of_length_eq_zero
      have : tail.length = (rows.drop j).length := by assumption
      rw [this]; simp [List.drop_eq_nil_of_le hj.le]
    rw [ht, List.append_nil]

/-- invariant of the loop: pairwise orthogonal and non-null -/
def Orth (F : Matrix (Fin n) (Fin n) K) (l : List (Fin n → K)) : Prop :=
  l.Pairwise (fun x y => bil F x y = 0) ∧ ∀ x ∈ l, bil F x x ≠ 0

/-- the inner loop makes the row orthogonal to all earlier (orthogonal, non-null) output rows -/
theorem gsStep_orth {F : Matrix (Fin n) (Fin n) K} (hF : Fᵀ = F) (outs : List (Fin n → K))
    (h : Orth F outs) (r : Fin n → K) : ∀ o ∈ outs, bil F (gsStep F outs r) o = 0 := by
  have key : ∀ (post pre : List (Fin n → K)) (r : Fin n → K), Orth F (pre ++ post) →
      (∀ o ∈ pre, bil F r o = 0) →
      ∀ o ∈ pre ++ post, bil F (post.foldl (fun r o => r - gproj F r o) r) o = 0 := by
    intro post
    induction post with
    | nil => intro pre r _ hr o ho; simpa using hr o (by simpa using ho)
    | cons p post ih =>
      intro pre r hO hr
      have hO' : Orth F ((pre ++ [p]) ++ post) := by simpa using hO
      simp only [List.foldl_cons]
      have := ih (pre ++ [p]) (r - gproj F r p) hO' ?_
      · simpa using this
      · intro o ho
        rcases List.mem_append.1 ho with ho | ho
        · have hpo : bil F o p = 0 := by
            have := hO.1
            rw [List.pairwise_append] at this
            exact this.2.2 o ho p (by simp)
          have hpo' : bil F p o = 0 := by rw [bil_comm hF]; exact hpo
          unfold gproj
          rw [bil_sub_left, bil_smul_left, hr o ho, hpo']; ring
        · have : o = p := by simpa using ho
          subst this
          have hne : bil F o o ≠ 0 := hO.2 o (by simp)
          unfold gproj
          rw [bil_sub_left, bil_smul_left]
          field_simp
          ring
  intro o ho
  exact key outs [] r (by simpa using h) (by simp) o (by simpa using ho)

/-- Gram–Schmidt with a side condition supplied along the way: if, whenever the rows produced so
far are orthogonal and non-null and the new row is orthogonal to them, the new row is non-null,
then all output rows are pairwise orthogonal and non-null -/
theorem gs_orth_of {F : Matrix (Fin n) (Fin n) K} (hF : Fᵀ = F) (rows : List (Fin n → K))
    (H : ∀ pre r post, rows = pre ++ r :: post → Orth F (gs F pre) →
      (∀ o ∈ gs F pre, bil F (gsStep F (gs F pre) r) o = 0) →
      bil F (gsStep F (gs F pre) r) (gsStep F (gs F pre) r) ≠ 0) : Orth F (gs F rows) := by
  induction rows using List.reverseRecOn with
  | nil => exact ⟨List.Pairwise.nil, by simp⟩
  | append_singleton rows r ih =>
    have ih' : Orth F (gs F rows) := ih (fun pre r' post h => H pre r' (post ++ [r]) (by rw [h]; simp))
    have ho := gsStep_orth hF (gs F rows) ih' r
    have hn := H rows r [] rfl ih' ho
    rw [gs_append_singleton]
    refine ⟨?_, ?_⟩
    · rw [List.pairwise_append]
      refine ⟨ih'.1, List.pairwise_singleton _ _, ?_⟩
      intro a ha b hb
      have : b = gsStep F (gs F rows) r := by simpa using hb
      subst this
      rw [bil_comm hF]; exact ho a ha
    · intro x hx
      rcases List.mem_append.1 hx with hx | hx
      · exact ih'.2 x hx
      · have : x = gsStep F (gs F rows) r := by simpa using hx
        subst this; exact hn

/-- `indefinite_orthogonalize` before normalisation: if no intermediate row is null, the output
rows are pairwise orthogonal -/
theorem gs_orth {F : Matrix (Fin n) (Fin n) K} (hF : Fᵀ = F) (rows : List (Fin n → K))
    (hnull : ∀ x ∈ gs F rows, bil F x x ≠ 0) : Orth F (gs F rows) := by
  apply gs_orth_of hF
  intro pre r post h _ _
  apply hnull
  obtain ⟨tail, h1, _⟩ := gs_append F (pre ++ [r]) post
  rw [h, show pre ++ r :: post = (pre ++ [r]) ++ post by simp, h1, gs_append_singleton]
  simp

/-- closure: whatever subspace contains the input rows contains the Gram–Schmidt rows -/
theorem gsStep_mem (F : Matrix (Fin n) (Fin n) K) (P : Submodule K (Fin n → K)) (outs : List (Fin n → K))
    (ho : ∀ o ∈ outs, o ∈ P) (r : Fin n → K) (hr : r ∈ P) : gsStep F outs r ∈ P := by
  unfold gsStep
  induction outs generalizing r with
  | nil => simpa using hr
  | cons o outs ih =>
    simp only [List.foldl_cons]
    apply ih (fun o' ho' => ho o' (List.mem_cons_of_mem _ ho'))
    exact P.sub_mem hr (P.smul_mem _ (ho o (List.mem_cons_self ..)))

theorem gs_mem (F : Matrix (Fin n) (Fin n) K) (P : Submodule K (Fin n → K)) (rows : List (Fin n → K))
    (h : ∀ r ∈ rows, r ∈ P) : ∀ u ∈ gs F rows, u ∈ P := by
  induction rows using List.reverseRecOn with
  | nil => simp
  | append_singleton rows r ih =>
    have ih' := ih (fun r' hr' => h r' (List.mem_append_left _ hr'))
    rw [gs_append_singleton]
    intro u hu
    rcases List.mem_append.1 hu with hu | hu
    · exact ih' u hu
    · have : u = gsStep F (gs F rows) r := by simpa using hu
      subst this
      exact gsStep_mem F P _ ih' r (h r (by simp))

/-- the new row differs from the input row by a combination of earlier output rows -/
theorem gsStep_sub_mem (F : Matrix (Fin n) (Fin n) K) (outs : List (Fin n → K)) (r : Fin n → K) :
    r - gsStep F outs r ∈ Submodule.span K {u | u ∈ outs} := by
  unfold gsStep
  induction outs using List.reverseRecOn with
  | nil => simp
  | append_singleton outs o ih =>
    rw [List.foldl_append]
    simp only [List.foldl_cons, List.foldl_nil]
    set r' := outs.foldl (fun row o => row - gproj F row o) r with hr'
    have hsub : Submodule.span K {u | u ∈ outs} ≤ Submodule.span K {u | u ∈ outs ++ [o]} :=
      Submodule.span_mono (fun u hu => List.mem_append_left _ hu)
    have h1 : r - r' ∈ Submodule.span K {u | u ∈ outs ++ [o]} := hsub ih
    have h2 : gproj F r' o ∈ Submodule.span K {u | u ∈ outs ++ [o]} :=
      Submodule.smul_mem _ _ (Submodule.subset_span (by simp))
    have : r - (r' - gproj F r' o) = (r - r') + gproj F r' o := by abel
    rw [this]; exact Submodule.add_mem _ h1 h2

/-- Gram–Schmidt does not change the span -/
theorem gs_span (F : Matrix (Fin n) (Fin n) K) (rows : List (Fin n → K)) :
    Submodule.span K {u | u ∈ gs F rows} = Submodule.span K {u | u ∈ rows} := by
  induction rows using List.reverseRecOn with
  | nil => simp
  | append_singleton rows r ih =>
    rw [gs_append_singleton]
    have e1 : ∀ (l : List (Fin n → K)) (x : Fin n → K), {u | u ∈ l ++ [x]} = {u | u ∈ l} ∪ {x} := by
      intro l x; ext u; simp [or_comm]
    rw [e1, e1, Submodule.span_union, Submodule.span_union, ih]
    have hd := gsStep_sub_mem F (gs F rows) r
    rw [ih] at hd
    set S := Submodule.span K {u | u ∈ rows}
    set u := gsStep F (gs F rows) r
    apply le_antisymm
    · apply sup_le le_sup_left
      rw [Submodule.span_singleton_le_iff_mem]
      have : u = r - (r - u) := by abel
      rw [this]
      exact Submodule.sub_mem _ (Submodule.mem_sup_right (Submodule.mem_span_singleton_self r))
        (Submodule.mem_sup_left hd)
    · apply sup_le le_sup_left
      rw [Submodule.span_singleton_le_iff_mem]
      have : r = u + (r - u) := by abel
      rw [this]
      exact Submodule.add_mem _ (Submodule.mem_sup_right (Submodule.mem_span_singleton_self u))
        (Submodule.mem_sup_left hd)

/-! ### normalisation -/

section ordered
variable [LinearOrder K] [IsStrictOrderedRing K]

/-- the scale factor `normalize` applies -/
def nfac (r : K → K) (F : Matrix (Fin n) (Fin n) K) (x : Fin n → K) : K :=
  if r |bil F x x| = 0 then 1 else 1 / r |bil F x x|

theorem normalizeVec_eq (r : K → K) (F : Matrix (Fin n) (Fin n) K) (x : Fin n → K) :
    normalizeVec r F x = nfac r F x • x := by
  unfold normalizeVec nfac; split_ifs <;> simp

theorem nfac_ne_zero {r : K → K} (_hr : IsSqrt r) (F : Matrix (Fin n) (Fin n) K) (x : Fin n → K) :
    nfac r F x ≠ 0 := by
  unfold nfac; split_ifs with h
  · exact one_ne_zero
  · exact one_div_ne_zero h

theorem bil_normalizeVec (r : K → K) (F : Matrix (Fin n) (Fin n) K) (x y : Fin n → K) :
    bil F (normalizeVec r F x) (normalizeVec r F y) = nfac r F x * nfac r F y * bil F x y := by
  rw [normalizeVec_eq, normalizeVec_eq, bil_smul_left, bil_smul_right]; ring

/-- after `normalize` a non-null vector has square-norm `+1` or `−1`, the sign of its square-norm -/
theorem bil_normalizeVec_self {r : K → K} (hr : IsSqrt r) (F : Matrix (Fin n) (Fin n) K) (x : Fin n → K)
    (hx : bil F x x ≠ 0) :
    bil F (normalizeVec r F x) (normalizeVec r F x) = if 0 < bil F x x then 1 else -1 := by
  rw [bil_normalizeVec]
  have hpos : 0 < |bil F x x| := abs_pos.2 hx
  have hrp := hr.pos hpos
  have hsq := (hr _ hpos.le).2
  unfold nfac
  rw [if_neg hrp.ne']
  split_ifs with h
  · rw [abs_of_pos h] at hsq hrp ⊢
    calc 1 / r (bil F x x) * (1 / r (bil F x x)) * bil F x x
        = bil F x x / (r (bil F x x) * r (bil F x x)) := by ring
      _ = 1 := by rw [hsq, div_self hx]
  · have hneg : bil F x x < 0 := lt_of_le_of_ne (not_lt.1 h) hx
    rw [abs_of_neg hneg] at hsq hrp ⊢
    calc 1 / r (-bil F x x) * (1 / r (-bil F x x)) * bil F x x
        = bil F x x / (r (-bil F x x) * r (-bil F x x)) := by ring
      _ = -1 := by rw [hsq, div_neg, div_self hx]

theorem normalizeRows_length (r : K → K) (F : Matrix (Fin n) (Fin n) K) (rows : List (Fin n → K)) :
    (normalizeRows r F rows).length = rows.length := by unfold normalizeRows; simp

/-- normalising (by non-zero factors) does not change spans -/
theorem normalizeRows_span {r : K → K} (hr : IsSqrt r) (F : Matrix (Fin n) (Fin n) K) (rows : List (Fin n → K)) :
    Submodule.span K {u | u ∈ normalizeRows r F rows} = Submodule.span K {u | u ∈ rows} := by
  unfold normalizeRows
  apply le_antisymm
  · rw [Submodule.span_le]
    intro u hu
    obtain ⟨x, hx, rfl⟩ := List.mem_map.1 hu
    rw [normalizeVec_eq]
    exact Submodule.smul_mem _ _ (Submodule.subset_span hx)
  · rw [Submodule.span_le]
    intro x hx
    have h1 : normalizeVec r F x ∈ Submodule.span K {u | u ∈ rows.map (normalizeVec r F)} :=
      Submodule.subset_span (List.mem_map.2 ⟨x, hx, rfl⟩)
    have h2 : x = (nfac r F x)⁻¹ • normalizeVec r F x := by
      rw [normalizeVec_eq, smul_smul, inv_mul_cancel₀ (nfac_ne_zero hr F x), one_smul]
    rw [SetLike.mem_coe, h2]
    exact Submodule.smul_mem _ _ h1

end ordered

/-! ### `indefinite_orthogonalize` and `find_isometry` for an arbitrary symmetric form -/

section spec
variable [LinearOrder K] [IsStrictOrderedRing K]

/-- contract of `indefinite_orthogonalize(F, rows)`: same number of rows, pairwise orthogonal,
square-norms `±1` (the sign of the unnormalised row), same flag of spans -/
theorem indefiniteOrthogonalize_spec' {r : K → K} (hr : IsSqrt r) {F : Matrix (Fin n) (Fin n) K} (hF : Fᵀ = F)
    (rows : List (Fin n → K)) (hnull : ∀ x ∈ gs F rows, bil F x x ≠ 0) :
    (indefiniteOrthogonalize r F rows).length = rows.length ∧
    (indefiniteOrthogonalize r F rows).Pairwise (fun a b => bil F a b = 0) ∧
    (∀ y ∈ indefiniteOrthogonalize r F rows, bil F y y = 1 ∨ bil F y y = -1) ∧
    ∀ j, Submodule.span K {u | u ∈ (indefiniteOrthogonalize r F rows).take j}
        = Submodule.span K {u | u ∈ rows.take j} := by
  have hO := gs_orth hF rows hnull
  unfold indefiniteOrthogonalize
  refine ⟨by rw [normalizeRows_length, gs_length], ?_, ?_, ?_⟩
  · unfold normalizeRows
    rw [List.pairwise_map]
    exact hO.1.imp (fun h => by rw [bil_normalizeVec, h, mul_zero])
  · intro y hy
    unfold normalizeRows at hy
    obtain ⟨g, hg, rfl⟩ := List.mem_map.1 hy
    rw [bil_normalizeVec_self hr F g (hO.2 g hg)]
    split_ifs <;> simp
  · intro j
    have : (normalizeRows r F (gs F rows)).take j = normalizeRows r F (gs F (rows.take j)) := by
      unfold normalizeRows; rw [← List.map_take, gs_take]
    rw [this, normalizeRows_span hr, gs_span]

/-- contract of `find_isometry(F, partial)` given a kernel basis `ker` whose rows are
`F`-orthogonal to `partial` (what `utils.kernel(orth_partial @ F)` promises): the rows of the
result are pairwise `F`-orthogonal with square-norms `±1`, and the first `j` rows span the
first `j` rows of `partial` -/
theorem findIsometry_spec' {r : K → K} (hr : IsSqrt r) {F : Matrix (Fin n) (Fin n) K} (hF : Fᵀ = F)
    (partialMap ker : List (Fin n → K))
    (hker : ∀ p ∈ partialMap, ∀ k ∈ ker, bil F p k = 0)
    (hnull : ∀ x ∈ gs F partialMap ++ gs F ker, bil F x x ≠ 0) :
    (findIsometry r F partialMap ker).length = partialMap.length + ker.length ∧
    (findIsometry r F partialMap ker).Pairwise (fun a b => bil F a b = 0) ∧
    (∀ y ∈ findIsometry r F partialMap ker, bil F y y = 1 ∨ bil F y y = -1) ∧
    ∀ j ≤ partialMap.length, Submodule.span K {u | u ∈ (findIsometry r F partialMap ker).take j}
        = Submodule.span K {u | u ∈ partialMap.take j} := by
  obtain ⟨l1, p1, n1, s1⟩ := indefiniteOrthogonalize_spec' hr hF partialMap
    (fun x hx => hnull x (List.mem_append_left _ hx))
  obtain ⟨l2, p2, n2, _⟩ := indefiniteOrthogonalize_spec' hr hF ker
    (fun x hx => hnull x (List.mem_append_right _ hx))
  unfold findIsometry
  refine ⟨by rw [List.length_append, l1, l2], ?_, ?_, ?_⟩
  · rw [List.pairwise_append]
    refine ⟨p1, p2, ?_⟩
    intro a ha b hb
    unfold indefiniteOrthogonalize normalizeRows at ha hb
    obtain ⟨g, hg, rfl⟩ := List.mem_map.1 ha
    obtain ⟨h, hh, rfl⟩ := List.mem_map.1 hb
    rw [bil_normalizeVec]
    have hc : ∀ a ∈ gs F partialMap, ∀ b ∈ gs F ker, bil F a b = 0 := by
      -- cross-orthogonality survives Gram–Schmidt on both sides
      have h1 : ∀ a ∈ gs F partialMap, ∀ b ∈ ker, bil F a b = 0 := by
        intro a ha b hb
        let P : Submodule K (Fin n → K) :=
          { carrier := {u | bil F u b = 0}
            add_mem' := by intro x y hx hy; show bil F (x + y) b = 0; rw [bil_add_left, hx, hy, add_zero]
            zero_mem' := bil_zero_left F b
            smul_mem' := by intro c x hx; show bil F (c • x) b = 0; rw [bil_smul_left, hx, mul_zero] }
        exact gs_mem F P partialMap (fun p hp => hker p hp b hb) a ha
      intro a ha b hb
      let P : Submodule K (Fin n → K) :=
        { carrier := {u | bil F a u = 0}
          add_mem' := by intro x y hx hy; show bil F a (x + y) = 0; rw [bil_add_right, hx, hy, add_zero]
          zero_mem' := bil_zero_right F a
          smul_mem' := by intro c x hx; show bil F a (c • x) = 0; rw [bil_smul_right, hx, mul_zero] }
      exact gs_mem F P ker (fun k hk => h1 a ha k hk) b hb
    rw [hc g hg h hh, mul_zero]
  · intro y hy
    rcases List.mem_append.1 hy with hy | hy
    · exact n1 y hy
    · exact n2 y hy
  · intro j hj
    rw [List.take_append_of_le_length (by rw [l1]; exact hj)]
    exact s1 j

end spec

/-! ### `make_orientation_preserving` -/

/-- negating the last row is left multiplication by `diag(1,…,1,−1)` -/
theorem negLastRow_eq {m : ℕ} (M : Matrix (Fin (m + 1)) (Fin n) K) :
    negLastRow M = Matrix.diagonal (fun i => if i = Fin.last m then (-1 : K) else 1) * M := by
  ext i j
  rw [Matrix.diagonal_mul]
  unfold negLastRow
  simp only [Matrix.of_apply]
  split_ifs <;> simp

theorem det_negLastRow {m : ℕ} (M : Matrix (Fin (m + 1)) (Fin (m + 1)) K) :
    (negLastRow M).det = -M.det := by
  rw [negLastRow_eq, Matrix.det_mul, Matrix.det_diagonal]
  have : ∏ i : Fin (m + 1), (if i = Fin.last m then (-1 : K) else 1) = -1 := by
    rw [Fin.prod_univ_castSucc]
    simp [Fin.castSucc_lt_last, (Fin.castSucc_lt_last _).ne]
  rw [this]; ring

/-- negating the last row does not change a *diagonal* Gram matrix `M F Mᵀ` -/
theorem negLastRow_gram {m : ℕ} (F : Matrix (Fin n) (Fin n) K) (M : Matrix (Fin (m + 1)) (Fin n) K)
    (d : Fin (m + 1) → K) (h : M * F * Mᵀ = Matrix.diagonal d) :
    negLastRow M * F * (negLastRow M)ᵀ = Matrix.diagonal d := by
  rw [negLastRow_eq, Matrix.transpose_mul, Matrix.diagonal_transpose]
  have : Matrix.diagonal (fun i => if i = Fin.last m then (-1 : K) else 1) * M * F *
      (Mᵀ * Matrix.diagonal (fun i => if i = Fin.last m then (-1 : K) else 1))
      = Matrix.diagonal (fun i => if i = Fin.last m then (-1 : K) else 1) * (M * F * Mᵀ) *
        Matrix.diagonal (fun i => if i = Fin.last m then (-1 : K) else 1) := by
    simp only [Matrix.mul_assoc]
  rw [this, h, Matrix.diagonal_mul_diagonal, Matrix.diagonal_mul_diagonal]
  congr 1; funext i; split_ifs <;> ring

theorem makeOriented_spec' [LinearOrder K] [IsStrictOrderedRing K] {m : ℕ}
    (F : Matrix (Fin (m + 1)) (Fin (m + 1)) K) (M : Matrix (Fin (m + 1)) (Fin (m + 1)) K)
    (d : Fin (m + 1) → K) (h : M * F * Mᵀ = Matrix.diagonal d) (hdet : M.det ≠ 0) :
    makeOriented M * F * (makeOriented M)ᵀ = Matrix.diagonal d ∧ 0 < (makeOriented M).det := by
  unfold makeOriented
  split_ifs with hneg
  · exact ⟨negLastRow_gram F M d h, by rw [det_negLastRow]; linarith⟩
  · exact ⟨h, lt_of_le_of_ne (not_lt.1 hneg) hdet.symm⟩

/-! ### execution bridge -/

section exec
variable {K : Type} [Field K] [Inhabited K] {n : ℕ}

theorem gsStepD_toFn (F : Matrix (Fin n) (Fin n) K) (outs : List (DVec n K)) (row : DVec n K) :
    (gsStepD F outs row).toFn = gsStep F (outs.map DVec.toFn) row.toFn := by
  unfold gsStepD gsStep
  induction outs generalizing row with
  | nil => rfl
  | cons o outs ih =>
    simp only [List.foldl_cons, List.map_cons]
    rw [ih, DVec.toFn_ofFn]

theorem gsD_toFn (F : Matrix (Fin n) (Fin n) K) (rows : List (DVec n K)) :
    (gsD F rows).map DVec.toFn = gs F (rows.map DVec.toFn) := by
  induction rows using List.reverseRecOn with
  | nil => rfl
  | append_singleton rows r ih =>
    have : gsD F (rows ++ [r]) = gsD F rows ++ [gsStepD F (gsD F rows) r] := by
      unfold gsD; rw [List.foldl_append]; rfl
    rw [this]
    simp only [List.map_append, List.map_cons, List.map_nil]
    rw [gs_append_singleton, ← ih, gsStepD_toFn]

end exec

end GT.GS
