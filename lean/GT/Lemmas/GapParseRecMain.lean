/- the record loop parses every well-formed rendered record (all nesting depths) -/
import GT.Lemmas.GapParseRec

namespace GT.Gap

/-- how far `parse_contents` reports to have read for a value followed by `k` whitespace
characters and a terminator -/
def consumed : Syn → Nat → Nat
  | .bare pre s, k => pre.length + s.length + k + 1
  | .record pre fields post, _ => (Syn.record pre fields post).render.length + 1
  | v, _ => v.render.length

/-- a field value: whatever follows it is whitespace `W` and then `,` or `)` -/
def Cspec (v : Syn) : Prop :=
  ∀ (fuel : Nat) (t : List Char) (i : Nat) (W rest' : List Char) (term : Char),
    v.WF false → AllWs W → (term = ',' ∨ term = ')') →
    t.drop i = v.render ++ (W ++ term :: rest') →
    2 * t.length + 2 ≤ fuel + 2 * i →
    contentsLoop fuel t i [] = .ok (v.denote, i + consumed v W.length)

/-- after a field value: whitespace, the remaining fields, whitespace, `)` -/
def RTspec (fields : SynFields) : Prop :=
  ∀ (fuel : Nat) (t : List Char) (i : Nat) (w post more name : List Char) (acc : List (List Char × GVal)),
    fields.WF → AllWs w → AllWs post →
    t.drop i = w ++ (fields.renderTail ++ (post ++ ')' :: more)) →
    2 * t.length + 2 ≤ fuel + 2 * i →
    recordLoop fuel t i name acc
      = .ok (fields.denote acc, i + (w ++ (fields.renderTail ++ post)).length + 2)

/-- from the start of a record body -/
def Rspec (fields : SynFields) : Prop :=
  ∀ (fuel : Nat) (t : List Char) (i : Nat) (post more : List Char) (acc : List (List Char × GVal)),
    fields.WF → AllWs post →
    t.drop i = fields.render ++ (post ++ ')' :: more) →
    2 * t.length + 2 ≤ fuel + 2 * i →
    recordLoop fuel t i [] acc
      = .ok (fields.denote acc, i + (fields.render ++ post).length + 2)

theorem RTspec_nil : RTspec .nil := by
  intro fuel t i w post more name acc _ hw hp h hb
  simp only [SynFields.renderTail, List.nil_append] at h ⊢
  rw [recordLoop_skip_ws w hw fuel t i _ name acc h hb]
  have h1 := drop_add_of_drop h
  rw [recordLoop_skip_ws post hp _ t _ _ name acc h1 (by omega)]
  have h2 := drop_add_of_drop h1
  have hlen := len_of_drop h2 (by simp)
  obtain ⟨f, hf⟩ : ∃ f, fuel - w.length - post.length = f + 1 :=
    ⟨fuel - w.length - post.length - 1, by simp at hlen; omega⟩
  rw [hf, recordLoop_close h2]
  simp [SynFields.denote]; omega

/-- split what follows a field value into whitespace and a terminator -/
theorem rec_tail_split (after : List Char) (ha : AllWs after) (rest : SynFields) (post more : List Char)
    (hp : AllWs post) :
    ∃ W term rest', after ++ (rest.renderTail ++ (post ++ ')' :: more)) = W ++ term :: rest' ∧
      AllWs W ∧ (term = ',' ∨ term = ')') ∧
      ((rest = .nil ∧ W = after ++ post ∧ term = ')' ∧ rest' = more) ∨
       (∃ a b c v d r, rest = .cons a b c v d r ∧ W = after ∧ term = ',')) := by
  cases rest with
  | nil =>
    refine ⟨after ++ post, ')', more, by simp [SynFields.renderTail], ?_, Or.inr rfl, Or.inl ⟨rfl, rfl, rfl, rfl⟩⟩
    intro c hc
    rcases List.mem_append.1 hc with h | h
    · exact ha c h
    · exact hp c h
  | cons a b c v d r =>
    exact ⟨after, ',', a ++ (b ++ (c ++ ':' :: '=' :: (v.render ++ (d ++ r.renderTail)))) ++ (post ++ ')' :: more),
      by simp [SynFields.renderTail], ha, Or.inl rfl, Or.inr ⟨a, b, c, v, d, r, rfl, rfl, rfl⟩⟩

theorem Cspec_bare (pre s : List Char) : Cspec (.bare pre s) := by
  intro fuel t i W rest' term hv hW ht h hb
  simp only [Syn.WF] at hv
  obtain ⟨hpre, hne, hbare, _, lv, hl⟩ := hv
  simp only [Syn.render, List.append_assoc] at h
  rw [contentsLoop_skip_ws pre hpre fuel t i _ [] h hb]
  have h1 := drop_add_of_drop h
  rw [contentsLoop_scan_bare s hbare _ t _ W rest' [] term hW ht h1 (by omega)]
  have h2 := drop_add_of_drop h1
  rw [contentsLoop_skip_ws W hW _ t _ _ _ h2 (by omega)]
  have h3 := drop_add_of_drop h2
  have hlen := len_of_drop h3 (by simp)
  obtain ⟨f, hf⟩ : ∃ f, fuel - pre.length - s.length - W.length = f + 1 :=
    ⟨fuel - pre.length - s.length - W.length - 1, by simp at hlen; omega⟩
  rw [hf, contentsLoop_term h3 ht (by simpa using hl)]
  simp [Syn.denote, litVal_of_literal hl, consumed]; omega

theorem Cspec_quoted (pre s : List Char) : Cspec (.quoted pre s) := by
  intro fuel t i W rest' term hv hW ht h hb
  simp only [Syn.WF] at hv
  obtain ⟨hpre, hq⟩ := hv
  simp only [Syn.render, List.append_assoc, List.cons_append, List.nil_append] at h
  rw [contentsLoop_skip_ws pre hpre fuel t i _ [] h hb]
  have h1 := drop_add_of_drop h
  have hlen := len_of_drop h1 (by simp)
  obtain ⟨f, hf⟩ : ∃ f, fuel - pre.length = f + 1 := ⟨fuel - pre.length - 1, by simp at hlen; omega⟩
  rw [hf, contentsLoop_quote h1 hq]
  simp [Syn.denote, consumed, Syn.render]; omega

theorem Cspec_interval (pre : List Char) (na : Bool) (da : List Char) (nb : Bool) (db : List Char) :
    Cspec (.interval pre na da nb db) := by
  intro fuel t i W rest' term hv hW ht h hb
  simp only [Syn.WF] at hv
  obtain ⟨hpre, ha, hbb, hda, hdb, hle⟩ := hv
  simp only [Syn.render, List.append_assoc, List.cons_append, List.nil_append] at h
  rw [contentsLoop_skip_ws pre hpre fuel t i _ [] h hb]
  have h1 := drop_add_of_drop h
  have hlen := len_of_drop h1 (by simp)
  obtain ⟨f, hf⟩ : ∃ f, fuel - pre.length = f + 1 + 1 := ⟨fuel - pre.length - 2, by simp at hlen; omega⟩
  rw [hf, contentsLoop_open h1 [] (parseList_interval f na nb da db _ ha hbb hda hdb hle)]
  simp [Syn.denote, consumed, Syn.render]; omega

theorem Cspec_list (pre : List Char) (items : SynItems) (post : List Char) :
    Cspec (.list pre items post) := by
  intro fuel t i W rest' term hv hW ht h hb
  simp only [Syn.WF] at hv
  obtain ⟨hpre, hpost, hitems⟩ := hv
  simp only [Syn.render, List.append_assoc, List.cons_append, List.nil_append] at h
  rw [contentsLoop_skip_ws pre hpre fuel t i _ [] h hb]
  have h1 := drop_add_of_drop h
  have hlen := len_of_drop h1 (by simp)
  obtain ⟨f, hf⟩ : ∃ f, fuel - pre.length = f + 1 := ⟨fuel - pre.length - 1, by simp at hlen; omega⟩
  have hp' := parseList_render items hitems post (W ++ term :: rest') hpost f
    (by simp at hlen ⊢; omega)
  rw [hf, contentsLoop_open h1 [] hp']
  simp [Syn.denote, consumed, Syn.render]; omega

theorem Cspec_record {pre post : List Char} {fields : SynFields} (hR : Rspec fields) :
    Cspec (.record pre fields post) := by
  intro fuel t i W rest' term hv hW ht h hb
  simp only [Syn.WF] at hv
  obtain ⟨_, hpre, hpost, hfields⟩ := hv
  simp only [Syn.render, List.append_assoc, List.cons_append, List.nil_append] at h
  rw [contentsLoop_skip_ws pre hpre fuel t i _ [] h hb]
  have h1 := drop_add_of_drop h
  have hlen := len_of_drop h1 (by simp)
  obtain ⟨f, hf⟩ : ∃ f, fuel - pre.length = f + 1 := ⟨fuel - pre.length - 1, by simp at hlen; omega⟩
  have hp' := hR f (fields.render ++ (post ++ ')' :: (W ++ term :: rest'))) 0 post (W ++ term :: rest') []
    hfields hpost (by simp) (by simp at hlen ⊢; omega)
  rw [hf, contentsLoop_rec h1 (by simp) [] hp']
  simp [Syn.denote, consumed, Syn.render]; omega

end GT.Gap

namespace GT.Gap

theorem consumed_pos (v : Syn) (k : Nat) : 1 ≤ consumed v k := by
  cases v <;> simp [consumed, Syn.render] <;> omega

/-- where the record loop picks up after a field value, and what it does from there -/
theorem resume {v : Syn} {after : List Char} {rest : SynFields} (hRT : RTspec rest)
    (f : Nat) (t : List Char) (i3 : Nat) (post more name : List Char) (acc : List (List Char × GVal))
    (hv : v.WF false) (ha : AllWs after) (hr : rest.WF) (hp : AllWs post)
    (h3 : t.drop i3 = ':' :: '=' :: (v.render ++ (after ++ (rest.renderTail ++ (post ++ ')' :: more)))))
    (hb : 2 * t.length + 1 ≤ f + 2 * i3)
    {W rest' : List Char} {term : Char}
    (hsplit : after ++ (rest.renderTail ++ (post ++ ')' :: more)) = W ++ term :: rest')
    (hinfo : (rest = .nil ∧ W = after ++ post ∧ term = ')' ∧ rest' = more) ∨
       (∃ a b c v' d r, rest = .cons a b c v' d r ∧ W = after ∧ term = ',')) :
    recordLoop f t (i3 + consumed v W.length + 1) name acc
      = .ok (rest.denote acc, i3 + 2 + (v.render ++ (after ++ (rest.renderTail ++ post))).length + 2) := by
  have hP : t.drop (i3 + 2) = v.render ++ (after ++ (rest.renderTail ++ (post ++ ')' :: more))) :=
    tl_of_drop (tl_of_drop h3)
  have hlenP := len_of_drop h3 (by simp)
  -- values whose last character is re-read as a (junk) name character
  have junk : ∀ (ini : List Char) (last : Char), v.render = ini ++ [last] → isNameChar last = true →
      consumed v W.length = v.render.length →
      recordLoop f t (i3 + consumed v W.length + 1) name acc
        = .ok (rest.denote acc, i3 + 2 + (v.render ++ (after ++ (rest.renderTail ++ post))).length + 2) := by
    intro ini last hren hlast hcons
    have h4 : t.drop (i3 + 2 + ini.length) = last :: (after ++ (rest.renderTail ++ (post ++ ')' :: more))) := by
      have : t.drop (i3 + 2) = ini ++ (last :: (after ++ (rest.renderTail ++ (post ++ ')' :: more)))) := by
        rw [hP, hren]; simp
      exact drop_add_of_drop this
    have hidx : i3 + consumed v W.length + 1 = i3 + 2 + ini.length := by
      rw [hcons, hren]; simp; omega
    have hlen4 := len_of_drop h4 (by simp)
    obtain ⟨g, rfl⟩ : ∃ g, f = g + 1 := ⟨f - 1, by simp at hlen4; omega⟩
    rw [hidx, recordLoop_step_name h4 hlast]
    have h5 := tl_of_drop h4
    rw [hRT g t _ after post more _ acc hr ha hp h5 (by simp at hlen4; omega)]
    rw [hren]; simp; omega
  cases v with
  | bare pre s =>
    have h4 : t.drop (i3 + 2 + (pre ++ s ++ W).length) = term :: rest' := by
      have : t.drop (i3 + 2) = (pre ++ s ++ W) ++ (term :: rest') := by
        rw [hP, hsplit]; simp [Syn.render]
      exact drop_add_of_drop this
    have hidx : i3 + consumed (.bare pre s) W.length + 1 = i3 + 2 + (pre ++ s ++ W).length := by
      simp [consumed]; omega
    rw [hidx]
    rcases hinfo with ⟨rfl, rfl, rfl, rfl⟩ | ⟨a, b, c, v', d, r, rfl, rfl, rfl⟩
    · have := RTspec_nil f t (i3 + 2 + (pre ++ s ++ (after ++ post)).length) [] [] rest' name acc trivial
        (by intro c hc; cases hc) (by intro c hc; cases hc)
        (by simp only [SynFields.renderTail, List.nil_append]; exact h4)
        (by have := len_of_drop h4 (by simp); omega)
      rw [this]
      simp [SynFields.denote, SynFields.renderTail, Syn.render]
    · have h4' : t.drop (i3 + 2 + (pre ++ s ++ W).length)
          = [] ++ ((SynFields.cons a b c v' d r).renderTail ++ (post ++ ')' :: more)) := by
        rw [h4]
        have := hsplit
        simp only [SynFields.renderTail, List.cons_append, List.append_assoc] at this ⊢
        have h' := List.append_cancel_left this
        simpa using h'.symm
      rw [hRT f t _ [] post more name acc hr (by intro c hc; cases hc) hp h4'
        (by have := len_of_drop h4 (by simp); omega)]
      simp [Syn.render]; omega
  | quoted pre s =>
    simp only [Syn.WF] at hv
    exact junk (pre ++ '"' :: s) '"' (by simp [Syn.render]) (by decide) (by simp [consumed])
  | interval pre na da nb db =>
    exact junk (pre ++ '[' :: (signed na da ++ '.' :: '.' :: signed nb db)) ']'
      (by simp [Syn.render]) (by decide) (by simp [consumed])
  | list pre items post' =>
    exact junk (pre ++ '[' :: (items.render ++ post')) ']'
      (by simp [Syn.render]) (by decide) (by simp [consumed])
  | record pre fields post' =>
    have h4 : t.drop (i3 + 2 + (Syn.record pre fields post').render.length)
        = after ++ (rest.renderTail ++ (post ++ ')' :: more)) := drop_add_of_drop hP
    have hidx : i3 + consumed (.record pre fields post') W.length + 1
        = i3 + 2 + (Syn.record pre fields post').render.length := by
      simp [consumed]; omega
    rw [hidx, hRT f t _ after post more name acc hr ha hp h4
      (by
        have h1 : (t.drop (i3 + 2 + (Syn.record pre fields post').render.length)).length
            = (after ++ (rest.renderTail ++ (post ++ ')' :: more))).length := by rw [h4]
        rw [List.length_drop] at h1
        simp at h1 hlenP
        omega)]
    simp; omega

end GT.Gap

namespace GT.Gap

/-- one field `wsName name wsAssign := value after`, starting with an empty name accumulator -/
theorem field_step {wsName name wsAssign after : List Char} {v : Syn} {rest : SynFields}
    (hC : Cspec v) (hRT : RTspec rest)
    (fuel : Nat) (t : List Char) (i : Nat) (post more : List Char) (acc : List (List Char × GVal))
    (h1 : AllWs wsName) (h2 : AllWs wsAssign) (hn : ∀ c ∈ name, isNameChar c = true)
    (hv : v.WF false) (ha : AllWs after) (hr : rest.WF) (hp : AllWs post)
    (h : t.drop i = wsName ++ (name ++ (wsAssign ++ ':' :: '=' ::
        (v.render ++ (after ++ (rest.renderTail ++ (post ++ ')' :: more)))))))
    (hb : 2 * t.length + 2 ≤ fuel + 2 * i) :
    recordLoop fuel t i [] acc
      = .ok (rest.denote (setField acc name v.denote),
          i + (wsName ++ (name ++ (wsAssign ++ ':' :: '=' ::
            (v.render ++ (after ++ (rest.renderTail ++ post)))))).length + 2) := by
  rw [recordLoop_skip_ws wsName h1 fuel t i _ [] acc h hb]
  have e1 := drop_add_of_drop h
  rw [recordLoop_scan_name name hn _ t _ _ [] acc e1 (by omega)]
  have e2 := drop_add_of_drop e1
  rw [recordLoop_skip_ws wsAssign h2 _ t _ _ _ acc e2 (by omega)]
  have e3 := drop_add_of_drop e2
  have hlen := len_of_drop e3 (by simp)
  obtain ⟨f, hf⟩ : ∃ f, fuel - wsName.length - name.length - wsAssign.length = f + 1 :=
    ⟨fuel - wsName.length - name.length - wsAssign.length - 1, by simp at hlen; omega⟩
  obtain ⟨W, term, rest', hsplit, hW, hterm, hinfo⟩ := rec_tail_split after ha rest post more hp
  have hsub : (v.render ++ (after ++ (rest.renderTail ++ (post ++ ')' :: more)))).drop 0
      = v.render ++ (W ++ term :: rest') := by rw [List.drop_zero, hsplit]
  have hc := hC f _ 0 W rest' term hv hW hterm hsub (by simp at hlen ⊢; omega)
  rw [hf, recordLoop_assign e3 _ acc hc]
  simp only [Nat.zero_add, List.nil_append]
  rw [resume hRT f t _ post more name (setField acc name v.denote) hv ha hr hp e3
    (by simp at hlen; omega) hsplit hinfo]
  simp; omega

theorem RTspec_cons {wsName name wsAssign after : List Char} {v : Syn} {rest : SynFields}
    (hC : Cspec v) (hRT : RTspec rest) : RTspec (.cons wsName name wsAssign v after rest) := by
  intro fuel t i w post more nm acc hwf hw hp h hb
  simp only [SynFields.WF] at hwf
  obtain ⟨h1, h2, hn, hv, ha, hr⟩ := hwf
  simp only [SynFields.renderTail, List.cons_append, List.append_assoc] at h ⊢
  rw [recordLoop_skip_ws w hw fuel t i _ nm acc h hb]
  have e1 := drop_add_of_drop h
  have hlen := len_of_drop e1 (by simp)
  obtain ⟨f, hf⟩ : ∃ f, fuel - w.length = f + 1 := ⟨fuel - w.length - 1, by simp at hlen; omega⟩
  rw [hf, recordLoop_comma e1]
  have e2 := tl_of_drop e1
  rw [field_step hC hRT f t _ post more acc h1 h2 hn hv ha hr hp e2 (by omega)]
  simp [SynFields.denote]; omega

theorem Rspec_of {fields : SynFields}
    (hcons : ∀ a b c v d r, fields = .cons a b c v d r → Cspec v ∧ RTspec r) : Rspec fields := by
  intro fuel t i post more acc hwf hp h hb
  cases fields with
  | nil =>
    have := RTspec_nil fuel t i [] post more [] acc trivial (by intro c hc; cases hc) hp
      (by simpa [SynFields.render, SynFields.renderTail] using h) hb
    simpa [SynFields.render, SynFields.renderTail] using this
  | cons a b c v d r =>
    obtain ⟨hC, hRT⟩ := hcons a b c v d r rfl
    simp only [SynFields.WF] at hwf
    obtain ⟨h1, h2, hn, hv, ha, hr⟩ := hwf
    simp only [SynFields.render, List.append_assoc, List.cons_append] at h ⊢
    rw [field_step hC hRT fuel t i post more acc h1 h2 hn hv ha hr hp h hb]
    simp [SynFields.denote]

/-- all record-context specifications, for every nesting depth -/
theorem record_specs : ∀ n,
    (∀ v : Syn, v.size ≤ n → Cspec v) ∧
    (∀ fields : SynFields, fields.size ≤ n → RTspec fields ∧ Rspec fields) := by
  intro n
  induction n with
  | zero =>
    refine ⟨?_, ?_⟩
    · intro v h; have := v.size_pos; omega
    · intro fields h
      cases fields with
      | nil => exact ⟨RTspec_nil, Rspec_of (by intro a b c v d r e; cases e)⟩
      | cons a b c v d r => simp [SynFields.size] at h
  | succ n ih =>
    obtain ⟨ihC, ihF⟩ := ih
    refine ⟨?_, ?_⟩
    · intro v h
      cases v with
      | bare pre s => exact Cspec_bare pre s
      | quoted pre s => exact Cspec_quoted pre s
      | interval pre na da nb db => exact Cspec_interval pre na da nb db
      | list pre items post => exact Cspec_list pre items post
      | record pre fields post =>
        simp only [Syn.size] at h
        exact Cspec_record (ihF fields (by omega)).2
    · intro fields h
      cases fields with
      | nil => exact ⟨RTspec_nil, Rspec_of (by intro a b c v d r e; cases e)⟩
      | cons a b c v d r =>
        simp only [SynFields.size] at h
        have hC := ihC v (by omega)
        have hRT := (ihF r (by omega)).1
        refine ⟨RTspec_cons hC hRT, Rspec_of ?_⟩
        intro a' b' c' v' d' r' e
        cases e
        exact ⟨hC, hRT⟩

/-- **`parse_contents` is correct on every well-formed value**, any nesting depth: on the
rendered text of `v` followed by whitespace and `,` or `)` it returns the denoted value -/
theorem parseContents_render (v : Syn) (hv : v.WF false) (W rest' : List Char) (term : Char)
    (hW : AllWs W) (ht : term = ',' ∨ term = ')') (fuel : Nat)
    (hf : 2 * (v.render ++ (W ++ term :: rest')).length + 2 ≤ fuel) :
    parseContents fuel (v.render ++ (W ++ term :: rest')) = .ok (v.denote, consumed v W.length) := by
  have := (record_specs v.size).1 v (Nat.le_refl _) fuel (v.render ++ (W ++ term :: rest')) 0 W rest' term
    hv hW ht (by simp) (by omega)
  simpa [parseContents] using this

end GT.Gap

namespace GT.Gap

/-- a nested record as a field value, whatever follows it -/
theorem contents_record_any {pre post : List Char} {fields : SynFields}
    (fuel : Nat) (t : List Char) (i : Nat) (X : List Char)
    (hv : (Syn.record pre fields post).WF false)
    (h : t.drop i = (Syn.record pre fields post).render ++ X)
    (hb : 2 * t.length + 2 ≤ fuel + 2 * i) :
    contentsLoop fuel t i []
      = .ok ((Syn.record pre fields post).denote, i + ((Syn.record pre fields post).render.length + 1)) := by
  have hR : Rspec fields := ((record_specs fields.size).2 fields (Nat.le_refl _)).2
  simp only [Syn.WF] at hv
  obtain ⟨_, hpre, hpost, hfields⟩ := hv
  simp only [Syn.render, List.append_assoc, List.cons_append, List.nil_append] at h
  rw [contentsLoop_skip_ws pre hpre fuel t i _ [] h hb]
  have h1 := drop_add_of_drop h
  have hlen := len_of_drop h1 (by simp)
  obtain ⟨f, hf⟩ : ∃ f, fuel - pre.length = f + 1 := ⟨fuel - pre.length - 1, by simp at hlen; omega⟩
  have hp' := hR f (fields.render ++ (post ++ ')' :: X)) 0 post X []
    hfields hpost (by simp) (by simp at hlen ⊢; omega)
  rw [hf, contentsLoop_rec h1 (by simp) [] hp']
  simp [Syn.denote, Syn.render]; omega

/-- characters after the top-level record (`;`, newline, …): skipped or swallowed into the name -/
def Harmless (trailer : List Char) : Prop := ∀ c ∈ trailer, isWs c = true ∨ isNameChar c = true

theorem recordLoop_trailer : ∀ (trailer : List Char), Harmless trailer →
    ∀ (fuel : Nat) (t : List Char) (i : Nat) (name : List Char) (fs : List (List Char × GVal)),
    t.drop i = trailer → i ≤ t.length → 2 * t.length + 2 ≤ fuel + 2 * i →
    recordLoop fuel t i name fs = .ok (fs, t.length + 1) := by
  intro trailer
  induction trailer with
  | nil =>
    intro _ fuel t i name fs h hi hb
    have hlen : t.length ≤ i := by
      have := congrArg List.length h
      simp at this; omega
    obtain ⟨f, rfl⟩ : ∃ f, fuel = f + 1 := ⟨fuel - 1, by omega⟩
    rw [recordLoop_eof hlen]
    have : i = t.length := by omega
    rw [this]
  | cons c tr ih =>
    intro hh fuel t i name fs h hi hb
    have hlen := len_of_drop h (by simp)
    obtain ⟨f, rfl⟩ : ∃ f, fuel = f + 1 := ⟨fuel - 1, by simp at hlen; omega⟩
    have htl := tl_of_drop h
    rcases hh c (by simp) with hc | hc
    · rw [recordLoop_step_ws h hc]
      exact ih (fun d hd => hh d (by simp [hd])) f t (i + 1) name fs htl (by simp at hlen; omega) (by omega)
    · rw [recordLoop_step_name h hc]
      exact ih (fun d hd => hh d (by simp [hd])) f t (i + 1) _ fs htl (by simp at hlen; omega) (by omega)

/-- **a whole kbmag file** `name := rec( … ) trailer` -/
theorem parseRecord_file (wsName name wsAssign pre post trailer : List Char) (fields : SynFields)
    (h1 : AllWs wsName) (h2 : AllWs wsAssign) (hn : ∀ c ∈ name, isNameChar c = true)
    (hv : (Syn.record pre fields post).WF false) (htr : Harmless trailer) :
    parseRecord (wsName ++ (name ++ (wsAssign ++ ':' :: '=' :: ((Syn.record pre fields post).render ++ trailer))))
      = .ok ([(name, (Syn.record pre fields post).denote)],
          (wsName ++ (name ++ (wsAssign ++ ':' :: '=' :: ((Syn.record pre fields post).render ++ trailer)))).length + 1) := by
  generalize hT : wsName ++ (name ++ (wsAssign ++ ':' :: '=' :: ((Syn.record pre fields post).render ++ trailer))) = T
  unfold parseRecord
  have h0 : T.drop 0 = wsName ++ (name ++ (wsAssign ++ ':' :: '=' :: ((Syn.record pre fields post).render ++ trailer))) := by
    rw [List.drop_zero, hT]
  rw [recordLoop_skip_ws wsName h1 _ T 0 _ [] [] h0 (by omega)]
  have e1 := drop_add_of_drop h0
  rw [recordLoop_scan_name name hn _ T _ _ [] [] e1 (by omega)]
  have e2 := drop_add_of_drop e1
  rw [recordLoop_skip_ws wsAssign h2 _ T _ _ _ [] e2 (by omega)]
  have e3 := drop_add_of_drop e2
  have hlen := len_of_drop e3 (by simp)
  obtain ⟨f, hf⟩ : ∃ f, 2 * T.length + 4 - wsName.length - name.length - wsAssign.length = f + 1 :=
    ⟨2 * T.length + 4 - wsName.length - name.length - wsAssign.length - 1, by omega⟩
  have hc := contents_record_any f ((Syn.record pre fields post).render ++ trailer) 0 trailer hv (by simp)
    (by simp at hlen ⊢; omega)
  rw [hf, recordLoop_assign e3 _ [] hc]
  have e4 : T.drop (0 + wsName.length + name.length + wsAssign.length
      + (0 + ((Syn.record pre fields post).render.length + 1)) + 1) = trailer := by
    have e3' : T.drop (0 + wsName.length + name.length + wsAssign.length)
        = (':' :: '=' :: (Syn.record pre fields post).render) ++ trailer := by simpa using e3
    have := drop_add_of_drop e3'
    have e : 0 + wsName.length + name.length + wsAssign.length + (':' :: '=' :: (Syn.record pre fields post).render).length
        = 0 + wsName.length + name.length + wsAssign.length + (0 + ((Syn.record pre fields post).render.length + 1)) + 1 := by
      simp; omega
    rwa [e] at this
  rw [recordLoop_trailer trailer htr f T _ _ _ e4 (by simp at hlen; omega) (by simp at hlen; omega)]
  simp [setField]

/-! ### `build_dict` -/

theorem setKV_append (d : List (List Char × Nat)) (k : List Char) (v : Nat)
    (h : k ∉ d.map Prod.fst) : setKV d k v = d ++ [(k, v)] := by
  induction d with
  | nil => rfl
  | cons p d ih =>
    obtain ⟨k', v'⟩ := p
    have hne : k' ≠ k := fun e => h (by simp [e])
    have hd : k ∉ d.map Prod.fst := fun e => h (by simp [e])
    simp [setKV, hne, ih hd]

theorem rowDict_fold (ps : List (List Char × Nat)) (acc : List (List Char × Nat))
    (hnd : (ps.map Prod.fst).Nodup) (hdis : ∀ k ∈ ps.map Prod.fst, k ∉ acc.map Prod.fst) :
    ps.foldl (fun d p => if p.2 != 0 then setKV d p.1 p.2 else d) acc
      = acc ++ ps.filter (fun p => p.2 != 0) := by
  induction ps generalizing acc with
  | nil => simp
  | cons p ps ih =>
    obtain ⟨k, v⟩ := p
    simp only [List.map_cons, List.nodup_cons] at hnd
    simp only [List.foldl_cons]
    by_cases hv : (v != 0) = true
    · have hk : k ∉ acc.map Prod.fst := hdis k (by simp)
      simp only [hv, if_true, List.filter_cons_of_pos]
      rw [setKV_append acc k v hk, ih _ hnd.2]
      · simp
      · intro k' hk' hmem
        simp only [List.map_append, List.map_cons, List.map_nil, List.mem_append, List.mem_singleton] at hmem
        rcases hmem with hmem | rfl
        · exact hdis k' (by simp [hk']) hmem
        · exact hnd.1 hk'
    · simp only [hv, Bool.false_eq_true, if_false]
      rw [List.filter_cons_of_neg (by simpa using hv), ih _ hnd.2]
      intro k' hk'
      exact hdis k' (by simp [hk'])

end GT.Gap
