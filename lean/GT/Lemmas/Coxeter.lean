/-
Helper lemmas for `GT.Properties.C08` (never property statements).
-/
import GT.Model.Coxeter
import Mathlib.Algebra.Ring.GeomSum
import Mathlib.Tactic.Module
import Mathlib.Tactic.Ring
import Mathlib.Tactic.Abel
import Mathlib.Tactic.NoncommRing
import Mathlib.Tactic.LinearCombination
import Mathlib.LinearAlgebra.Matrix.SchurComplement
import Mathlib.Analysis.SpecialFunctions.Trigonometric.Basic
import Mathlib.Tactic.FieldSimp
import Mathlib.Tactic.Linarith
import Mathlib.Tactic.FinCases

namespace GT.Cox

open Matrix Finset

variable {R : Type*} [CommRing R] {n : ℕ}

/-- the reflection acts on column vectors by `v ↦ v - (C_i · v) e_i` -/
theorem refl_mulVec (C : Matrix (Fin n) (Fin n) R) (i : Fin n) (v : Fin n → R) :
    (refl C i) *ᵥ v = v - (C i ⬝ᵥ v) • Pi.single i 1 := by
  unfold refl
  rw [sub_mulVec, one_mulVec, ← mulVec_mulVec]
  congr 1
  funext a
  rw [mulVec_diagonal]
  by_cases h : a = i
  · subst h; simp [mulVec]
  · simp [h]

theorem row_dot_single (C : Matrix (Fin n) (Fin n) R) (i j : Fin n) :
    C i ⬝ᵥ (Pi.single j 1) = C i j := dotProduct_single_one _ _

theorem P_mulVec (C : Matrix (Fin n) (Fin n) R) (i j : Fin n) (v : Fin n → R) :
    (refl C i * refl C j) *ᵥ v
      = v - (C j ⬝ᵥ v) • Pi.single j 1 - (C i ⬝ᵥ v - (C j ⬝ᵥ v) * C i j) • Pi.single i 1 := by
  rw [← mulVec_mulVec, refl_mulVec C j, refl_mulVec C i, dotProduct_sub, dotProduct_smul,
    row_dot_single, smul_eq_mul]

theorem refl_sq' (C : Matrix (Fin n) (Fin n) R) (i : Fin n) (h : C i i = 2) :
    refl C i * refl C i = 1 := by
  apply mulVec_injective
  funext v
  rw [P_mulVec, h, one_mulVec]
  module

theorem P_ei (C : Matrix (Fin n) (Fin n) R) (i j : Fin n) (hi : C i i = 2) :
    (refl C i * refl C j) *ᵥ (Pi.single i 1)
      = (C i j * C j i - 1) • Pi.single i 1 - C j i • Pi.single j 1 := by
  rw [P_mulVec, row_dot_single, row_dot_single, hi]
  module

theorem P_ej (C : Matrix (Fin n) (Fin n) R) (i j : Fin n) (hj : C j j = 2) :
    (refl C i * refl C j) *ᵥ (Pi.single j 1)
      = C i j • Pi.single i 1 - Pi.single j 1 := by
  rw [P_mulVec, row_dot_single, row_dot_single, hj]
  module

theorem quad_mulVec (P : Matrix (Fin n) (Fin n) R) (t : R) (v : Fin n → R) :
    quad P t *ᵥ v = P *ᵥ (P *ᵥ v) - t • (P *ᵥ v) + v := by
  unfold quad
  rw [add_mulVec, sub_mulVec, one_mulVec, smul_mulVec, mulVec_mulVec]

theorem quad_ei (C : Matrix (Fin n) (Fin n) R) (i j : Fin n) (hi : C i i = 2) (hj : C j j = 2) :
    quad (refl C i * refl C j) (C i j * C j i - 2) *ᵥ (Pi.single i 1) = 0 := by
  rw [quad_mulVec, P_ei C i j hi, mulVec_sub, mulVec_smul, mulVec_smul, P_ei C i j hi, P_ej C i j hj]
  module

theorem quad_ej (C : Matrix (Fin n) (Fin n) R) (i j : Fin n) (hi : C i i = 2) (hj : C j j = 2) :
    quad (refl C i * refl C j) (C i j * C j i - 2) *ᵥ (Pi.single j 1) = 0 := by
  rw [quad_mulVec, P_ej C i j hj, mulVec_sub, mulVec_smul, P_ei C i j hi, P_ej C i j hj]
  module

theorem braid_core' (C : Matrix (Fin n) (Fin n) R) (i j : Fin n) (hi : C i i = 2) (hj : C j j = 2) :
    quad (refl C i * refl C j) (C i j * C j i - 2) * (refl C i * refl C j - 1) = 0 := by
  apply mulVec_injective
  funext v
  rw [← mulVec_mulVec, sub_mulVec, one_mulVec, P_mulVec]
  have : v - (C j ⬝ᵥ v) • Pi.single j 1 - (C i ⬝ᵥ v - (C j ⬝ᵥ v) * C i j) • Pi.single i 1 - v
      = (-(C j ⬝ᵥ v)) • Pi.single j 1 + (-(C i ⬝ᵥ v - (C j ⬝ᵥ v) * C i j)) • Pi.single i 1 := by
    module
  rw [this, mulVec_add, mulVec_smul, mulVec_smul, quad_ei C i j hi hj, quad_ej C i j hi hj]
  simp

/-- from the cubic relation: `P^k (P-1) = v_{k+1}·P(P-1) - v_k·(P-1)` -/
theorem pow_mul_Q (P : Matrix (Fin n) (Fin n) R) (t : R) (h : quad P t * (P - 1) = 0) :
    ∀ k : ℕ, P ^ k * (P - 1) = cheb t (k + 1) • (P * (P - 1)) - cheb t k • (P - 1)
  | 0 => by simp [cheb]
  | 1 => by simp [cheb]
  | (k + 2) => by
    have h2 : P * P * (P - 1) = t • (P * (P - 1)) - (P - 1) := by
      unfold quad at h
      rw [add_mul, sub_mul, one_mul, smul_mul_assoc] at h
      have := eq_neg_of_add_eq_zero_left h
      rw [sub_eq_iff_eq_add] at this
      rw [this]; abel
    have e : P ^ (k + 2) * (P - 1) = t • (P ^ (k + 1) * (P - 1)) - P ^ k * (P - 1) := by
      rw [pow_add, mul_assoc, pow_two, h2, mul_sub, mul_smul_comm, ← mul_assoc, ← pow_succ]
    rw [e, pow_mul_Q P t h (k + 1), pow_mul_Q P t h k]
    simp only [cheb]
    module

theorem pow_eq_one_of_cheb (P : Matrix (Fin n) (Fin n) R) (t : R) (h : quad P t * (P - 1) = 0)
    (m : ℕ) (h1 : ∑ k ∈ range m, cheb t (k + 1) = 0) (h0 : ∑ k ∈ range m, cheb t k = 0) :
    P ^ m = 1 := by
  have := geom_sum_mul P m
  rw [Finset.sum_mul] at this
  simp_rw [pow_mul_Q P t h] at this
  rw [Finset.sum_sub_distrib, ← Finset.sum_smul, ← Finset.sum_smul, h1, h0] at this
  simp only [zero_smul, sub_zero] at this
  exact (sub_eq_zero.1 this.symm)

theorem E_mul_mul_E (B : Matrix (Fin n) (Fin n) R) (i : Fin n) :
    diagonal (Pi.single i 1) * B * diagonal (Pi.single i (1 : R)) = B i i • diagonal (Pi.single i 1) := by
  rw [diagonal_single, single_mul_mul_single, one_mul, mul_one, smul_single, smul_eq_mul, mul_one]

theorem geom_preserves' (B : Matrix (Fin n) (Fin n) R) (i : Fin n) (hs : Bᵀ = B) (hd : B i i = 1) :
    (geomRep B i)ᵀ * B * geomRep B i = B := by
  unfold geomRep refl
  have key : ∀ Y : Matrix (Fin n) (Fin n) R,
      diagonal (Pi.single i 1) * (B * (diagonal (Pi.single i (1 : R)) * Y)) = diagonal (Pi.single i 1) * Y := by
    intro Y
    rw [← mul_assoc, ← mul_assoc, E_mul_mul_E, hd, one_smul]
  set E : Matrix (Fin n) (Fin n) R := diagonal (Pi.single i 1) with hE
  have hEt : Eᵀ = E := diagonal_transpose _
  rw [transpose_sub, transpose_one, transpose_mul, transpose_smul, hs, hEt, two_smul]
  simp only [mul_sub, sub_mul, mul_add, add_mul, mul_one, one_mul, mul_assoc, key]
  abel

theorem det_refl (C : Matrix (Fin n) (Fin n) R) (i : Fin n) : (refl C i).det = 1 - C i i := by
  have : refl C i = 1 + replicateCol Unit (-(Pi.single i (1 : R))) * replicateRow Unit (C i) := by
    unfold refl
    ext a b
    by_cases h : a = i
    · subst h; simp [Matrix.mul_apply, diagonal_apply, sub_eq_add_neg]
    · simp [Matrix.mul_apply, diagonal_apply, h]
  rw [this, det_one_add_replicateCol_mul_replicateRow, dotProduct_neg, row_dot_single]
  ring

theorem dualMat_mul (A B : Matrix (Fin n) (Fin n) R) : dualMat (A * B) = dualMat A * dualMat B := by
  unfold dualMat
  rw [transpose_mul, Matrix.mul_inv_rev]

theorem dualMat_one : dualMat (1 : Matrix (Fin n) (Fin n) R) = 1 := by
  unfold dualMat; simp

theorem wordProd_map_hom (f : Matrix (Fin n) (Fin n) R → Matrix (Fin n) (Fin n) R)
    (h1 : f 1 = 1) (hm : ∀ A B, f (A * B) = f A * f B) (ρ : Fin n → Matrix (Fin n) (Fin n) R)
    (w : List (Fin n)) : wordProd (fun g => f (ρ g)) w = f (wordProd ρ w) := by
  unfold wordProd
  suffices ∀ (acc : Matrix (Fin n) (Fin n) R),
      w.foldl (fun acc g => acc * f (ρ g)) (f acc) = f (w.foldl (fun acc g => acc * ρ g) acc) by
    simpa [h1] using this 1
  induction w with
  | nil => intro acc; rfl
  | cons g w ih => intro acc; simp only [List.foldl_cons, ← hm, ih]

theorem conjMat_mul (W Winv A B : Matrix (Fin n) (Fin n) R) (h : Winv * W = 1) :
    conjMat W Winv (A * B) = conjMat W Winv A * conjMat W Winv B := by
  have h' : W * Winv = 1 := mul_eq_one_comm.1 h
  unfold conjMat
  calc Winv * (A * B) * W = Winv * A * (W * Winv) * B * W := by rw [h']; simp [mul_assoc]
    _ = Winv * A * W * (Winv * B * W) := by simp only [mul_assoc]

theorem conjMat_one (W Winv : Matrix (Fin n) (Fin n) R) (h : Winv * W = 1) :
    conjMat W Winv 1 = 1 := by unfold conjMat; rw [mul_one, h]

theorem conjMat_iso (W Winv B J g : Matrix (Fin n) (Fin n) R) (h : Winv * W = 1) (hJ : Wᵀ * B * W = J)
    (hg : gᵀ * B * g = B) : (conjMat W Winv g)ᵀ * J * conjMat W Winv g = J := by
  have h' : W * Winv = 1 := mul_eq_one_comm.1 h
  have h't : Winvᵀ * Wᵀ = 1 := by rw [← transpose_mul, h', transpose_one]
  unfold conjMat
  rw [transpose_mul, transpose_mul, ← hJ]
  calc Wᵀ * (gᵀ * Winvᵀ) * (Wᵀ * B * W) * (Winv * g * W)
      = Wᵀ * gᵀ * (Winvᵀ * Wᵀ) * B * (W * Winv) * g * W := by simp only [mul_assoc]
    _ = Wᵀ * (gᵀ * B * g) * W := by rw [h', h't]; simp only [mul_one, mul_assoc]
    _ = Wᵀ * B * W := by rw [hg]

theorem wordProdD_toMatrix {K : Type} [Inhabited K] [CommRing K] (ρ : Fin n → DMat n n K)
    (w : List (Fin n)) : (wordProdD ρ w).toMatrix = wordProd (fun g => (ρ g).toMatrix) w := by
  unfold wordProdD wordProd
  suffices ∀ acc : DMat n n K, (w.foldl (fun acc g => acc.mul (ρ g)) acc).toMatrix
      = w.foldl (fun acc g => acc * (ρ g).toMatrix) acc.toMatrix by
    simpa using this DMat.one
  induction w with
  | nil => intro acc; rfl
  | cons g w ih => intro acc; simp only [List.foldl_cons, ih, DMat.toMatrix_mul]

theorem powD_toMatrix {K : Type} [Inhabited K] [CommRing K] (A : DMat n n K) (m : ℕ) :
    (powD A m).toMatrix = A.toMatrix ^ m := by
  induction m with
  | zero => simp [powD]
  | succ m ih => simp [powD, ih, pow_succ]

section field
variable {K : Type*} [Field K]

/-- if the sequence returns to its initial values after `m` steps and `t ≠ 2`, both period sums vanish -/
theorem cheb_sums_zero (t : K) (m : ℕ) (ht : t ≠ 2) (hm : cheb t m = -1) (hm1 : cheb t (m + 1) = 0) :
    ∑ k ∈ range m, cheb t (k + 1) = 0 ∧ ∑ k ∈ range m, cheb t k = 0 := by
  have e0 : ∑ k ∈ range m, cheb t (k + 1) - ∑ k ∈ range m, cheb t k = 0 := by
    rw [← Finset.sum_sub_distrib, Finset.sum_range_sub (cheb t) m, hm]; simp [cheb]
  have e1 : ∑ k ∈ range m, cheb t (k + 2) - ∑ k ∈ range m, cheb t (k + 1) = 0 := by
    rw [← Finset.sum_sub_distrib, Finset.sum_range_sub (fun k => cheb t (k + 1)) m, hm1]; simp [cheb]
  have e2 : ∑ k ∈ range m, cheb t (k + 2)
      = t * ∑ k ∈ range m, cheb t (k + 1) - ∑ k ∈ range m, cheb t k := by
    rw [Finset.mul_sum, ← Finset.sum_sub_distrib]
    exact Finset.sum_congr rfl (fun k _ => by simp [cheb])
  have h2 : (2 - t) * ∑ k ∈ range m, cheb t (k + 1) = 0 := by
    linear_combination e0 - e1 + e2
  have h3 : ∑ k ∈ range m, cheb t (k + 1) = 0 := by
    rcases mul_eq_zero.1 h2 with h | h
    · exact absurd (by linear_combination -h) ht
    · exact h
  exact ⟨h3, by linear_combination h3 - e0⟩
end field

/-- `cheb (2cos θ) k · sin θ = sin((k-1)θ)` -/
theorem cheb_sin (θ : ℝ) : ∀ k : ℕ, cheb (2 * Real.cos θ) k * Real.sin θ = Real.sin (((k : ℝ) - 1) * θ)
  | 0 => by simp [cheb]
  | 1 => by simp [cheb]
  | (k + 2) => by
    have a := cheb_sin θ (k + 1)
    have b := cheb_sin θ k
    simp only [cheb]
    have e1 : (((k + 2 : ℕ) : ℝ) - 1) * θ = ((k : ℝ) * θ) + θ := by push_cast; ring
    have e2 : (((k + 1 : ℕ) : ℝ) - 1) * θ = (k : ℝ) * θ := by push_cast; ring
    have e3 : ((k : ℝ) - 1) * θ = (k : ℝ) * θ - θ := by ring
    rw [e2] at a
    rw [e3] at b
    rw [e1, Real.sin_add, sub_mul, mul_assoc, a, b, Real.sin_sub]
    ring

theorem cheb_period (m : ℕ) (hm : 3 ≤ m) :
    cheb (2 * Real.cos (2 * Real.pi / m)) m = -1 ∧ cheb (2 * Real.cos (2 * Real.pi / m)) (m + 1) = 0
      ∧ 2 * Real.cos (2 * Real.pi / m) ≠ 2 := by
  have hm0 : (0 : ℝ) < m := by exact_mod_cast (by omega : 0 < m)
  have hm3 : (3 : ℝ) ≤ m := by exact_mod_cast hm
  set θ := 2 * Real.pi / m with hθ
  have hpos : 0 < θ := by positivity
  have hlt : θ < Real.pi := by
    rw [hθ, div_lt_iff₀ hm0]; nlinarith [Real.pi_pos]
  have hs : Real.sin θ ≠ 0 := (Real.sin_pos_of_pos_of_lt_pi hpos hlt).ne'
  have hmθ : (m : ℝ) * θ = 2 * Real.pi := by rw [hθ]; field_simp
  refine ⟨?_, ?_, ?_⟩
  · have := cheb_sin θ m
    have e : ((m : ℝ) - 1) * θ = 2 * Real.pi - θ := by rw [sub_mul, hmθ]; ring
    rw [e, Real.sin_two_pi_sub] at this
    have : (cheb (2 * Real.cos θ) m + 1) * Real.sin θ = 0 := by linarith
    rcases mul_eq_zero.1 this with h | h
    · linarith
    · exact absurd h hs
  · have := cheb_sin θ (m + 1)
    have e : (((m + 1 : ℕ) : ℝ) - 1) * θ = 2 * Real.pi := by push_cast; rw [← hmθ]; ring
    rw [e, Real.sin_two_pi] at this
    rcases mul_eq_zero.1 this with h | h
    · exact h
    · exact absurd h hs
  · have : Real.cos θ < Real.cos 0 :=
      Real.cos_lt_cos_of_nonneg_of_le_pi (le_refl 0) hlt.le hpos
    rw [Real.cos_zero] at this
    intro h; linarith

section triangle
variable {R : Type*} [CommRing R] {n : ℕ}

theorem B_mulVec_vertex (B : Matrix (Fin n) (Fin n) R) (k : Fin n) :
    B *ᵥ vertex B k = B.det • Pi.single k 1 := by
  funext a
  have := congrFun (congrFun (Matrix.mul_adjugate B) a) k
  simp only [Matrix.mul_apply, Matrix.smul_apply, Matrix.one_apply, smul_eq_mul] at this
  simp only [mulVec, dotProduct, vertex, Pi.smul_apply, Pi.single_apply, smul_eq_mul]
  rw [this]

theorem bil_vertex (B : Matrix (Fin n) (Fin n) R) (p q : Fin n) :
    bil B (vertex B p) (vertex B q) = B.det * B.adjugate q p := by
  unfold bil
  rw [B_mulVec_vertex, dotProduct_smul, dotProduct_single_one]
  simp [vertex]

theorem bil_symm (B : Matrix (Fin n) (Fin n) R) (hs : Bᵀ = B) (x y : Fin n → R) : bil B x y = bil B y x := by
  unfold bil
  rw [dotProduct_mulVec, ← mulVec_transpose, hs, dotProduct_comm]

theorem bil_sub_left (B : Matrix (Fin n) (Fin n) R) (x y z : Fin n → R) :
    bil B (x - y) z = bil B x z - bil B y z := by unfold bil; rw [sub_dotProduct]
theorem bil_sub_right (B : Matrix (Fin n) (Fin n) R) (x y z : Fin n → R) :
    bil B x (y - z) = bil B x y - bil B x z := by unfold bil; rw [mulVec_sub, dotProduct_sub]
theorem bil_smul_left (B : Matrix (Fin n) (Fin n) R) (r : R) (x z : Fin n → R) :
    bil B (r • x) z = r * bil B x z := by unfold bil; rw [smul_dotProduct, smul_eq_mul]
theorem bil_smul_right (B : Matrix (Fin n) (Fin n) R) (r : R) (x z : Fin n → R) :
    bil B x (r • z) = r * bil B x z := by unfold bil; rw [mulVec_smul, dotProduct_smul, smul_eq_mul]

theorem bil_tangent (B : Matrix (Fin n) (Fin n) R) (hs : Bᵀ = B) (x y z : Fin n → R) :
    bil B (tangent B x y) (tangent B x z)
      = bil B x x * (bil B x x * bil B y z - bil B y x * bil B z x) := by
  unfold tangent
  simp only [bil_sub_left, bil_sub_right, bil_smul_left, bil_smul_right]
  rw [bil_symm B hs x z]
  ring

theorem vertex_fixed (B : Matrix (Fin n) (Fin n) R) (i k : Fin n) (h : i ≠ k) :
    geomRep B i *ᵥ vertex B k = vertex B k := by
  unfold geomRep
  rw [refl_mulVec]
  have : ((2 : R) • B) i ⬝ᵥ vertex B k = 0 := by
    have e : ((2 : R) • B) i ⬝ᵥ vertex B k = 2 * (B *ᵥ vertex B k) i := by
      simp [mulVec, dotProduct, Finset.mul_sum, mul_assoc]
    rw [e, B_mulVec_vertex]; simp [h]
  rw [this]; simp

theorem adj3 (a b c : R) :
    (form3 a b c).adjugate =
      !![1 - c * c, b * c - a, a * c - b; b * c - a, 1 - b * b, a * b - c; a * c - b, a * b - c, 1 - a * a] := by
  ext i j
  fin_cases i <;> fin_cases j <;> simp [form3, Matrix.adjugate_fin_three] <;> ring

theorem det3 (a b c : R) :
    (form3 a b c).det = 1 + 2 * a * b * c - a * a - b * b - c * c := by
  rw [Matrix.det_fin_three]; simp [form3]; ring

theorem adj_minor3 (a b c : R) :
    ∀ (B : Matrix (Fin 3) (Fin 3) R), B = form3 a b c → ∀ i j k : Fin 3, i ≠ j → j ≠ k → i ≠ k →
      B.adjugate k k * B.adjugate i j - B.adjugate k j * B.adjugate k i = -(B.det * B i j) ∧
      B.adjugate k k * B.adjugate j j - B.adjugate k j * B.adjugate k j = B.det ∧
      B.adjugate k k * B.adjugate i i - B.adjugate k i * B.adjugate k i = B.det ∧
      B.adjugate k k = 1 - B i j ^ 2 := by
  intro B hB i j k hij hjk hik
  subst hB
  simp only [adj3, det3]
  fin_cases i <;> fin_cases j <;> fin_cases k <;> simp at hij hjk hik <;>
  · refine ⟨?_, ?_, ?_, ?_⟩ <;> simp [form3] <;> ring

/-- the fundamental triangle of a rank-3 cosine form -/
theorem triangle3 (a b c : R) :
    ∀ (B : Matrix (Fin 3) (Fin 3) R), B = form3 a b c → ∀ i j k : Fin 3, i ≠ j → j ≠ k → i ≠ k →
      bil B (tangent B (vertex B k) (vertex B j)) (tangent B (vertex B k) (vertex B i))
        = -B i j * bil B (tangent B (vertex B k) (vertex B j)) (tangent B (vertex B k) (vertex B j)) ∧
      bil B (tangent B (vertex B k) (vertex B i)) (tangent B (vertex B k) (vertex B i))
        = bil B (tangent B (vertex B k) (vertex B j)) (tangent B (vertex B k) (vertex B j)) ∧
      bil B (tangent B (vertex B k) (vertex B j)) (tangent B (vertex B k) (vertex B j))
        = B.det ^ 4 * (1 - B i j ^ 2) ∧
      bil B (vertex B k) (vertex B k) = B.det * (1 - B i j ^ 2) := by
  intro B hB i j k hij hjk hik
  have hs : Bᵀ = B := by
    subst hB; ext p q; fin_cases p <;> fin_cases q <;> simp [form3]
  obtain ⟨m1, m2, m3, m4⟩ := adj_minor3 a b c B hB i j k hij hjk hik
  simp only [bil_tangent B hs, bil_vertex]
  refine ⟨?_, ?_, ?_, ?_⟩
  · linear_combination (B.det ^ 3 * B.adjugate k k) * m1 + (B.det ^ 3 * B.adjugate k k * B i j) * m2
  · linear_combination (B.det ^ 3 * B.adjugate k k) * m3 - (B.det ^ 3 * B.adjugate k k) * m2
  · rw [← m4]
    linear_combination (B.det ^ 3 * B.adjugate k k) * m2
  · rw [m4]

end triangle

/-- for `θ = 2π/m`, `0 < k < m`: not both `cheb (k+1) = 0` and `cheb k = -1` -/
theorem cheb_no_early_period (m k : ℕ) (hm : 3 ≤ m) (hk0 : 0 < k) (hkm : k < m)
    (h1 : cheb (2 * Real.cos (2 * Real.pi / m)) (k + 1) = 0)
    (h0 : cheb (2 * Real.cos (2 * Real.pi / m)) k = -1) : False := by
  have hm0 : (0 : ℝ) < m := by exact_mod_cast (by omega : 0 < m)
  have hm3 : (3 : ℝ) ≤ m := by exact_mod_cast hm
  set θ := 2 * Real.pi / m with hθ
  have hpos : 0 < θ := by positivity
  have hlt : θ < Real.pi := by rw [hθ, div_lt_iff₀ hm0]; nlinarith [Real.pi_pos]
  have hs : 0 < Real.sin θ := Real.sin_pos_of_pos_of_lt_pi hpos hlt
  have hmθ : (m : ℝ) * θ = 2 * Real.pi := by rw [hθ]; field_simp
  have a := cheb_sin θ (k + 1)
  have b := cheb_sin θ k
  rw [h1] at a
  rw [h0] at b
  have e1 : (((k + 1 : ℕ) : ℝ) - 1) * θ = (k : ℝ) * θ := by push_cast; ring
  rw [e1, zero_mul] at a
  -- sin(kθ) = 0 with 0 < kθ < 2π, so kθ = π
  have hk0' : (0 : ℝ) < k := by exact_mod_cast hk0
  have hkm' : (k : ℝ) < m := by exact_mod_cast hkm
  have hkθ0 : 0 < (k : ℝ) * θ := by positivity
  have hkθ2 : (k : ℝ) * θ < 2 * Real.pi := by rw [← hmθ]; exact mul_lt_mul_of_pos_right hkm' hpos
  have hx : (k : ℝ) * θ - Real.pi = 0 := by
    apply (Real.sin_eq_zero_iff_of_lt_of_lt (by linarith) (by linarith)).1
    rw [Real.sin_sub_pi, ← a, neg_zero]
  have e2 : ((k : ℝ) - 1) * θ = Real.pi - θ := by linarith
  rw [e2, Real.sin_pi_sub] at b
  linarith

/-- **exact order** of a product of two reflections over ℝ: for `0 < k < m`, `(sᵢsⱼ)^k ≠ 1` -/
theorem order_exact' {n : ℕ} (C : Matrix (Fin n) (Fin n) ℝ) (i j : Fin n) (hij : i ≠ j)
    (hi : C i i = 2) (hj : C j j = 2) (m : ℕ) (hm : 2 ≤ m)
    (hc : C i j * C j i = 4 * Real.cos (Real.pi / m) ^ 2) (k : ℕ) (hk0 : 0 < k) (hkm : k < m) :
    (refl C i * refl C j) ^ k ≠ 1 := by
  intro hP
  set P := refl C i * refl C j with hPdef
  have hej : P *ᵥ Pi.single j 1 = C i j • Pi.single i 1 - Pi.single j 1 := P_ej C i j hj
  have hei : P *ᵥ Pi.single i 1 = (C i j * C j i - 1) • Pi.single i 1 - C j i • Pi.single j 1 :=
    P_ei C i j hi
  have sij : (Pi.single i (1 : ℝ) : Fin n → ℝ) j = 0 := by simp [hij.symm]
  have sji : (Pi.single j (1 : ℝ) : Fin n → ℝ) i = 0 := by simp [hij]
  rcases Nat.eq_or_lt_of_le hm with rfl | hm3
  · -- m = 2, k = 1
    have hk1 : k = 1 := by omega
    subst hk1
    rw [pow_one] at hP
    have := congrFun (congrArg (fun M => M *ᵥ (Pi.single j (1 : ℝ))) hP) j
    simp only [hej, one_mulVec, Pi.sub_apply, Pi.smul_apply, sij, smul_eq_mul, mul_zero,
      Pi.single_eq_same] at this
    linarith
  · have ht : C i j * C j i - 2 = 2 * Real.cos (2 * Real.pi / m) := by
      have : 2 * Real.pi / m = 2 * (Real.pi / m) := by ring
      rw [hc, this, Real.cos_two_mul]; ring
    set t := C i j * C j i - 2 with htdef
    have hcore := braid_core' C i j hi hj
    rw [← htdef, ← hPdef] at hcore
    have hQ := pow_mul_Q P t hcore k
    rw [hP, one_mul] at hQ
    -- apply both sides to e_j
    have hv := congrFun (congrArg (fun M => M *ᵥ (Pi.single j (1 : ℝ))) hQ)
    have hQe : (P - 1) *ᵥ Pi.single j 1 = C i j • Pi.single i 1 - (2 : ℝ) • Pi.single j 1 := by
      rw [sub_mulVec, one_mulVec, hej]; module
    have hPQe : (P * (P - 1)) *ᵥ Pi.single j 1 =
        (C i j * (t - 1)) • Pi.single i 1 + (-t) • Pi.single j 1 := by
      rw [← mulVec_mulVec, hQe, mulVec_sub, mulVec_smul, mulVec_smul, hei, hej, htdef]; module
    have hvj := hv j
    have hvi := hv i
    simp only [sub_mulVec, smul_mulVec, hQe, hPQe, Pi.sub_apply, Pi.add_apply, Pi.smul_apply, sij, sji,
      smul_eq_mul, mul_zero, Pi.single_eq_same, mul_one, zero_sub, sub_zero, zero_add, add_zero] at hvj hvi
    -- C i j ≠ 0
    have hm0 : (0 : ℝ) < m := by exact_mod_cast (by omega : 0 < m)
    have hcos : 0 < Real.cos (Real.pi / m) := by
      apply Real.cos_pos_of_mem_Ioo
      constructor
      · have : 0 < Real.pi / m := by positivity
        linarith [Real.pi_pos]
      · rw [div_lt_div_iff_of_pos_left Real.pi_pos hm0 (by norm_num)]
        exact_mod_cast (by omega : 2 < m)
    have hCij : C i j ≠ 0 := by
      intro h0; rw [h0, zero_mul] at hc; nlinarith
    obtain ⟨p1, p2, p3⟩ := cheb_period m hm3
    rw [← ht] at p3
    have E2 : cheb t (k + 1) * (t - 1) = 1 + cheb t k := by
      have : C i j * (cheb t (k + 1) * (t - 1) - 1 - cheb t k) = 0 := by linarith
      rcases mul_eq_zero.1 this with h | h
      · exact absurd h hCij
      · linarith
    have E1 : t * cheb t (k + 1) = 2 + 2 * cheb t k := by linarith
    have hz : cheb t (k + 1) * (t - 2) = 0 := by linear_combination 2 * E2 - E1
    have h1 : cheb t (k + 1) = 0 := by
      rcases mul_eq_zero.1 hz with h | h
      · exact h
      · exact absurd (by linarith) p3
    have h0 : cheb t k = -1 := by rw [h1] at E2; linarith
    rw [ht] at h1 h0
    exact cheb_no_early_period m k hm3 hk0 hkm h1 h0

/-- label ∞ (`C_ij·C_ji = 4`): `P^k e_j = k·C_ij·e_i + (1-2k)·e_j`, so `P` has infinite order -/
theorem P_pow_ej {R : Type*} [CommRing R] {n : ℕ} (C : Matrix (Fin n) (Fin n) R) (i j : Fin n)
    (hi : C i i = 2) (hj : C j j = 2) (hc : C i j * C j i = 4) (k : ℕ) :
    ((refl C i * refl C j) ^ k) *ᵥ Pi.single j 1
      = ((k : R) * C i j) • Pi.single i 1 + (1 - 2 * (k : R)) • Pi.single j 1 := by
  induction k with
  | zero => rw [pow_zero, one_mulVec]; simp
  | succ k ih =>
    rw [pow_succ', ← mulVec_mulVec, ih, mulVec_add, mulVec_smul, mulVec_smul, P_ei C i j hi, P_ej C i j hj]
    push_cast
    have e1 : (k : R) * C i j * (C i j * C j i - 1) + (1 - 2 * (k : R)) * C i j = ((k : R) + 1) * C i j := by
      linear_combination ((k : R) * C i j) * hc
    have e2 : -((k : R) * C i j * C j i) - (1 - 2 * (k : R)) = 1 - 2 * ((k : R) + 1) := by
      linear_combination (-(k : R)) * hc
    rw [← e1, ← e2]
    module

theorem order_infinite {n : ℕ} (C : Matrix (Fin n) (Fin n) ℝ) (i j : Fin n) (hij : i ≠ j)
    (hi : C i i = 2) (hj : C j j = 2) (hc : C i j * C j i = 4) (k : ℕ) (hk : 0 < k) :
    (refl C i * refl C j) ^ k ≠ 1 := by
  intro hP
  have := congrFun (P_pow_ej C i j hi hj hc k) j
  rw [hP, one_mulVec] at this
  have sij : (Pi.single i (1 : ℝ) : Fin n → ℝ) j = 0 := by simp [hij.symm]
  simp only [Pi.add_apply, Pi.smul_apply, sij, Pi.single_eq_same, smul_eq_mul, mul_zero, mul_one,
    zero_add] at this
  have hk' : (0 : ℝ) < k := by exact_mod_cast hk
  linarith

end GT.Cox
