import GT.Lemmas.Coxeter
namespace GT.Cox
open Matrix Finset
variable {R : Type*} [CommRing R] {n : ℕ}

local notation "e" => fun (i : Fin n) => (Pi.single i (1 : R) : Fin n → R)

theorem P_mulVec (C : Matrix (Fin n) (Fin n) R) (i j : Fin n) (v : Fin n → R) :
    (refl C i * refl C j) *ᵥ v
      = v - (C j ⬝ᵥ v) • Pi.single j 1 - (C i ⬝ᵥ v - (C j ⬝ᵥ v) * C i j) • Pi.single i 1 := by
  rw [← mulVec_mulVec, refl_mulVec C j, refl_mulVec C i, dotProduct_sub, dotProduct_smul,
    row_dot_single, smul_eq_mul]

theorem refl_sq' (C : Matrix (Fin n) (Fin n) R) (i : Fin n) (h : C i i = 2) :
    refl C i * refl C i = 1 := by
  apply mulVec_injective
  funext v
  rw [P_mulVec, h, one_mulVec]
  module

theorem P_ei (C : Matrix (Fin n) (Fin n) R) (i j : Fin n) (hi : C i i = 2) :
    (refl C i * refl C j) *ᵥ (Pi.single i 1)
      = (C i j * C j i - 1) • Pi.single i 1 - C j i • Pi.single j 1 := by
  rw [P_mulVec, row_dot_single, row_dot_single, hi]
  module

theorem P_ej (C : Matrix (Fin n) (Fin n) R) (i j : Fin n) (hj : C j j = 2) :
    (refl C i * refl C j) *ᵥ (Pi.single j 1)
      = C i j • Pi.single i 1 - Pi.single j 1 := by
  rw [P_mulVec, row_dot_single, row_dot_single, hj]
  module

/-- the quadratic factor `P² - tP + 1` -/
def quad (P : Matrix (Fin n) (Fin n) R) (t : R) : Matrix (Fin n) (Fin n) R := P * P - t • P + 1

theorem quad_mulVec (P : Matrix (Fin n) (Fin n) R) (t : R) (v : Fin n → R) :
    quad P t *ᵥ v = P *ᵥ (P *ᵥ v) - t • (P *ᵥ v) + v := by
  unfold quad
  rw [add_mulVec, sub_mulVec, one_mulVec, smul_mulVec, mulVec_mulVec]

theorem quad_ei (C : Matrix (Fin n) (Fin n) R) (i j : Fin n) (hi : C i i = 2) (hj : C j j = 2) :
    quad (refl C i * refl C j) (C i j * C j i - 2) *ᵥ (Pi.single i 1) = 0 := by
  rw [quad_mulVec, P_ei C i j hi, mulVec_sub, mulVec_smul, mulVec_smul, P_ei C i j hi, P_ej C i j hj]
  module

theorem quad_ej (C : Matrix (Fin n) (Fin n) R) (i j : Fin n) (hi : C i i = 2) (hj : C j j = 2) :
    quad (refl C i * refl C j) (C i j * C j i - 2) *ᵥ (Pi.single j 1) = 0 := by
  rw [quad_mulVec, P_ej C i j hj, mulVec_sub, mulVec_smul, P_ei C i j hi, P_ej C i j hj]
  module

theorem braid_core' (C : Matrix (Fin n) (Fin n) R) (i j : Fin n) (hi : C i i = 2) (hj : C j j = 2) :
    quad (refl C i * refl C j) (C i j * C j i - 2) * (refl C i * refl C j - 1) = 0 := by
  apply mulVec_injective
  funext v
  rw [← mulVec_mulVec, sub_mulVec, one_mulVec, P_mulVec]
  have : v - (C j ⬝ᵥ v) • Pi.single j 1 - (C i ⬝ᵥ v - (C j ⬝ᵥ v) * C i j) • Pi.single i 1 - v
      = (-(C j ⬝ᵥ v)) • Pi.single j 1 + (-(C i ⬝ᵥ v - (C j ⬝ᵥ v) * C i j)) • Pi.single i 1 := by
    module
  rw [this, mulVec_add, mulVec_smul, mulVec_smul, quad_ei C i j hi hj, quad_ej C i j hi hj]
  simp
end GT.Cox
