import GT.Model.FSA
namespace GT.Dict
variable {κ ν : Type} [DecidableEq κ]

@[simp] theorem get?_nil (k : κ) : Dict.get? ([] : Dict κ ν) k = none := rfl
theorem get?_cons (a : κ × ν) (r : Dict κ ν) (k : κ) :
    Dict.get? (a :: r) k = if k = a.1 then some a.2 else Dict.get? r k := by
  cases a; rfl

theorem get?_set (d : Dict κ ν) (k k' : κ) (v : ν) :
    (d.set k v).get? k' = if k' = k then some v else d.get? k' := by
  induction d with
  | nil => simp [Dict.set, get?_cons]
  | cons a r ih =>
    obtain ⟨a1, a2⟩ := a
    simp only [Dict.set]
    split <;> grind [get?_cons]

theorem get?_erase (d : Dict κ ν) (k k' : κ) :
    (d.erase k).get? k' = if k' = k then none else d.get? k' := by
  induction d with
  | nil => simp [Dict.erase]
  | cons a r ih =>
    obtain ⟨a1, a2⟩ := a
    simp only [Dict.erase, List.filter_cons] at ih ⊢
    grind [get?_cons]

example (d : Dict κ ν) (a b : κ) (x y : ν) (h : a ≠ b) :
    ((d.set a x).set b y).get? a = some x := by
  grind [get?_set]
end GT.Dict
