import GT.Properties.C10
open GT GT.FSA
def ex0 : FSA Nat String := fromGraphDict [(0, [("a", 1)]), (1, [("b", 1)])] [0]
def exOps : List (Op Nat String) :=
  [.addEdges [(0, 1, "b")] true, .addEdgesL [(1, 2, ["a", "c"]), (2, 0, [])] true,
   .deleteVertex 2, .recurrent, .rename [("a", "b"), ("b", "a"), ("c", "c")], .copy]
#eval (ex0.run exOps).toOption.map (fun s => (s.edgesG, s.edgesO, s.edgesI, s.vertices))
example : (ex0.run exOps).toOption.map (fun s => (s.edgesG, s.edgesO, s.edgesI, s.vertices)) =
    some ([(1, "a", 1)], [(1, "a", 1)], [(1, "a", 1)], [1]) := by rfl
example : ((ex0.run exOps).toOption.map (fun s => s.edgesG)) =
    some ([(1, "a", 1)]) := by decide
