import GT.Model.FSASpec
import GT.Lemmas.FSADict
set_option linter.unusedSectionVars false
namespace GT.FSA
variable {V L : Type} [DecidableEq V] [DecidableEq L]
open Dict

theorem og_def (s : FSA V L) (v w : V) : s.og v w = (s.out.get? v).bind (·.get? w) := rfl
theorem ig_def (s : FSA V L) (w v : V) : s.ig w v = (s.inn.get? w).bind (·.get? v) := rfl
theorem step_def (s : FSA V L) (v : V) (l : L) : s.step v l = (s.graph.get? v).bind (·.get? l) := rfl

theorem addVertex_of_mem {s : FSA V L} {v : V} (h : v ∈ s.out.keys) : s.addVertex v = s := by
  unfold addVertex; simp [(contains_iff _ _).2 h]

theorem addVertex_of_not_mem {s : FSA V L} {v : V} (h : v ∉ s.out.keys) :
    s.addVertex v = { s with out := s.out.set v [], inn := s.inn.set v [], graph := s.graph.set v [] } := by
  unfold addVertex
  have : s.out.contains v = false := by
    cases hc : s.out.contains v
    · rfl
    · exact absurd ((contains_iff _ _).1 hc) h
  simp [this]

theorem coherent_addVertex {s : FSA V L} (hs : s.Coherent) (v : V) : (s.addVertex v).Coherent := by
  by_cases h : v ∈ s.out.keys
  · rwa [addVertex_of_mem h]
  · rw [addVertex_of_not_mem h]
    have hg : s.graph.get? v = none := (get?_eq_none_iff _ _).2 (fun hm => h ((hs.verts v).1 hm))
    have hi : s.inn.get? v = none := (get?_eq_none_iff _ _).2 (fun hm => h (hs.innVerts v hm))
    have ho : s.out.get? v = none := (get?_eq_none_iff _ _).2 h
    have hog : ∀ a b, FSA.og { s with out := s.out.set v [], inn := s.inn.set v [], graph := s.graph.set v [] } a b = s.og a b := by
      intro a b; simp only [og_def, get?_set]; split <;> simp_all
    have hig : ∀ a b, FSA.ig { s with out := s.out.set v [], inn := s.inn.set v [], graph := s.graph.set v [] } a b = s.ig a b := by
      intro a b; simp only [ig_def, get?_set]; split <;> simp_all
    have hst : ∀ a l, FSA.step { s with out := s.out.set v [], inn := s.inn.set v [], graph := s.graph.set v [] } a l = s.step a l := by
      intro a b; simp only [step_def, get?_set]; split <;> simp_all
    constructor
    · constructor
      · exact nodup_keys_set hs.keys.graph _ _
      · exact nodup_keys_set hs.keys.out _ _
      · exact nodup_keys_set hs.keys.inn _ _
      · intro a row; simp only [get?_set]; split
        · rintro ⟨rfl⟩; simp
        · exact hs.keys.graphRow a row
      · intro a row; simp only [get?_set]; split
        · rintro ⟨rfl⟩; simp
        · exact hs.keys.outRow a row
      · intro a row; simp only [get?_set]; split
        · rintro ⟨rfl⟩; simp
        · exact hs.keys.innRow a row
    · intro a; simp only [mem_keys_set, hs.verts a]
    · intro a; simp only [mem_keys_set]; rintro (h | h)
      · exact Or.inl h
      · exact Or.inr (hs.innVerts a h)
    · intro a b; rw [hog, hig]; exact hs.io a b
    · intro a l b; rw [hst]; simp only [hog]; exact hs.label a l b
    · intro a b ls; rw [hog]; exact hs.nodup a b ls
    · intro a b ls; rw [hog]; simp only [mem_keys_set]; intro h; exact Or.inr (hs.closed a b ls h)
end GT.FSA
