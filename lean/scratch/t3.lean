import GT.Model.FSASpec
import GT.Lemmas.FSADict
set_option linter.unusedSectionVars false
namespace GT.FSA
variable {V L : Type} [DecidableEq V] [DecidableEq L]
open Dict

theorem og_def (s : FSA V L) (v w : V) : s.og v w = (s.out.get? v).bind (·.get? w) := rfl
theorem ig_def (s : FSA V L) (w v : V) : s.ig w v = (s.inn.get? w).bind (·.get? v) := rfl
theorem step_def (s : FSA V L) (v : V) (l : L) : s.step v l = (s.graph.get? v).bind (·.get? l) := rfl

/-- `s'` is `s` with the label `l` appended to the entry `tail → head` of all three views -/
structure AddsLabel (s s' : FSA V L) (tail head : V) (l : L) : Prop where
  og : ∀ a b, s'.og a b = if a = tail ∧ b = head then some ((s.og tail head).getD [] ++ [l]) else s.og a b
  ig : ∀ b a, s'.ig b a = if a = tail ∧ b = head then some ((s.og tail head).getD [] ++ [l]) else s.ig b a
  step : ∀ a l', s'.step a l' = if a = tail ∧ l' = l then some head else s.step a l'
  keysOut : ∀ a, a ∈ s'.out.keys ↔ a ∈ s.out.keys
  keysGraph : ∀ a, a ∈ s'.graph.keys ↔ a ∈ s.graph.keys
  keysInn : ∀ a, a ∈ s'.inn.keys ↔ a ∈ s.inn.keys ∨ a = head
  nodup : KeysNodup s'
  starts : s'.starts = s.starts

theorem addLabel_fresh {s : FSA V L} (hs : s.Coherent) {tail head : V} (ht : tail ∈ s.out.keys)
    (l : L) (ir : Bool) (hl : l ∉ (s.og tail head).getD []) :
    ∃ s', addLabel ir tail head s l = .ok s' ∧ AddsLabel s s' tail head l := by
  obtain ⟨row, hrow⟩ := (mem_keys_iff _ _).1 ht
  obtain ⟨grow, hgrow⟩ := (mem_keys_iff _ _).1 ((hs.verts tail).2 ht)
  have hio := hs.io tail head
  cases hlab : row.get? head with
  | some labs =>
    have hog : s.og tail head = some labs := by simp [og_def, hrow, hlab]
    rw [hog] at hl hio
    simp only [Option.getD_some] at hl
    have hc : row.contains head = true := (contains_iff _ _).2 ((mem_keys_iff _ _).2 ⟨labs, hlab⟩)
    obtain ⟨irow, hirow, hilab⟩ : ∃ irow, s.inn.get? head = some irow ∧ irow.get? tail = some labs := by
      rw [ig_def] at hio
      cases hi : s.inn.get? head with
      | none => simp [hi] at hio
      | some irow => exact ⟨irow, rfl, by simpa [hi] using hio.symm⟩
    refine @Exists.intro _ _ ?stA (And.intro ?eA ?cA)
    case eA =>
      simp only [addLabel, Dict.get, hrow, hc, if_true, bind, Except.bind, hlab, hl, decide_false,
        Bool.and_false, Bool.false_eq_true, if_false, Dict.getOr, hirow, Option.getD_some, hilab, hgrow,
        pure, Except.pure]
      rfl
    case cA =>
      constructor
      · intro a b; rw [hog]; simp only [og_def, get?_set, Option.getD_some]; grind [get?_set, get?_nil]
      · intro b a; rw [hog]; simp only [ig_def, get?_set, Option.getD_some]; grind [get?_set, get?_nil]
      · intro a l'; simp only [step_def, get?_set]; grind [get?_set, get?_nil]
      · intro a; simp only [mem_keys_set]; grind
      · intro a; simp only [mem_keys_set]; grind [mem_keys_iff]
      · intro a; simp only [mem_keys_set]; grind [mem_keys_iff]
      · constructor
        · exact nodup_keys_set hs.keys.graph _ _
        · exact nodup_keys_set hs.keys.out _ _
        · exact nodup_keys_set hs.keys.inn _ _
        · intro a r; simp only [get?_set]; split
          · rintro ⟨rfl⟩; exact nodup_keys_set (hs.keys.graphRow _ _ hgrow) _ _
          · exact hs.keys.graphRow a r
        · intro a r; simp only [get?_set]; split
          · rintro ⟨rfl⟩; exact nodup_keys_set (hs.keys.outRow _ _ hrow) _ _
          · exact hs.keys.outRow a r
        · intro a r; simp only [get?_set]; split
          · rintro ⟨rfl⟩; exact nodup_keys_set (hs.keys.innRow _ _ hirow) _ _
          · exact hs.keys.innRow a r
      · rfl
  | none =>
    have hog : s.og tail head = none := by simp [og_def, hrow, hlab]
    rw [hog] at hio
    have hc : row.contains head = false := by
      cases hc : row.contains head
      · rfl
      · obtain ⟨x, hx⟩ := (mem_keys_iff _ _).1 ((contains_iff _ _).1 hc); simp [hx] at hlab
    have hirow : ∀ irow, s.inn.get? head = some irow → irow.get? tail = none := by
      intro irow hi; rw [ig_def, hi] at hio; simpa using hio.symm
    refine @Exists.intro _ _ ?stB (And.intro ?eB ?cB)
    case eB =>
      simp only [addLabel, Dict.get, hrow, hc, Bool.false_eq_true, if_false, bind, Except.bind, get?_set,
        if_true, List.not_mem_nil, decide_false, Bool.and_false, Dict.getOr, Option.getD_some, hgrow,
        pure, Except.pure, List.nil_append]
      rfl
    case cB =>
      constructor
      · intro a b; rw [hog]; simp only [og_def, get?_set, Option.getD_none, List.nil_append]; grind [get?_set, get?_nil]
      · intro b a; rw [hog]; simp only [ig_def, get?_set, Option.getD_none, List.nil_append, Dict.getOr]
        cases hi : s.inn.get? head with
        | none => grind [get?_set, get?_nil]
        | some irow => have := hirow irow hi; grind [get?_set, get?_nil]
      · intro a l'; simp only [step_def, get?_set]; grind [get?_set, get?_nil]
      · intro a; simp only [mem_keys_set]; grind
      · intro a; simp only [mem_keys_set]; grind [mem_keys_iff]
      · intro a; simp only [mem_keys_set]; grind [mem_keys_iff]
      · constructor
        · exact nodup_keys_set hs.keys.graph _ _
        · exact nodup_keys_set (nodup_keys_set hs.keys.out _ _) _ _
        · exact nodup_keys_set (nodup_keys_set hs.keys.inn _ _) _ _
        · intro a r; simp only [get?_set]; split
          · rintro ⟨rfl⟩; exact nodup_keys_set (hs.keys.graphRow _ _ hgrow) _ _
          · exact hs.keys.graphRow a r
        · intro a r; simp only [get?_set]; split
          · rintro ⟨rfl⟩; exact nodup_keys_set (nodup_keys_set (hs.keys.outRow _ _ hrow) _ _) _ _
          · exact hs.keys.outRow a r
        · intro a r; simp only [get?_set]; split
          · rintro ⟨rfl⟩
            apply nodup_keys_set; apply nodup_keys_set
            cases hi : s.inn.get? head with
            | none => simp
            | some irow => simpa using hs.keys.innRow _ _ hi
          · exact hs.keys.innRow a r
      · rfl
end GT.FSA
