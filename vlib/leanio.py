"""Lean side of a run: build, axiom audit, forbidden-token scan, leanchecker, model driver."""
import os, re, json, subprocess, fcntl, time, glob

VERIF = os.path.dirname(os.path.dirname(os.path.abspath(__file__)))
LEAN = os.environ.get("VERIF_LEAN_DIR", os.path.join(VERIF, "lean"))
ALLOWED_AXIOMS = {"propext", "Classical.choice", "Quot.sound"}
FORBIDDEN = [r"\bsorry\b", r"\badmit\b", r"^\s*axiom\s", r"\bnative_decide\b", r"\bbv_decide\b",
             r"\bimplemented_by\b", r"\bunsafe\s", r"maxHeartbeats\s+0\b", r"\bextern\b"]


def _env():
    e = dict(os.environ)
    e.pop("LEAN_PATH", None)
    return e


def _run(cmd, timeout=3000, inp=None):
    p = subprocess.run(cmd, cwd=LEAN, capture_output=True, text=True, timeout=timeout, env=_env(), input=inp)
    out = "\n".join(l for l in (p.stdout + "\n" + p.stderr).splitlines() if "conda" not in l)
    return p.returncode, out


class _Lock:
    def __enter__(self):
        self.f = open(os.path.join(LEAN, ".build.lock"), "w")
        fcntl.flock(self.f, fcntl.LOCK_EX)

    def __exit__(self, *a):
        fcntl.flock(self.f, fcntl.LOCK_UN)
        self.f.close()


def strip_comments(src):
    # nested block comments
    out, depth, i = [], 0, 0
    while i < len(src):
        if src.startswith("/-", i):
            depth += 1
            i += 2
        elif src.startswith("-/", i) and depth:
            depth -= 1
            i += 2
        elif depth:
            if src[i] == "\n":
                out.append("\n")
            i += 1
        else:
            out.append(src[i])
            i += 1
    s = "".join(out)
    return "\n".join(l.split("--", 1)[0] for l in s.splitlines())


def scan_forbidden():
    hits = []
    for f in glob.glob(os.path.join(LEAN, "GT", "**", "*.lean"), recursive=True) + [os.path.join(LEAN, "Main.lean")]:
        src = strip_comments(open(f).read())
        for n, line in enumerate(src.splitlines(), 1):
            for pat in FORBIDDEN:
                if re.search(pat, line):
                    hits.append(f"{os.path.relpath(f, LEAN)}:{n}: {line.strip()[:120]}")
    return hits


def obligations(pid):
    p = os.path.join(LEAN, "obligations", f"{pid}.txt")
    obs = []
    if os.path.exists(p):
        for line in open(p):
            line = line.split("#", 1)[0].strip()
            if not line:
                continue
            parts = line.split()
            if len(parts) == 1:
                obs.append(("full", parts[0]))
            else:
                obs.append((parts[0], parts[1]))
    return obs


def enclosing_decl(path, lineno):
    try:
        lines = open(path).read().splitlines()
    except Exception:
        return None
    for i in range(min(lineno, len(lines)) - 1, -1, -1):
        m = re.match(r"\s*(?:private\s+|protected\s+)?(?:theorem|lemma|def|example|instance|abbrev)\s+([^\s:({\[]+)?", lines[i])
        if m:
            return m.group(1) or "example"
    return None


def proof_stage(pid, tier="quick"):
    res = {"ok": True, "obligations": 0, "discharged": 0, "broken": [], "theorems": {}, "partial": []}
    obs = obligations(pid)
    res["obligations"] = len(obs)
    res["partial"] = [n for k, n in obs if k == "partial"]
    try:
        with _Lock():
            rc, out = _run(["lake", "build", f"GT.Properties.{pid}", "GT.Driver"])
    except subprocess.TimeoutExpired:
        res["infra"] = "lake build timed out"
        return res
    if rc != 0:
        errs = re.findall(r"error: ([^\s:]+\.lean):(\d+):(\d+): (.*)", out)
        if not errs and "error" not in out:
            res["infra"] = "lake build failed without a Lean error: " + out[-800:]
            return res
        res["ok"] = False
        for f, l, c, msg in errs[:20]:
            res["broken"].append({"file": f, "line": int(l), "decl": enclosing_decl(os.path.join(LEAN, f), int(l)), "msg": msg[:300]})
        if not errs:
            res["broken"].append({"msg": out[-1500:]})
        return res
    hits = scan_forbidden()
    if hits:
        res["ok"] = False
        res["broken"].append({"forbidden_tokens": hits[:20]})
    # axiom audit
    os.makedirs(os.path.join(LEAN, ".audit"), exist_ok=True)
    audit = os.path.join(LEAN, ".audit", f"{pid}.lean")
    with open(audit, "w") as fh:
        fh.write(f"import GT.Properties.{pid}\n")
        for _, n in obs:
            fh.write(f"#print axioms {n}\n")
    rc, out = _run(["lake", "env", "lean", audit])
    flat = re.sub(r"\s+", " ", out)
    for kind, n in obs:
        m = re.search(r"'" + re.escape(n) + r"' depends on axioms: \[([^\]]*)\]", flat)
        m0 = re.search(r"'" + re.escape(n) + r"' does not depend on any axioms", flat)
        if m0:
            res["theorems"][n] = []
            res["discharged"] += 1
        elif m:
            axs = [x.strip() for x in m.group(1).split(",") if x.strip()]
            res["theorems"][n] = axs
            bad = [x for x in axs if x not in ALLOWED_AXIOMS]
            if bad:
                res["ok"] = False
                res["broken"].append({"decl": n, "msg": "depends on disallowed axioms %s" % bad})
            else:
                res["discharged"] += 1
        else:
            res["ok"] = False
            res["broken"].append({"decl": n, "msg": "theorem listed in obligations not found / audit failed"})
    try:
        src = strip_comments(open(os.path.join(LEAN, "GT", "Properties", f"{pid}.lean")).read())
        res["examples"] = len(re.findall(r"^\s*example\b", src, flags=re.M))
    except Exception:
        res["examples"] = 0
    res["checker_cmd"] = (f"cd lean && lake build GT.Properties.{pid} && lake env lean .audit/{pid}.lean "
                          f"(#print axioms on {len(obs)} theorems; forbidden-token scan of lean/GT)")
    if tier == "thorough" and res["ok"]:
        try:
            t = time.time()
            rc, out = _run(["lake", "env", "leanchecker", f"GT.Properties.{pid}"], timeout=3000)
            res["leanchecker"] = {"rc": rc, "wall_s": round(time.time() - t, 1), "tail": out[-300:]}
            res["checker_cmd"] += f" && lake env leanchecker GT.Properties.{pid}"
            if rc != 0:
                res["ok"] = False
                res["broken"].append({"msg": "leanchecker rejected the compiled module: " + out[-500:]})
        except subprocess.TimeoutExpired:
            res["leanchecker"] = {"rc": None, "timeout": True}
    return res


class Driver:
    """Batch access to the model: one `lake env lean --run Main.lean` process per batch."""

    def __init__(self):
        self.ops_sent = 0
        self.errors = 0

    def batch(self, ops, timeout=3000):
        if not ops:
            return []
        inp = "\n".join(json.dumps(o) for o in ops) + "\n"
        p = subprocess.run(["lake", "env", "lean", "--run", "Main.lean"], cwd=LEAN, input=inp,
                           capture_output=True, text=True, timeout=timeout, env=_env())
        lines = [l for l in p.stdout.splitlines() if l.startswith("{")]
        self.ops_sent += len(ops)
        if len(lines) != len(ops):
            # driver crashed: report every missing answer as an error (never silently dropped)
            tail = (p.stderr or "")[-500:]
            lines += [json.dumps({"err": "driver produced no answer: " + tail})] * (len(ops) - len(lines))
        out = [json.loads(l) for l in lines]
        self.errors += sum(1 for o in out if "err" in o)
        return out
