"""Exact rationals across the protocol and rational generators (DESIGN §3)."""
from fractions import Fraction as F
import math
import numpy as np


def qs(x):
    """Fraction/int/float -> protocol string (floats are converted exactly)."""
    if isinstance(x, (float, np.floating)):
        x = F(float(x))
    elif isinstance(x, (int, np.integer)):
        x = F(int(x))
    return str(x.numerator) if x.denominator == 1 else f"{x.numerator}/{x.denominator}"


def fq(s):
    if isinstance(s, (int, float)):
        return F(s)
    return F(s)


def ff(s):
    """protocol string -> float"""
    return float(F(s))


def enc(a):
    """nested (list/ndarray/Fraction/float) -> nested list of protocol strings"""
    if isinstance(a, np.ndarray):
        return enc(a.tolist())
    if isinstance(a, (list, tuple)):
        return [enc(x) for x in a]
    return qs(a)


def dec(a):
    """nested protocol strings -> nested Fractions"""
    if isinstance(a, list):
        return [dec(x) for x in a]
    return F(a)


def decf(a):
    """nested protocol strings -> numpy float array"""
    return np.array(_decf(a), dtype=float)


def _decf(a):
    if isinstance(a, list):
        return [_decf(x) for x in a]
    return float(F(a))


def rq(rng, num=64, den=16, nonzero=False):
    while True:
        x = F(rng.randint(-num, num), rng.randint(1, den))
        if not nonzero or x != 0:
            return x


def rball(rng, n, rmax=F(19, 20), den=12):
    """rational point of the open ball of radius rmax in Q^n (rejection on a grid)."""
    while True:
        p = [F(rng.randint(-den, den), den) for _ in range(n)]
        if sum(x * x for x in p) < rmax * rmax:
            return p


def rsphere(rng, n, den=6):
    """rational point of the unit sphere S^{n-1} (inverse stereographic projection)."""
    if n == 1:
        return [F(rng.choice([-1, 1]))]
    t = [F(rng.randint(-den, den), rng.randint(1, den)) for _ in range(n - 1)]
    s = sum(x * x for x in t)
    return [2 * x / (1 + s) for x in t] + [(s - 1) / (1 + s)]


def rrot(rng, den=8):
    """rational (c, s) with c^2+s^2=1"""
    t = F(rng.randint(-den, den), rng.randint(1, den))
    return (1 - t * t) / (1 + t * t), 2 * t / (1 + t * t)


def rboost(rng, den=6):
    """rational (ch, sh, u) with ch^2-sh^2=1, u=e^t"""
    u = F(rng.randint(1, den), rng.randint(1, den))
    return (u + 1 / u) / 2, (u - 1 / u) / 2, u


def rmat(rng, m, n, num=4, den=3):
    return [[F(rng.randint(-num, num), rng.randint(1, den)) for _ in range(n)] for _ in range(m)]


def det(M):
    M = [list(r) for r in M]
    n = len(M)
    d = F(1)
    for c in range(n):
        p = next((r for r in range(c, n) if M[r][c] != 0), None)
        if p is None:
            return F(0)
        if p != c:
            M[c], M[p] = M[p], M[c]
            d = -d
        d *= M[c][c]
        for r in range(c + 1, n):
            f = M[r][c] / M[c][c]
            for k in range(c, n):
                M[r][k] -= f * M[c][k]
    return d


def rinv(rng, n, num=3, den=2, mindet=F(1, 4)):
    """random invertible rational matrix with |det| >= mindet and bounded entries."""
    while True:
        M = rmat(rng, n, n, num, den)
        if abs(det(M)) >= mindet:
            return M


def rsl2(rng, k=4, den=3):
    """random SL(2,Q) element as product of elementary matrices and a diagonal."""
    M = [[F(1), F(0)], [F(0), F(1)]]
    def mul(A, B):
        return [[sum(A[i][k] * B[k][j] for k in range(2)) for j in range(2)] for i in range(2)]
    for _ in range(k):
        t = F(rng.randint(-3, 3), rng.randint(1, den))
        c = rng.randrange(3)
        if c == 0:
            E = [[F(1), t], [F(0), F(1)]]
        elif c == 1:
            E = [[F(1), F(0)], [t, F(1)]]
        else:
            d = F(rng.randint(1, 3), rng.randint(1, 3))
            E = [[d, F(0)], [F(0), 1 / d]]
        M = mul(M, E)
    return M


def cayley(rng, n, den=3):
    """rational orthogonal matrix (Cayley transform of a random skew matrix)."""
    import sympy
    S = sympy.zeros(n, n)
    for i in range(n):
        for j in range(i + 1, n):
            v = sympy.Rational(rng.randint(-den, den), rng.randint(1, den))
            S[i, j] = v
            S[j, i] = -v
    I = sympy.eye(n)
    Q = (I - S) * (I + S).inv()
    return [[F(int(Q[i, j].p), int(Q[i, j].q)) for j in range(n)] for i in range(n)]


def tofloat(M):
    return np.array([[float(x) for x in r] for r in M]) if M and isinstance(M[0], list) else np.array([float(x) for x in M])
