"""Source anchors (DESIGN §3 / §8.9): a structural fingerprint of every function of the files a property is
anchored in, recorded for the tree the Lean model was written against (`lean/anchors.json`, committed;
regenerate with `tools/anchors.py update` after every `fix:` commit in /repo).

A changed fingerprint is **never** a violation: the model is hand-written, so the edit may be a harmless
rewrite.  It tells the check *where the code no longer is the text the model was transcribed from*; the
runner answers by searching deeper (extra rounds of every correspondence and oracle clause with fresh PRNG
streams, within a time cap) and by naming the changed functions in the evidence, so that an edit of modelled
code gets the deepest look exactly when it happens.  Fingerprints are SHA-256 of `ast.dump` of the function
(no line numbers, comments or formatting; docstrings stripped), so re-indenting or commenting changes nothing.
"""
import ast, hashlib, json, os, sys

VERIF = os.path.dirname(os.path.dirname(os.path.abspath(__file__)))
ANCHORS = os.path.join(VERIF, "lean", "anchors.json")


def _strip_doc(node):
    b = getattr(node, "body", None)
    if isinstance(b, list) and b and isinstance(b[0], ast.Expr) and isinstance(getattr(b[0], "value", None), ast.Constant) \
            and isinstance(b[0].value.value, str):
        node.body = b[1:] or [ast.Pass()]


def file_fingerprints(path):
    """{qualname: sha256} for every function/method, plus '<module>' for the module-level statements"""
    try:
        tree = ast.parse(open(path, encoding="utf-8").read())
    except Exception as e:  # a file that does not parse is reported as one changed anchor
        return {"<unparsable>": hashlib.sha256(repr(e).encode()).hexdigest()}
    out = {}

    def visit(node, prefix):
        for ch in ast.iter_child_nodes(node):
            if isinstance(ch, (ast.FunctionDef, ast.AsyncFunctionDef)):
                q = prefix + ch.name
                _strip_doc(ch)
                out[q] = hashlib.sha256(ast.dump(ch, annotate_fields=False, include_attributes=False).encode()).hexdigest()
                visit(ch, q + ".")
            elif isinstance(ch, ast.ClassDef):
                visit(ch, prefix + ch.name + ".")
            elif isinstance(ch, (ast.If, ast.Try, ast.With, ast.For, ast.While)):
                visit(ch, prefix)

    visit(tree, "")
    top = [n for n in tree.body if not isinstance(n, (ast.FunctionDef, ast.AsyncFunctionDef, ast.ClassDef))]
    mod = ast.Module(body=top, type_ignores=[])
    _strip_doc(mod)
    out["<module>"] = hashlib.sha256(ast.dump(mod, annotate_fields=False, include_attributes=False).encode()).hexdigest()
    return out


def property_files(pid):
    for ln in open(os.path.join(VERIF, "properties.jsonl")):
        p = json.loads(ln)
        if p["id"] == pid:
            return list(p.get("anchors", {}).get("files", []))
    return []


def all_files():
    fs = set()
    for ln in open(os.path.join(VERIF, "properties.jsonl")):
        fs.update(json.loads(ln).get("anchors", {}).get("files", []))
    return sorted(fs)


def snapshot(repo):
    return {f: file_fingerprints(os.path.join(repo, f)) for f in all_files() if os.path.exists(os.path.join(repo, f))}


def changed(pid, repo):
    """[(file, qualname, 'changed'|'added'|'removed')] for the files property `pid` is anchored in; None if no record"""
    if not os.path.exists(ANCHORS):
        return None
    doc = json.load(open(ANCHORS))
    if doc.get("python") != "%d.%d" % sys.version_info[:2]:
        return None          # ast.dump differs between Python versions: a record made by another interpreter says nothing
    rec = doc.get("files", {})
    out = []
    for f in property_files(pid):
        p = os.path.join(repo, f)
        old = rec.get(f)
        if old is None:
            continue
        if not os.path.exists(p):
            out.append((f, "<file>", "removed"))
            continue
        new = file_fingerprints(p)
        for q in sorted(set(old) | set(new)):
            if q not in new:
                out.append((f, q, "removed"))
            elif q not in old:
                out.append((f, q, "added"))
            elif old[q] != new[q]:
                out.append((f, q, "changed"))
    return out
