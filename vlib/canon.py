"""Canonicalisation and tolerant comparison (DESIGN §3)."""
import numpy as np


def arr(x):
    return np.asarray(x, dtype=complex if np.iscomplexobj(np.asarray(x)) else float)


def finite(x):
    x = np.asarray(x)
    try:
        return bool(np.all(np.isfinite(x.astype(complex))))
    except Exception:
        return False


def close(a, b, tol=1e-9):
    """|a-b| <= tol*(1+|b|) entrywise; shapes must agree; NaN/inf never close."""
    a, b = arr(a), arr(b)
    if a.shape != b.shape:
        return False
    if not (finite(a) and finite(b)):
        return False
    return bool(np.all(np.abs(a - b) <= tol * (1 + np.abs(b))))


def err(a, b):
    a, b = arr(a), arr(b)
    if a.shape != b.shape:
        return float("inf")
    if not (finite(a) and finite(b)):
        return float("inf")
    if a.size == 0:
        return 0.0
    return float(np.max(np.abs(a - b) / (1 + np.abs(b))))


def pnorm(v):
    """projective canonical form of the last axis: divide by the entry of largest modulus."""
    v = arr(v)
    flat = v.reshape(-1, v.shape[-1]).copy()
    for i, row in enumerate(flat):
        k = int(np.argmax(np.abs(row)))
        if abs(row[k]) > 0:
            flat[i] = row / row[k]
    return flat.reshape(v.shape)


def proj_close(a, b, tol=1e-9):
    a, b = arr(a), arr(b)
    if a.shape != b.shape or not (finite(a) and finite(b)):
        return False
    return close(pnorm(a), pnorm(b), tol) or _proj_close_slow(a, b, tol)


def _proj_close_slow(a, b, tol):
    # normalise b by the index where a is largest (avoids argmax ties flipping)
    fa = a.reshape(-1, a.shape[-1])
    fb = b.reshape(-1, b.shape[-1])
    for x, y in zip(fa, fb):
        k = int(np.argmax(np.abs(x)))
        if abs(x[k]) == 0:
            if np.max(np.abs(y)) > tol:
                return False
            continue
        if abs(y[k]) == 0:
            return False
        if np.max(np.abs(x / x[k] - y / y[k])) > tol * (1 + np.max(np.abs(x / x[k]))):
            return False
    return True


def mat_proj_close(A, B, tol=1e-9):
    """matrices equal up to one non-zero scalar per matrix (last two axes)."""
    A, B = arr(A), arr(B)
    if A.shape != B.shape:
        return False
    return proj_close(A.reshape(A.shape[:-2] + (-1,)), B.reshape(B.shape[:-2] + (-1,)), tol)
