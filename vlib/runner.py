"""Pipeline of one check run (DESIGN §1): S1 proof+audit, S2 correspondence, S3 oracle search.

exit 0 = held on everything explored; 1 = violation (VIOLATION line printed);
2 = infrastructure problem (time-out, cannot import /repo, ...).
"""
import sys, os, json, time, random, importlib, traceback, hashlib, argparse, signal

VERIF = os.path.dirname(os.path.dirname(os.path.abspath(__file__)))
REPO = os.environ.get("VERIF_REPO", "/repo")
sys.path.insert(0, REPO)
sys.path.insert(1, VERIF)

from vlib import leanio, anchors  # noqa: E402

TRUSTED_BASE = [
    "Lean 4.33.0 kernel; Mathlib v4.33.0 as checked library code",
    "axioms allowed in property theorems: propext, Classical.choice, Quot.sound (audited by #print axioms on every run)",
    "hand-written Lean model's faithfulness to the Python: checked by the correspondence stage on generated inputs only",
    "IEEE-754 rounding, numpy ufunc/linalg semantics, LAPACK, scipy: not modelled (contracts / tolerances)",
    "the harness itself: generators, canonicalisation, tolerances, known_findings.json matching",
]


class Clause:
    """One unit of S2 (kind='corr') or S3 (kind='oracle').

    gen(rng, n) -> iterable of JSON-able inputs (n = budget for the tier x scale)
    run(inp) -> JSON-able observation of the implementation (exceptions become {"exc": ...})
    lean(inp, obs) -> list of driver ops (optional)
    judge(inp, obs, lean_results) -> None, or dict(expected=..., observed=..., tags={...}[, call_site=...])
    """

    def __init__(self, name, kind, gen, run, judge, lean=None, nontrivial=None, site="",
                 budget=None, what=""):
        self.name, self.kind, self.gen, self.run, self.judge, self.lean = name, kind, gen, run, judge, lean
        self.nontrivial = nontrivial or (lambda inp: True)
        self.site = site
        self.budget = budget or {"quick": 100, "thorough": 2000}
        self.what = what


class Timeout(Exception):
    pass


_TIMED_OUT = [False]


def _alarm(signum, frame):
    _TIMED_OUT[0] = True          # remembered: a harness-side `except Exception` inside a clause may swallow the exception
    raise Timeout()


def load_known():
    p = os.path.join(VERIF, "known_findings.json")
    if not os.path.exists(p):
        return []
    return json.load(open(p)).get("findings", [])


def match_known(known, pid, failure):
    for k in known:
        if k.get("property") != pid or k.get("clause") != failure["clause"]:
            continue
        tags = failure.get("tags", {})
        if all(tags.get(a) == b for a, b in k.get("match", {}).items()):
            return k
    return None


def jsonable(x):
    try:
        import numpy as np
        if isinstance(x, np.ndarray):
            return x.tolist()
        if isinstance(x, (np.floating,)):
            return float(x)
        if isinstance(x, (np.integer,)):
            return int(x)
        if isinstance(x, (np.bool_,)):
            return bool(x)
        if isinstance(x, complex):
            return {"re": x.real, "im": x.imag}
    except Exception:
        pass
    if isinstance(x, (set, frozenset)):
        return sorted(map(jsonable, x), key=repr)
    if isinstance(x, tuple):
        return [jsonable(y) for y in x]
    return repr(x)


def dumps(x, **kw):
    return json.dumps(x, default=jsonable, **kw)


_CORPUS = {}
_PAR_CLAUSE = None


def _safe_run(cl, inp):
    try:
        return cl.run(inp)
    except Timeout:
        raise
    except Exception as e:  # implementation raised: this is an observation
        return {"exc": type(e).__name__, "msg": str(e)[:200]}


def _par_worker(inp):
    signal.alarm(0)
    return _safe_run(_PAR_CLAUSE, inp)


def corpus_inputs(cl):
    """committed minimised past failures (corpus/<ID>/*.json with keys clause,input) run first"""
    pid = _CORPUS.get("pid")
    if not pid:
        return []
    if "items" not in _CORPUS:
        items = []
        d = os.path.join(VERIF, "corpus", pid)
        if os.path.isdir(d):
            for f in sorted(os.listdir(d)):
                if f.endswith(".json"):
                    try:
                        items.append(json.load(open(os.path.join(d, f))))
                    except Exception:
                        pass
        _CORPUS["items"] = items
    return [it["input"] for it in _CORPUS["items"] if it.get("clause") == cl.name]


def run_clause(cl, rng, n, driver, stats, replay_input=None):
    """returns (failures, evaluations, distinct_nontrivial, samples)"""
    t0 = time.time()
    if replay_input is not None:
        inputs = [replay_input]
    else:
        inputs = corpus_inputs(cl) + list(cl.gen(rng, n))
    par = int(os.environ.get("VERIF_PAR", "1"))
    if par > 1 and len(inputs) >= 1500 and replay_input is None:
        # thorough tier: evaluate the implementation on the inputs in forked worker processes (each worker still
        # runs many cases in one interpreter, so state leaking between cases stays observable)
        import multiprocessing as mp
        global _PAR_CLAUSE
        _PAR_CLAUSE = cl
        with mp.get_context("fork").Pool(par) as pool:
            obs = pool.map(_par_worker, inputs, chunksize=max(1, len(inputs) // (par * 6)))
    else:
        obs = []
        for inp in inputs:
            obs.append(_safe_run(cl, inp))
            if _TIMED_OUT[0]:
                raise Timeout()       # the global time limit fired inside a clause that caught it: infrastructure, not an observation
    # a harness-side time guard (props' own per-call limits) that fires under machine load is not an observation of the
    # implementation: repeat such a case once, serially; only a guard that fires again is kept as the observation
    for i, o in enumerate(obs):
        if isinstance(o, dict) and o.get("exc") in ("Slow", "CallTimeout"):
            obs[i] = _safe_run(cl, inputs[i])
            if isinstance(obs[i], dict) and obs[i].get("exc") == "Slow":
                obs[i] = _safe_run(cl, inputs[i])
    lean_res = [[] for _ in inputs]
    if cl.lean is not None:
        ops, spans = [], []
        for inp, o in zip(inputs, obs):
            try:
                these = cl.lean(inp, o)
            except Exception as e:
                these = []
            spans.append((len(ops), len(ops) + len(these)))
            ops.extend(these)
        res = driver.batch(ops) if ops else []
        lean_res = [res[a:b] for a, b in spans]
    failures, seen = [], set()
    for inp, o, lr in zip(inputs, obs, lean_res):
        key = hashlib.sha1(dumps(inp, sort_keys=True).encode()).hexdigest()
        if key not in seen and cl.nontrivial(inp):
            seen.add(key)
        try:
            f = cl.judge(inp, o, lr)
        except Timeout:
            raise
        except Exception as e:
            f = {"expected": "judge to run", "observed": "judge raised %s: %s" % (type(e).__name__, str(e)[:300]),
                 "tags": {"judge_error": True}, "trace": traceback.format_exc()[-1500:]}
        if f:
            f.setdefault("tags", {})
            f.update(clause=cl.name, kind=cl.kind, input=inp, call_site=f.get("call_site", cl.site))
            failures.append(f)
    stats[cl.name] = {"kind": cl.kind, "evaluations": len(inputs), "distinct_nontrivial": len(seen),
                      "failures": len(failures), "wall_s": round(time.time() - t0, 2), "what": cl.what}
    samples = [{"clause": cl.name, "input": inputs[i], "impl": obs[i]} for i in range(min(1, len(inputs)))]
    return failures, len(inputs), len(seen), samples


def _tie_audit(pid, live=False):
    """which model definitions named in this property's theorem statements the driver executes (tools/tie_audit.py);
    thorough tier: computed on the spot from the compiled environment (lean/TieAudit.lean, ~15 s), quick tier: the committed record"""
    try:
        j = None
        if live:
            import subprocess
            p = subprocess.run(["lake", "env", "lean", "TieAudit.lean"], cwd=os.path.join(VERIF, "lean"), capture_output=True, text=True,
                               timeout=600, env=dict(os.environ, TIE_ONLY=pid))
            for ln in p.stdout.splitlines():
                if ln.startswith("{"):
                    j = json.loads(ln)
        src = "lean/TieAudit.lean run by this check" if j else "lean/tie_audit.json (tools/tie_audit.py --write)"
        if j is None:
            j = json.load(open(os.path.join(VERIF, "lean", "tie_audit.json")))[pid]
        return {"model_defs_in_theorem_statements": j["model_defs_in_statements"], "executed_by_driver": j["executed_by_driver"],
                "bridged_by_proved_equation": len(j["bridged"]), "classified_spec_or_contract": j["classified"],
                "untied": j["untied"], "from": src}
    except Exception:
        return None


def main(argv=None):
    ap = argparse.ArgumentParser()
    ap.add_argument("pid")
    ap.add_argument("--tier", default=os.environ.get("VERIF_TIER", "quick"))
    ap.add_argument("--replay")
    ap.add_argument("--skip-lean", action="store_true", help="debug: skip S1")
    ap.add_argument("--only", help="debug: run only this clause")
    a = ap.parse_args(argv)
    pid, tier = a.pid, a.tier
    seed = int(os.environ.get("VERIF_SEED", "0") or 0)
    t0 = time.time()
    limit = int(os.environ.get("VERIF_TIMEOUT", "900" if tier == "quick" else "7200"))
    if tier == "thorough":
        os.environ.setdefault("VERIF_PAR", "8")
    signal.signal(signal.SIGALRM, _alarm)
    signal.alarm(limit)
    try:
        return _main(a, pid, tier, seed, t0)
    except Timeout:
        print(f"TIMEOUT property={pid} after {limit}s (infrastructure, not a violation)")
        return 2


def _main(a, pid, tier, seed, t0):
    try:
        import geometry_tools
        assert os.path.abspath(geometry_tools.__file__).startswith(os.path.abspath(REPO) + os.sep), geometry_tools.__file__
    except Exception as e:
        print(f"INFRA: cannot import geometry_tools from {REPO}: {e!r}")
        return 2
    _CORPUS["pid"] = pid
    mod = importlib.import_module(f"props.{pid}")
    clauses = mod.CLAUSES
    level = getattr(mod, "LEVEL", "proof")
    known = load_known()
    rng = random.Random(f"{pid}-{seed}")
    driver = leanio.Driver()

    # ---------------------------------------------------------------- replay mode
    if a.replay:
        rp = json.load(open(a.replay))
        if rp.get("kind") == "broken-theorem":
            s1 = leanio.proof_stage(pid, tier)
            print(dumps(s1, indent=1))
            return 0 if s1["ok"] else 1
        cl = next(c for c in clauses if c.name == rp["clause"])
        fails, *_ = run_clause(cl, rng, 1, driver, {}, replay_input=rp["input"])
        if fails:
            print("REPLAY: still fails:", dumps(fails[0])[:2000])
            print(f"VIOLATION property={pid} replay={a.replay}")
            return 1
        print("REPLAY: passes on the current tree")
        return 0

    # ---------------------------------------------------------------- S1
    if a.skip_lean:
        s1 = {"ok": True, "obligations": 0, "discharged": 0, "broken": [], "skipped": True}
    else:
        s1 = leanio.proof_stage(pid, tier)
    if s1.get("infra"):
        print("INFRA:", s1["infra"])
        return 2

    # ---------------------------------------------------------------- S2 + S3
    stats, samples, all_fail = {}, [], []
    ev = dn = 0
    for cl in clauses:
        if a.only and cl.name != a.only:
            continue
        f, e, d, s = run_clause(cl, rng, cl.budget.get(tier, cl.budget["quick"]), driver, stats)
        all_fail += f
        ev += e
        dn += d
        samples += s
    corr_broken = [f for f in all_fail if f["kind"] == "corr" and not f.get("property_failure")]
    escalated = False
    if (not s1["ok"] or corr_broken) and not a.only:
        # a tie broke: search the implementation for a concrete failing input with 10x budget
        escalated = True
        rng2 = random.Random(f"{pid}-{seed}-escalated")
        real_already = [f for f in all_fail if f["kind"] == "oracle" or f.get("property_failure")]
        try:
            for cl in clauses:
                if cl.kind != "oracle" or real_already:
                    continue          # a concrete failing input is already in hand: no need to search further
                st = {}
                f, e, d, s = run_clause(cl, rng2, 10 * cl.budget.get(tier, cl.budget["quick"]), driver, st)
                stats[cl.name + "@x10"] = st[cl.name]
                all_fail += f
                ev += e
                dn += d
                if f:
                    break
        except Timeout:
            # the escalated search ran out of time: report what the regular stages found (never turn a
            # broken tie into an infrastructure error)
            escalated = "timed out"

    # ---------------------------------------------------------------- source anchors: deeper search where the code moved
    # A function of the files this property is anchored in no longer has the text the model was transcribed from
    # (lean/anchors.json).  That is not a violation; it is the signal to look harder: extra rounds of every clause with
    # fresh PRNG streams, until something fails or the time cap is reached.  On the recorded tree nothing changes.
    try:
        changed_anchors = anchors.changed(pid, REPO)
    except Exception as e:
        changed_anchors = None
    anchor_rounds = 0
    if os.environ.get("VERIF_ANCHOR_FORCE") == "1" and not changed_anchors:
        changed_anchors = [("<forced>", "VERIF_ANCHOR_FORCE=1", "soak")]      # development aid: extra rounds on any tree
    def _unlisted(fs):
        """failures that are not (oracle / property failures matching) a known finding"""
        return [f for f in fs if not ((f["kind"] == "oracle" or f.get("property_failure")) and match_known(known, pid, f))]
    if changed_anchors and not _unlisted(all_fail) and not a.only and os.environ.get("VERIF_ANCHOR_BOOST", "1") != "0":
        cap = float(os.environ.get("VERIF_ANCHOR_CAP", "420" if tier == "quick" else "2400"))
        max_rounds = int(os.environ.get("VERIF_ANCHOR_ROUNDS", "4" if tier == "quick" else "2"))
        try:
            for r in range(1, max_rounds + 1):
                if time.time() - t0 > cap or _unlisted(all_fail):
                    break
                rng3 = random.Random(f"{pid}-{seed}-anchor{r}")
                anchor_rounds = r
                for cl in clauses:
                    if time.time() - t0 > cap:
                        break
                    st = {}
                    f, e, d, s = run_clause(cl, rng3, cl.budget.get(tier, cl.budget["quick"]), driver, st)
                    stats[cl.name + f"@anchor{r}"] = st[cl.name]
                    all_fail += f
                    ev += e
                    dn += d
                    if _unlisted(f):
                        break
        except Timeout:
            anchor_rounds = "timed out"
        corr_broken = [f for f in all_fail if f["kind"] == "corr" and not f.get("property_failure")]

    # ---------------------------------------------------------------- verdict
    os.makedirs(os.path.join(VERIF, "replays"), exist_ok=True)
    lines, new_viol, known_hit = [], [], {}
    real = [f for f in all_fail if f["kind"] == "oracle" or f.get("property_failure")]
    seen_sig = set()
    k = 0
    for f in real:
        kf = match_known(known, pid, f)
        if kf:
            known_hit.setdefault(kf["id"], (kf, 0))
            known_hit[kf["id"]] = (kf, known_hit[kf["id"]][1] + 1)
            continue
        sig = (f["clause"], dumps(f.get("tags", {}), sort_keys=True))
        if sig in seen_sig or len(seen_sig) >= 5:
            continue
        seen_sig.add(sig)
        path = os.path.join(VERIF, "replays", f"{pid}-{seed}-{k}.json")
        k += 1
        json.dump({"property": pid, "kind": "failing-input", "clause": f["clause"], "call_site": f["call_site"],
                   "tags": f.get("tags", {}), "input": f["input"], "expected": f.get("expected"),
                   "observed": f.get("observed"), "how_to_run": f"./check {pid} --replay {path}"},
                  open(path, "w"), default=jsonable, indent=1)
        new_viol.append(path)
        lines.append(f"VIOLATION property={pid} replay={path}")
        print(f"  failing input [{f['clause']} @ {f['call_site']}]: expected {str(f.get('expected'))[:300]} ; observed {str(f.get('observed'))[:300]}")
    for kid, (kf, cnt) in known_hit.items():
        print(f"KNOWN-FINDING: property={pid} {kid}: {kf['what']} ({cnt} inputs this run)")
    if not new_viol:
        if not s1["ok"]:
            path = os.path.join(VERIF, "replays", f"{pid}-{seed}-theorem.json")
            json.dump({"property": pid, "kind": "broken-theorem", "broken": s1["broken"],
                       "how_to_run": f"./check {pid} --replay {path}"}, open(path, "w"), indent=1)
            lines.append(f"VIOLATION property={pid} replay={path} no-failing-input-found")
            print("  proof stage broken:", dumps(s1["broken"])[:1500])
        elif corr_broken:
            f = corr_broken[0]
            path = os.path.join(VERIF, "replays", f"{pid}-{seed}-corr.json")
            json.dump({"property": pid, "kind": "broken-correspondence", "clause": f["clause"],
                       "call_site": f["call_site"], "input": f["input"], "expected": f.get("expected"),
                       "observed": f.get("observed"), "tags": f.get("tags", {}),
                       "how_to_run": f"./check {pid} --replay {path}"}, open(path, "w"), default=jsonable, indent=1)
            lines.append(f"VIOLATION property={pid} replay={path} no-failing-input-found")
            print(f"  correspondence broken [{f['clause']} @ {f['call_site']}] ({len(corr_broken)} cases): model {str(f.get('expected'))[:400]} ; implementation {str(f.get('observed'))[:400]}")
    wall = time.time() - t0

    # ---------------------------------------------------------------- evidence
    cov = {
        "obligations": s1["obligations"], "discharged": s1["discharged"],
        "checker_cmd": s1.get("checker_cmd", "lake build GT.Properties.%s && lake env lean .audit/%s.lean (#print axioms)" % (pid, pid)),
        "trusted_base": TRUSTED_BASE + getattr(mod, "TRUSTED", []),
        "theorems": s1.get("theorems", {}), "partial_theorems": s1.get("partial", []),
        "nonvacuity_examples": s1.get("examples", 0), "leanchecker": s1.get("leanchecker"),
        "evaluations": max(ev, 1), "distinct_nontrivial": dn,
        "rule": getattr(mod, "RULE", "inputs drawn from one PRNG seeded by (property, VERIF_SEED); distinct = distinct JSON input; non-trivial per clause predicate"),
        "samples": samples[:12], "clauses": stats, "escalated_search": escalated,
        "explanation": getattr(mod, "EXPLANATION", ""),
        "model_ops": driver.ops_sent, "driver_errors": driver.errors,
        "known_findings_hit": {k: v[1] for k, v in known_hit.items()},
        "repo": REPO,
        "changed_anchors": None if changed_anchors is None else [list(x) for x in changed_anchors][:40],
        "anchor_rounds": anchor_rounds,
        "tie_audit": _tie_audit(pid, live=(tier == "thorough" and not a.skip_lean)),
    }
    evd = {"property_id": pid, "tier": tier if tier in ("quick", "thorough") else "quick", "seed": seed, "level": level,
           "coverage": cov, "assumptions": getattr(mod, "ASSUMPTIONS", []), "wall_s": round(wall, 2),
           "violations": len(lines)}
    evdir = os.environ.get("VERIF_EVIDENCE_DIR", os.path.join(VERIF, "evidence"))
    if a.skip_lean or a.only:
        evdir = "/tmp/verif_debug_evidence"      # debug runs never overwrite real evidence
    os.makedirs(evdir, exist_ok=True)
    with open(os.path.join(evdir, f"{pid}.json"), "w") as fh:
        fh.write(dumps(evd, indent=1))
    for ln in lines:
        print(ln)
    print(f"{pid} {tier} seed={seed}: S1 {s1['discharged']}/{s1['obligations']} theorems, {ev} evaluations, "
          f"{len(all_fail)} failing cases, {len(lines)} violations, {wall:.1f}s")
    return 1 if lines else 0


if __name__ == "__main__":
    sys.exit(main())
