#!/bin/bash
# runs the repository's pinned baseline (guard off) and checks the 79 stable tests still pass
cd "${VERIF_REPO:-/repo}" && /venv/bin/python -m pytest -ra -q -p no:cacheprovider --timeout=900 --continue-on-collection-errors --junitxml=/tmp/gt_baseline.$$.junit.xml > /tmp/gt_baseline.$$.log 2>&1
export GT_JUNIT=/tmp/gt_baseline.$$.junit.xml
/venv/bin/python - <<'PY'
import json, xml.etree.ElementTree as ET, sys, os
base = json.load(open('/root/.vp/BASELINE.json'))
t = ET.parse(os.environ['GT_JUNIT'])
ok = set()
for tc in t.iter('testcase'):
    if not any(ch.tag in ('failure', 'error', 'skipped') for ch in tc):
        ok.add(tc.get('classname') + '::' + tc.get('name'))
missing = [x for x in base['stable_pass'] if x not in ok]
print(f"baseline: {len(base['stable_pass']) - len(missing)}/{len(base['stable_pass'])} stable tests pass")
for m in missing: print("  NOT PASSING:", m)
sys.exit(1 if missing else 0)
PY
rc=$?; rm -f /tmp/gt_baseline.$$.junit.xml /tmp/gt_baseline.$$.log; exit $rc
