#!/usr/bin/env python3
"""Regenerates MANIFEST.json from props/meta/<ID>.json (one file per property)."""
import json, os
HERE = os.path.dirname(os.path.abspath(__file__))
meta = {}
for f in sorted(os.listdir(os.path.join(HERE, "props", "meta"))):
    if f.endswith(".json"):
        meta[f[:-5]] = json.load(open(os.path.join(HERE, "props", "meta", f)))
props = [json.loads(l) for l in open(os.path.join(HERE, "properties.jsonl"))]
checks, na = [], []
for p in props:
    pid = p["id"]
    m = meta.get(pid)
    if not m or not m.get("claimed"):
        na.append({"property_id": pid, "reason": (m or {}).get("reason", "check not built yet (work in progress; see DESIGN.md §6 milestones)")})
        continue
    checks.append({
        "property_id": pid,
        "quick_cmd": f"./check {pid} --tier quick",
        "thorough_cmd": f"./check {pid} --tier thorough",
        "evidence_file": f"/verif/evidence/{pid}.json",
        "replay_cmd_template": f"./check {pid} --replay {{path}}",
        "engine": "lean4-proof+correspondence",
        "level_claimed": {"category": m["category"], "text": m["text"], "design_ref": m.get("design_ref", f"DESIGN.md §4 {pid}")},
        "level_note": m["note"],
        "technique": m["technique"],
    })
man = {
    "version": 1,
    "setup_cmd": "cd lean && lake build",
    "hooks": {"guard": "GEOMETRY_TOOLS_VERIF", "enable": "none needed: the harness imports /repo's working tree in-process; no source hooks exist",
              "baseline_off_cmd": "cd /repo && /venv/bin/python -m pytest -ra -q -p no:cacheprovider --timeout=900 --continue-on-collection-errors",
              "source_commits": [], "add_only": True},
    "engines": [{"name": "lean4-proof+correspondence", "path": "check",
                 "serves_properties": [c["property_id"] for c in checks],
                 "kind_free_text": "Lean 4 theorems about a hand-written executable model (lean/GT), axiom audit, exact-rational correspondence between model and /repo via a JSON line protocol, oracle search for failing inputs"}],
    "checks": checks,
    "notes": "See DESIGN.md. Fix commits in /repo are recorded in known_findings.json ('fixed' entries).",
    "not_applicable": na,
}
json.dump(man, open(os.path.join(HERE, "MANIFEST.json"), "w"), indent=1)
print(f"{len(checks)} checks, {len(na)} not claimed")
