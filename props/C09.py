"""C09 — an automaton's three views stay coherent however it was built or edited (DESIGN §4 C09)."""
import copy, os, re, tempfile
from vlib.runner import Clause
from props import _fsa as U
from geometry_tools.automata import fsa as FS, gap_parse, kbmag_utils

LEVEL = "proof"
EXPLANATION = ("Lean theorems about the association-list model of FSA (lean/GT/Model/FSA.lean): the invariant Coherent "
               "(three views list the same labelled edges on the same vertex set, no label twice, label view deterministic, "
               "no empty entry) holds after every construction route and is preserved by every mutator, hence over any "
               "operation history; each mutator refines the plain set model. Correspondence: random and bounded-exhaustive "
               "histories run on the real FSA and on the model, all three dictionaries compared after every step. Oracle: the "
               "coherence predicate and a tiny set-based reference evaluated on the real object after every step; kbmag texts.")
ASSUMPTIONS = ["Python dict = insertion-ordered association list; copy.deepcopy = identity of the pure model",
               "histories use the operations named in the property (queries has_edge/edge_labels on non-edges are outside, D13)",
               "add_edges is used under the class's precondition: a new edge never contradicts an existing (tail,label)",
               "the text->record parser (gap_parse) is modelled separately (C09Parse); here only table->automaton"]

ERRMAP = {"KeyError": "KeyError", "IndexError": "IndexError", "FSAException": "FSAException"}


# ------------------------------------------------------------------ histories: implementation side
def run_history(inp):
    steps = []
    try:
        A, _ = U.build(inp["init"])
    except Exception as e:
        if U.exc_name(e) in ("Timeout", "CallTimeout"):
            raise
        return {"steps": [{"err": U.exc_name(e)}]}
    steps.append(U.views(A))
    for op in inp["ops"]:
        try:
            A = U.apply_op(A, op)
        except Exception as e:
            if U.exc_name(e) in ("Timeout", "CallTimeout"):
                raise
            steps.append({"err": U.exc_name(e)})
            break
        steps.append(U.views(A))
    return {"steps": steps}


def lean_history(inp, obs):
    return [{"op": "c09.run", "init": inp["init"], "ops": inp["ops"]}]


def _valid_prefix(inp):
    """number of leading operations that satisfy the documented preconditions"""
    _, ref = U.build(inp["init"])
    n = 0
    for op in inp["ops"]:
        if not ref.valid(op):
            break
        ref.apply(op)
        n += 1
    return n


def judge_history_corr(inp, obs, lr):
    if not lr or "err" in lr[0]:
        return {"expected": "model answer", "observed": lr[:1], "tags": {"driver_err": True}}
    msteps, isteps = lr[0]["ok"], obs["steps"]
    nvalid = _valid_prefix(inp)
    for k in range(max(len(msteps), len(isteps))):
        opk = inp["ops"][k - 1]["k"] if k > 0 else "construct:" + inp["init"]["route"]
        m = msteps[k] if k < len(msteps) else None
        i = isteps[k] if k < len(isteps) else None
        if m is None or i is None:
            return {"expected": m, "observed": i, "tags": {"op": opk, "diff": "history-length"}}
        if "err" in m or "err" in i:
            if "err" in m and "err" in i:
                return None          # both refuse; which exception class is raised outside a precondition is not compared
            return {"expected": m, "observed": i, "tags": {"op": opk, "diff": "error"},
                    "property_failure": bool(k <= nvalid and "err" in i)}
        cm, ci = U.canon(m), U.canon(i)
        if cm != ci:
            which = [x for x in ("g", "o", "i", "starts") if cm[x] != ci[x]]
            # the disagreement shows the property failing by itself when the real views are incoherent on a valid history
            bad = U.coherence_problems(i) if k <= nvalid else []
            return {"expected": cm, "observed": ci, "tags": {"op": opk, "diff": "+".join(which), "problems": "+".join(bad)},
                    "property_failure": bool(bad)}
    return None


def gen_hist_corr(rng, n):
    for _ in range(n):
        yield U.rand_history(rng, maxlen=rng.choice([5, 10, 20, 40]), p_invalid=0.15,
                             alphabets=("default", "default", "permuted", "multi", "case"))


def gen_hist_exh(rng, n):
    # n = cap on the number of histories; depth grows until the cap is hit
    got = 0
    for depth in (1, 2, 3, 4):
        for h in U.exhaustive_histories(depth, limit=n - got):
            yield h
            got += 1
        if got >= n:
            return


# ------------------------------------------------------------------ histories: oracle
def run_history_oracle(inp):
    """the property itself: after construction and after every valid step the three views are coherent,
    duplicate-free and equal to the set model"""
    A, ref = U.build(inp["init"])
    starts0 = list(A.start_vertices)          # no operation of the property touches the start list
    pb = U.coherence_problems(U.views(A), ref)
    if "starts" in inp["init"] and starts0 != list(inp["init"]["starts"]):
        pb.append("start-list")
    if pb:
        return {"step": 0, "op": "construct:" + inp["init"]["route"], "problems": pb, "views": U.views(A)}
    for k, op in enumerate(inp["ops"], 1):
        if not ref.valid(op):
            break
        before = U.views(A) if op["k"] == "copy" else None
        orig = A
        A = U.apply_op(A, op)
        ref.apply(op)
        vw = U.views(A)
        pb = U.coherence_problems(vw, ref)
        if op["k"] == "copy" and U.views(orig) != before:
            pb.append("copy-changed-original")
        if list(A.start_vertices) != starts0:
            pb.append("start-list")
        if pb:
            return {"step": k, "op": op["k"], "problems": pb, "views": vw,
                    "elist_ir": [op.get("ir")] if op["k"] in ("adde", "addel") else None}
    # the public read accessors agree with the reference
    E, V = ref.E, ref.V
    pb = []
    if set(A.vertices()) != V:
        pb.append("vertices()")
    if set(A.edges(with_labels=True)) != {(t, h, l) for (t, l, h) in E} or len(list(A.edges())) != len(E):
        pb.append("edges()")
    for v in sorted(V, key=U.key):
        eo, ei = list(A.edges_out(v)), list(A.edges_in(v))
        if sorted(eo, key=repr) != sorted(((t, h, l) for (t, l, h) in E if t == v), key=repr):
            pb.append("edges_out")
        if sorted(ei, key=repr) != sorted(((t, h, l) for (t, l, h) in E if h == v), key=repr):
            pb.append("edges_in")
        if set(A.neighbors_out(v)) != {h for (t, l, h) in E if t == v} or set(A.neighbors_in(v)) != {t for (t, l, h) in E if h == v}:
            pb.append("neighbors")
        for w in set(A.neighbors_out(v)):
            labs = sorted(l for (t, l, h) in E if t == v and h == w)
            if sorted(A.edge_labels(v, w)) != labs or not A.has_edge(v, w):
                pb.append("edge_labels")
            try:                                    # edge_label: the label of the unique edge, ValueError otherwise
                got = ("ok", A.edge_label(v, w))
            except ValueError:
                got = ("ValueError",)
            if got != (("ok", labs[0]) if len(labs) == 1 else ("ValueError",)):
                pb.append("edge_label")
    if sorted(A.edges(), key=repr) != sorted(((t, h) for (t, l, h) in E), key=repr):
        pb.append("edges(with_labels=False)")
    pb += U.coherence_problems(U.views(A), ref)
    if pb:
        return {"step": len(inp["ops"]), "op": "accessors", "problems": sorted(set(pb)), "views": U.views(A)}
    return {"ok": True}


def judge_history_oracle(inp, obs, lr):
    if obs.get("ok"):
        return None
    if "exc" in obs:
        return {"expected": "every valid operation succeeds", "observed": obs, "tags": {"exc": obs["exc"]}}
    return {"expected": "three views coherent, duplicate-free and equal to the set model after every step",
            "observed": obs, "tags": {"op": obs["op"], "problems": "+".join(obs["problems"])}}


def gen_hist_oracle(rng, n):
    for _ in range(n):
        yield U.rand_history(rng, maxlen=rng.choice([3, 6, 12, 40]), p_invalid=0.0, conflicts=True,
                             alphabets=("default", "default", "permuted", "multi", "case", "int"))


# ------------------------------------------------------------------ built-in files, table -> automaton
def gen_builtin(rng, n):
    for name in U.builtin_names():
        yield {"name": name}


def run_builtin(inp):
    A = FS.load_builtin(inp["name"])
    rec, _ = gap_parse.parse_record(U.builtin_text(inp["name"]))
    tab = next(d for d in rec.values() if isinstance(d, dict) and d.get("isFSA") == "true")
    return {"views": U.views(A), "labels": list(tab["alphabet"]["names"]),
            "transitions": [list(r) for r in tab["table"]["transitions"]], "initial": list(tab["initial"])}


def lean_builtin(inp, obs):
    if "exc" in obs:
        return []
    return [{"op": "c09.run", "init": {"route": "kbmag", "labels": obs["labels"], "transitions": obs["transitions"],
                                        "initial": obs["initial"]}, "ops": []}]


def judge_builtin(inp, obs, lr):
    if "exc" in obs:
        return {"expected": "built-in file loads", "observed": obs, "tags": {"exc": obs["exc"]}, "property_failure": True}
    if not lr or "err" in lr[0]:
        return {"expected": "model answer", "observed": lr[:1], "tags": {"driver_err": True}}
    cm, ci = U.canon(lr[0]["ok"][0]), U.canon(obs["views"])
    if cm != ci:
        return {"expected": "model of build_dict + FSA", "observed": "views differ", "tags": {"file": inp["name"]}}
    return None


# ------------------------------------------------------------------ kbmag record texts (oracle)
def render_kbmag(rng, labels, transitions, initial, style):
    """a syntactically valid kbmag FSA record with random layout"""
    def ws(p=0.5):
        return rng.choice(["", " ", "  ", "\n", "\n   ", "\t"]) if rng.random() < p else ""

    def lst(items, interval_ok=True):
        ints = all(isinstance(x, int) for x in items)
        if (interval_ok and ints and len(items) >= 1 and style["intervals"]
                and items == list(range(items[0], items[0] + len(items))) and rng.random() < 0.7):
            return "[%d..%d]" % (items[0], items[-1])
        return "[" + ",".join(ws(style["inner"]) + str(x) + ws(style["inner"]) for x in items) + "]"

    names = [('"%s"' % l) if style["quoted"] else l for l in labels]
    rows = ("," + ws(0.9)).join(lst(r) for r in transitions)
    nl = lambda: ws(0.9)
    fields = [
        ("isFSA", "true"),
        ("alphabet", "rec(%s type := \"identifiers\",%s size := %d,%s format := \"dense\",%s names := %s%s)" % (
            nl(), nl(), len(labels), nl(), nl(), "[" + ",".join(names) + "]", nl())),
        ("states", "rec(%s type := \"simple\",%s size := %d%s)" % (nl(), nl(), len(transitions), nl())),
        ("flags", '["DFA","minimized","BFS","accessible","trim"]'),
        ("initial", lst(initial)),
        ("accepting", lst(list(range(1, len(transitions) + 1)))),
        ("table", "rec(%s format := \"dense deterministic\",%s numTransitions := %d,%s transitions := [%s%s]%s)" % (
            nl(), nl(), sum(1 for r in transitions for t in r if t), nl(), rows, nl(), nl())),
    ]
    body = ("," + nl()).join("%s%s :=%s%s" % (ws(0.7), k, rng.choice([" ", "  ", ""]), v) for k, v in fields)
    return "%s := rec(%s%s%s);%s" % (style["name"], nl(), body, nl(), rng.choice(["", "\n"]))


def gen_kbmag(rng, n):
    for name in U.builtin_names():
        yield {"builtin": name}
    # G14: one state, one letter, every list an interval [k..k]
    for transitions in ([[1]], [[0]], [[2], [2]]):
        st = {"intervals": True, "quoted": False, "inner": 0.0, "name": "_RWS.wa"}
        text = render_kbmag(rng, ["a"], transitions, [1], st)
        while "[1..1]" not in text:
            text = render_kbmag(rng, ["a"], transitions, [1], st)
        yield {"labels": ["a"], "transitions": transitions, "initial": [1], "text": text, "style": st}
    for _ in range(n):
        nl = rng.choice([1, 2, 2, 3, 4, 6])
        alphabet = rng.choice([list("abcdef"), list("aAbBcC"), ["x", "y", "zz", "gen1", "t_2", "Q"]])
        labels = alphabet[:nl]
        ns = rng.choice([1, 2, 3, 5, 8])
        dense = rng.random()
        transitions = [[rng.randint(1, ns) if rng.random() < dense else 0 for _ in labels] for _ in range(ns)]
        if rng.random() < 0.2 and ns >= nl:
            transitions[rng.randrange(ns)] = list(range(1, nl + 1))       # a row that can be written as an interval
        style = {"intervals": rng.random() < 0.7, "quoted": rng.random() < 0.3, "inner": rng.choice([0.0, 0.0, 0.4]),
                 "name": rng.choice(["_RWS.wa", "fsa", "G.geowa", "rws_1"])}
        initial = [rng.randint(1, ns)]
        yield {"labels": labels, "transitions": transitions, "initial": initial,
               "text": render_kbmag(rng, labels, transitions, initial, style), "style": style}


def run_kbmag(inp):
    if "builtin" in inp:
        text = U.builtin_text(inp["builtin"])
        labels, transitions, initial = U.table_of_text(text)
        autos = [FS.load_builtin(inp["builtin"])]
    else:
        text, labels, transitions, initial = inp["text"], inp["labels"], inp["transitions"], inp["initial"]
        autos = []
        fd, path = tempfile.mkstemp(suffix=".wa")
        try:
            with os.fdopen(fd, "w") as fh:
                fh.write(text)
            autos.append(FS.load_kbmag_file(path))
        finally:
            os.unlink(path)
    want_E = {(i + 1, l, t) for i, row in enumerate(transitions) for l, t in zip(labels, row) if t != 0}
    want_V = set(range(1, len(transitions) + 1))
    out = {"ok": True}
    for A in autos:
        if A is None:
            return {"ok": False, "why": "loader returned None"}
        vw = U.views(A)
        pb = U.coherence_problems(vw, U.Ref(want_V | {e[2] for e in want_E}, want_E))
        if list(A.start_vertices) != list(initial):
            pb.append("start-state")
        # the loaded table, read back from the label view, is the table in the text
        back = [[dict(A.graph_dict.get(i + 1, {})).get(l, 0) for l in labels] for i in range(len(transitions))]
        if back != [list(r[:len(labels)]) + [0] * (len(labels) - len(r)) for r in transitions]:
            pb.append("table")
        if pb:
            return {"ok": False, "why": pb, "starts": list(A.start_vertices)}
    return out


def judge_kbmag(inp, obs, lr):
    if obs.get("ok"):
        return None
    tags = {"builtin": inp.get("builtin", ""), "why": "+".join(obs.get("why", [])) if isinstance(obs.get("why"), list) else str(obs.get("why", obs.get("exc")))}
    if "style" in inp:
        tags.update(quoted=inp["style"]["quoted"], inner_space=inp["style"]["inner"] > 0)
    return {"expected": "loaded automaton = transition table and start state written in the text", "observed": obs, "tags": tags}



# ------------------------------------------------------------------ renderings outside the verified grammar (known findings)
def gen_kbmag_exotic(rng, n):
    kinds = ["interval_spaces", "empty_interval", "crlf"]
    for i in range(n):
        nl, ns = rng.choice([1, 2, 3]), rng.choice([1, 2, 3])
        labels = list("abc")[:nl]
        transitions = [[rng.randint(0, ns) for _ in labels] for _ in range(ns)]
        style = {"intervals": True, "quoted": False, "inner": 0.0, "name": "_RWS.wa"}
        text = None
        while text is None or not re.search(r"accepting :=\s*\[\d+\.\.\d+\]", text) or "\n" not in text:
            text = render_kbmag(rng, labels, transitions, [1], style)
        kind = kinds[i % 3]
        if kind == "interval_spaces":
            text = re.sub(r"(accepting :=\s*)\[(\d+)\.\.(\d+)\]", lambda m: "%s[%s%s .. %s%s]" % (m.group(1), rng.choice(["", " "]), m.group(2), m.group(3), rng.choice(["", " "])), text, count=1)
        elif kind == "empty_interval":
            text = re.sub(r"(accepting :=\s*)\[(\d+)\.\.(\d+)\]", lambda m: m.group(1) + "[1..0]", text, count=1)
        else:
            text = text.replace("\n", "\r\n")
        yield {"labels": labels, "transitions": transitions, "initial": [1], "text": text, "exotic": kind}


def judge_kbmag_exotic(inp, obs, lr):
    if obs.get("ok"):
        return None
    return {"expected": "loaded automaton = transition table and start state written in the text", "observed": obs,
            "tags": {"exotic": inp["exotic"]}}


# ------------------------------------------------------------------ several objects in one process
SMALL_BUILTINS = ["f2.wa", "f2.geowa", "pentagon_ra.wa", "cone_torus.wa", "cox334.wa", "cox334.geowa"]
_TABLES = {}


def builtin_table(name):
    if name not in _TABLES:
        _TABLES[name] = U.table_of_text(U.builtin_text(name))
    return _TABLES[name]


def table_ref(labels, transitions):
    E = {(i + 1, l, t) for i, row in enumerate(transitions) for l, t in zip(labels, row) if t != 0}
    return U.Ref(set(range(1, len(transitions) + 1)) | {e[2] for e in E}, E)


def dict_ref(route, d):
    """set model of FSA(d) for the caller dictionary in its JSON form"""
    if route == "graph":
        V = {v for v, _ in d} | {w for _, row in d for _, w in row}
        E = {(v, l, w) for v, row in d for l, w in row}
    else:
        V = {v for v, _ in d}
        E = {(v, l, w) for v, row in d for w, ls in row for l in ls}
    return U.Ref(V, E)


def dict_edit(route, d, starts, edit):
    """the caller modifies its own dictionary / start list (JSON form; mirrored on the real objects by `real_dict_edit`)"""
    k = edit["e"]
    if k == "newkey":
        d.append([edit["v"], []])
    elif k == "entry":
        row = next(r for v, r in d if v == edit["v"])
        if route == "graph":
            row.append([edit["l"], edit["w"]])
        else:
            ent = next((e for e in row if e[0] == edit["w"]), None)
            if ent is None:
                row.append([edit["w"], [edit["l"]]])
            else:
                ent[1].append(edit["l"])
    elif k == "start":
        starts.append(edit["v"])


def real_dict_edit(route, D, S, edit):
    k = edit["e"]
    if k == "newkey":
        D[edit["v"]] = {}
    elif k == "entry":
        if route == "graph":
            D[edit["v"]][edit["l"]] = edit["w"]
        else:
            D[edit["v"]].setdefault(edit["w"], []).append(edit["l"])
    elif k == "start":
        S.append(edit["v"])


def json_of_dict(route, D):
    if route == "graph":
        return [[v, [[l, w] for l, w in row.items()]] for v, row in D.items()]
    return [[v, [[w, list(ls)] for w, ls in row.items()]] for v, row in D.items()]


def gen_objects(rng, n):
    names = SMALL_BUILTINS
    for _ in range(n):
        steps, refs, univ = [], [], []          # refs[i], univ[i]: reference and (vertices, labels) universe of object i
        dicts = []                              # [route, json d, starts]
        files = []                              # kbmag texts: (labels, transitions, initial)
        for _ in range(rng.randint(4, 14)):
            r = rng.random()
            if r < 0.12 or not (dicts or refs):
                route = rng.choice(["graph", "out", "out"])
                init = None
                while init is None or init["route"] != route:
                    init = U.rand_init(rng)
                d, st = copy.deepcopy(init["d"]), list(init["starts"])
                dicts.append([route, d, st])
                steps.append({"k": "newdict", "route": route, "d": copy.deepcopy(d), "starts": list(st)})
            elif r < 0.27 and dicts:
                j = rng.randrange(len(dicts))
                route, d, st = dicts[j]
                steps.append({"k": "build", "from": j})
                refs.append(dict_ref(route, d))
                univ.append((U.VS, U.LS))
            elif r < 0.37 and dicts:
                j = rng.randrange(len(dicts))
                route, d, st = dicts[j]
                keys = [v for v, _ in d]
                e = rng.choice(["newkey", "entry", "entry", "start"])
                if e == "newkey":
                    fresh = [v for v in U.VS + [7, 8] if v not in keys]
                    if not fresh:
                        continue
                    edit = {"e": e, "v": fresh[0]}
                elif e == "entry":
                    if not keys:
                        continue
                    v = rng.choice(keys)
                    row = next(rw for x, rw in d if x == v)
                    used = {l for l, _ in row} if route == "graph" else {l for _, ls in row for l in ls}
                    free = [l for l in U.LS + ["d"] if l not in used]
                    if not free:
                        continue
                    edit = {"e": e, "v": v, "l": free[0], "w": rng.choice(keys)}       # stays deterministic, targets stay keys
                else:
                    edit = {"e": e, "v": rng.choice(U.VS)}
                dict_edit(route, d, st, edit)
                steps.append({"k": "dictedit", "id": j, "edit": edit})
            elif r < 0.5:
                name = rng.choice(names)
                labels, transitions, initial = builtin_table(name)
                steps.append({"k": "builtin", "name": name})
                refs.append(table_ref(labels, transitions))
                univ.append((list(range(1, len(transitions) + 2)), list(labels) + ["z"]))
            elif r < 0.6:
                if not files or rng.random() < 0.4:
                    ns, nl = rng.choice([1, 2, 3, 4]), rng.choice([1, 2, 3])
                    labels = list("abc")[:nl]
                    transitions = [[rng.choice([0] + list(range(1, ns + 1))) for _ in labels] for _ in range(ns)]
                    style = {"intervals": False, "quoted": rng.random() < 0.3, "inner": 0.0, "name": "_RWS.wa"}
                    files.append((labels, transitions, [1]))
                    steps.append({"k": "newfile", "labels": labels, "transitions": transitions, "initial": [1],
                                  "text": render_kbmag(rng, labels, transitions, [1], style)})
                f = rng.randrange(len(files))
                labels, transitions, initial = files[f]
                steps.append({"k": "loadfile", "id": f})
                refs.append(table_ref(labels, transitions))
                univ.append((list(range(1, len(transitions) + 2)), labels + ["z"]))
            elif r < 0.66 and refs:
                i = rng.randrange(len(refs))
                steps.append({"k": "copy", "of": i})
                refs.append(refs[i].clone())
                univ.append(univ[i])
            elif refs:
                i = rng.randrange(len(refs))
                vs, ls = univ[i]
                op, ok = U.rand_op(rng, refs[i], vs, ls, 0.0, fresh=False)
                if op["k"] == "rename":
                    continue
                refs[i].apply(op)
                steps.append({"k": "op", "on": i, "op": op})
        yield {"steps": steps}


def run_objects(inp):
    objs, refs, starts = [], [], []
    dicts, exp = [], []          # real caller objects (route, D, S) and their expected JSON form
    files, paths = [], []
    tmp = []

    def check(where):
        pb = []
        for i, (A, ref) in enumerate(zip(objs, refs)):
            p = U.coherence_problems(U.views(A), ref)
            if list(A.start_vertices) != list(starts[i]):
                p.append("start-list")
            if p:
                pb.append([i] + p)
        for j, ((route, D, S), (d, st)) in enumerate(zip(dicts, exp)):
            if U.canon_dict(json_of_dict(route, D)) != U.canon_dict(d) or list(S) != list(st):
                pb.append(["caller-dictionary-%d-changed" % j])
        return pb

    try:
        for n, st in enumerate(inp["steps"]):
            k = st["k"]
            if k == "newdict":
                if st["route"] == "graph":
                    D = {v: {l: w for l, w in row} for v, row in st["d"]}
                else:
                    D = {v: {w: list(ls) for w, ls in row} for v, row in st["d"]}
                dicts.append((st["route"], D, list(st["starts"])))
                exp.append((copy.deepcopy(st["d"]), list(st["starts"])))
            elif k == "build":
                route, D, S = dicts[st["from"]]
                objs.append(FS.FSA(D, start_vertices=S, graph_dict=(route == "graph")))
                refs.append(dict_ref(route, exp[st["from"]][0]))
                starts.append(list(exp[st["from"]][1]))
            elif k == "dictedit":
                route, D, S = dicts[st["id"]]
                real_dict_edit(route, D, S, st["edit"])
                dict_edit(route, exp[st["id"]][0], exp[st["id"]][1], st["edit"])
            elif k == "builtin":
                labels, transitions, initial = builtin_table(st["name"])
                objs.append(FS.load_builtin(st["name"]))
                refs.append(table_ref(labels, transitions))
                starts.append(list(initial))
            elif k == "newfile":
                fd, path = tempfile.mkstemp(suffix=".wa")
                with os.fdopen(fd, "w") as fh:
                    fh.write(st["text"])
                tmp.append(path)
                files.append((st["labels"], st["transitions"], st["initial"]))
                paths.append(path)
            elif k == "loadfile":
                labels, transitions, initial = files[st["id"]]
                objs.append(FS.load_kbmag_file(paths[st["id"]]))
                refs.append(table_ref(labels, transitions))
                starts.append(list(initial))
            elif k == "copy":
                objs.append(copy.deepcopy(objs[st["of"]]))
                refs.append(refs[st["of"]].clone())
                starts.append(list(starts[st["of"]]))
            elif k == "op":
                i = st["on"]
                objs[i] = U.apply_op(objs[i], st["op"])
                refs[i].apply(st["op"])
            pb = check(n)
            if pb:
                return {"step": n, "kind": k, "problems": pb[:3], "detail": {a: b for a, b in st.items() if a not in ("text", "d")}}
    finally:
        for p in tmp:
            os.unlink(p)
    return {"ok": True}


def judge_objects(inp, obs, lr):
    if obs.get("ok"):
        return None
    if "exc" in obs:
        return {"expected": "every step succeeds", "observed": obs, "tags": {"exc": obs["exc"]}}
    return {"expected": "every automaton of the process equals its own set model (and every caller dictionary its own history) after every step",
            "observed": obs, "tags": {"kind": obs["kind"], "problems": str(obs["problems"][0][1:3])}}


# ------------------------------------------------------------------ edge enumerations: implementation vs model
def gen_edges_corr(rng, n):
    for _ in range(n):
        yield U.rand_history(rng, maxlen=rng.choice([3, 6, 12, 40]), p_invalid=0.0,
                             alphabets=("default", "default", "permuted", "multi", "case"))


def run_edges(inp):
    """the public edge enumerations after the history: edges(with_labels=True), every edges_out(v), every edges_in(v)"""
    A, _ = U.build(inp["init"])
    for op in inp["ops"]:
        A = U.apply_op(A, op)
    V = list(A.vertices())
    return {"vertices": V, "g": [list(e) for e in A.edges(with_labels=True)],
            "o": [list(e) for v in V for e in A.edges_out(v)],
            "i": [list(e) for v in V for e in A.edges_in(v)]}


def lean_edges(inp, obs):
    return [{"op": "c09.edges", "init": inp["init"], "ops": inp["ops"]}]


def judge_edges(inp, obs, lr):
    if not lr:
        return {"expected": "model answer", "observed": lr, "tags": {"driver_err": True}}
    m = lr[0]
    if "exc" in obs or "err" in m:
        if "exc" in obs and "err" in m:
            return None
        return {"expected": m if "err" in m else "model: history succeeds", "observed": obs, "tags": {"what": "edges", "diff": "error"}}
    m = m["ok"]
    srt = lambda l: sorted((list(x) if isinstance(x, (list, tuple)) else x for x in l), key=repr)
    for k, what in (("vertices", "vertices()"), ("g", "edges(with_labels=True)"), ("o", "edges_out"), ("i", "edges_in")):
        if srt(m[k]) != srt(obs[k]):       # enumerations compared as multisets (an edge listed twice stays visible)
            return {"expected": srt(m[k]), "observed": srt(obs[k]), "tags": {"what": what}}
    return None


def nontrivial_hist(inp):
    return len(inp.get("ops", [])) >= 2


CLAUSES = [
    Clause("hist_corr", "corr", gen_hist_corr, U.bounded(run_history), judge_history_corr, lean=lean_history,
           nontrivial=nontrivial_hist, site="fsa.FSA (constructors, add_vertices, add_edges, delete_vertex(s), recurrent, rename_generators, deepcopy)",
           budget={"quick": 1000, "thorough": 8000},
           what="random histories (length <= 40, every construction route, 15% end in an invalid op) on the real FSA and on the Lean model; "
                "the three dictionaries compared as sets (label lists as multisets) after every step"),
    Clause("hist_exhaustive_corr", "corr", gen_hist_exh, U.bounded(run_history), judge_history_corr, lean=lean_history,
           nontrivial=nontrivial_hist, site="fsa.FSA mutators", budget={"quick": 8000, "thorough": 150000},
           what="bounded-exhaustive histories over 3 vertices x 2 labels (58-operation alphabet incl. has_edge queries, two initial automata), depth 1,2,3,4 until the cap"),
    Clause("builtin_corr", "corr", gen_builtin, U.bounded(run_builtin), judge_builtin, lean=lean_builtin,
           site="fsa.load_builtin / kbmag_utils.build_dict", budget={"quick": 18, "thorough": 18},
           what="all built-in .wa/.geowa files: parsed table -> model fromKbmag vs load_builtin"),
    Clause("edges_corr", "corr", gen_edges_corr, U.bounded(run_edges), judge_edges, lean=lean_edges, nontrivial=nontrivial_hist,
           site="fsa.FSA.edges / edges_out / edges_in / vertices", budget={"quick": 400, "thorough": 4000},
           what="valid random histories on the real FSA and on the Lean model; the public edge enumerations (label view: edges(with_labels=True); "
                "outgoing view: every edges_out(v); incoming view: every edges_in(v) — the model's edgesG / edgesO / edgesI) and vertices() "
                "compared as multisets at the end"),
    Clause("hist_oracle", "oracle", gen_hist_oracle, U.bounded(run_history_oracle), judge_history_oracle, nontrivial=nontrivial_hist,
           site="fsa.FSA views", budget={"quick": 2000, "thorough": 30000},
           what="coherence predicate + set model on the real object after every step of a valid random history; read accessors at the end"),
    Clause("hist_exhaustive_oracle", "oracle", gen_hist_exh, U.bounded(run_history_oracle), judge_history_oracle, nontrivial=nontrivial_hist,
           site="fsa.FSA views", budget={"quick": 8000, "thorough": 150000},
           what="same predicate on bounded-exhaustive histories"),
    Clause("kbmag_oracle", "oracle", gen_kbmag, U.bounded(run_kbmag), judge_kbmag,
           site="fsa.load_kbmag_file / load_builtin", budget={"quick": 400, "thorough": 4000},
           what="random kbmag record texts (tables, alphabets, spacing/newlines, interval syntax, quoted names) and the 18 built-in files: "
                "loaded edges and start state equal the table in the text (independent regex reading for the built-ins)"),
]

CLAUSES.append(
    Clause("objects_oracle", "oracle", gen_objects, U.bounded(run_objects), judge_objects,
           site="fsa.FSA.__init__ (both routes) / load_builtin / load_kbmag_file / copy.deepcopy + mutators",
           budget={"quick": 400, "thorough": 8000},
           what="interleaved histories over SEVERAL automata in one process: caller-owned dictionaries (both routes) reused for further automata and "
                "modified by the caller afterwards, repeated load_builtin / load_kbmag_file of the same file with edits in between, deepcopies; after "
                "every step every automaton is compared with its own set model and every caller dictionary / start list with its own history"))

# ------------------------------------------------------------------ free_automaton over every spelling of a generating set
def gen_free(rng, n):
    out = [{"gens": list(g), "pack": pk} for g in U.FREE_SETS for pk in U.free_packs(g)]
    for a in out[:n]:
        yield a
    for _ in range(max(0, n - len(out))):
        i = U.rand_free_init(rng)
        yield {"gens": i["gens"], "pack": i["pack"]}


def run_free(inp):
    """views = set model of the free-group automaton; language = freely reduced words over S u S^-1 (brute force on
    strings, independent of the set model): the inverse of a name is the same name in the other case"""
    import itertools
    gens = list(inp["gens"])
    A, ref = U.build({"route": "free", "gens": gens, "pack": inp["pack"]})
    vw = U.views(A)
    pb = U.coherence_problems(vw, ref)
    if list(A.start_vertices) != [""]:
        pb.append("start-list")
    swap = lambda g: g.swapcase() if (g.islower() or g.isupper()) else g.lower()      # noqa: E731
    alphabet = []
    for g in gens + [swap(g) for g in gens]:
        if g not in alphabet:
            alphabet.append(g)
    if {l for (_, l, _) in ref.E} != set(alphabet):
        pb.append("reference-alphabet")          # the two independent descriptions of the expected automaton disagree
    bad = []
    maxlen = 3 if len(alphabet) <= 6 else 2
    for k in range(maxlen + 1):
        for w in itertools.product(alphabet, repeat=k):
            reduced = all(swap(w[i + 1]) != w[i] for i in range(k - 1))
            if bool(A.accepts(list(w))) != reduced:
                bad.append(list(w))
    if bad:
        pb.append("language")
    if pb:
        return {"problems": pb, "views": vw, "words": bad[:5], "alphabet": alphabet}
    return {"ok": True}


def judge_free(inp, obs, lr):
    if obs.get("ok"):
        return None
    if "exc" in obs:
        return {"expected": "free_automaton accepts every iterable of generator names", "observed": obs, "tags": {"exc": obs["exc"]}}
    return {"expected": "free_automaton(S): states '' and S u S^-1 (inverse = other case), edge g -h-> h unless h is the inverse of g, "
                        "in all three views; accepted words = freely reduced words",
            "observed": obs, "tags": {"problems": "+".join(obs["problems"])}}


CLAUSES.append(
    Clause("free_oracle", "oracle", gen_free, U.bounded(run_free), judge_free,
           site="fsa.free_automaton", budget={"quick": 150, "thorough": 1500},
           what="free_automaton over generating sets in every case pattern (lower, upper, mixed, both cases listed, multi-character names) "
                "and every iterable kind: the three views equal the set model of the free-group automaton and the accepted words up to "
                "length 3 are exactly the freely reduced words over S u S^-1 (brute force on strings)"))

from props import _defence as DF  # noqa: E402
CLAUSES.append(
    Clause("defence_oracle", "oracle", DF.gen_views, U.bounded(DF.run_defence), DF.judge_defence,
           site="fsa.FSA (every mutator, accessor and constructor; two automata over the same names in one process)",
           budget={"quick": 400, "thorough": 6000},
           what="generic defences: (G1) after every step the object answers like a fresh object built from its current label view; (G2) argument "
                "collections passed as list / tuple / generator / iterator / dict view / string and checked unmodified, everything the accessors "
                "and enumerators return is mutated in place and the automaton re-examined, no mutable container shared between automata or with "
                "caller arguments (identity scan); (G3) an unrelated automaton over the same vertex names and labels (and FSA(), built-ins, free "
                "and derived automata) is built, edited and queried between the steps, in both orders"))

CLAUSES.append(
    Clause("kbmag_exotic_oracle", "oracle", gen_kbmag_exotic, U.bounded(run_kbmag), judge_kbmag_exotic,
           site="gap_parse.parse_list / parse_record", budget={"quick": 30, "thorough": 300},
           what="KNOWN FINDINGS: three renderings that GAP accepts but that lie outside the verified grammar (intervals are exactly [a..b] with "
                "a <= b, whitespace is blank/tab/newline): spaces inside an interval, the empty interval [1..0], CR LF line ends"))

# character-level parser clauses (text -> record), written by the main session
from props._c09parse import CLAUSES_PARSE  # noqa: E402
CLAUSES = CLAUSES + CLAUSES_PARSE
