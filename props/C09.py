"""C09 — an automaton's three views stay coherent however it was built or edited (DESIGN §4 C09)."""
import copy, os, tempfile
from vlib.runner import Clause
from props import _fsa as U
from geometry_tools.automata import fsa as FS, gap_parse, kbmag_utils

LEVEL = "proof"
EXPLANATION = ("Lean theorems about the association-list model of FSA (lean/GT/Model/FSA.lean): the invariant Coherent "
               "(three views list the same labelled edges on the same vertex set, no label twice, label view deterministic, "
               "no empty entry) holds after every construction route and is preserved by every mutator, hence over any "
               "operation history; each mutator refines the plain set model. Correspondence: random and bounded-exhaustive "
               "histories run on the real FSA and on the model, all three dictionaries compared after every step. Oracle: the "
               "coherence predicate and a tiny set-based reference evaluated on the real object after every step; kbmag texts.")
ASSUMPTIONS = ["Python dict = insertion-ordered association list; copy.deepcopy = identity of the pure model",
               "histories use the operations named in the property (queries has_edge/edge_labels on non-edges are outside, D13)",
               "add_edges is used under the class's precondition: a new edge never contradicts an existing (tail,label)",
               "the text->record parser (gap_parse) is modelled separately (C09Parse); here only table->automaton"]

ERRMAP = {"KeyError": "KeyError", "IndexError": "IndexError"}


# ------------------------------------------------------------------ histories: implementation side
def run_history(inp):
    steps = []
    try:
        A, _ = U.build(inp["init"])
    except Exception as e:
        return {"steps": [{"err": U.exc_name(e)}]}
    steps.append(U.views(A))
    for op in inp["ops"]:
        try:
            A = U.apply_op(A, op)
        except Exception as e:
            steps.append({"err": U.exc_name(e)})
            break
        steps.append(U.views(A))
    return {"steps": steps}


def lean_history(inp, obs):
    return [{"op": "c09.run", "init": inp["init"], "ops": inp["ops"]}]


def _valid_prefix(inp):
    """number of leading operations that satisfy the documented preconditions"""
    _, ref = U.build(inp["init"])
    n = 0
    for op in inp["ops"]:
        if not ref.valid(op):
            break
        ref.apply(op)
        n += 1
    return n


def judge_history_corr(inp, obs, lr):
    if not lr or "err" in lr[0]:
        return {"expected": "model answer", "observed": lr[:1], "tags": {"driver_err": True}}
    msteps, isteps = lr[0]["ok"], obs["steps"]
    nvalid = _valid_prefix(inp)
    for k in range(max(len(msteps), len(isteps))):
        opk = inp["ops"][k - 1]["k"] if k > 0 else "construct:" + inp["init"]["route"]
        m = msteps[k] if k < len(msteps) else None
        i = isteps[k] if k < len(isteps) else None
        if m is None or i is None:
            return {"expected": m, "observed": i, "tags": {"op": opk, "diff": "history-length"}}
        if "err" in m or "err" in i:
            if m.get("err") == ERRMAP.get(i.get("err"), i.get("err")):
                return None
            return {"expected": m, "observed": i, "tags": {"op": opk, "diff": "error"},
                    "property_failure": bool(k <= nvalid and "err" in i)}
        cm, ci = U.canon(m), U.canon(i)
        if cm != ci:
            which = [x for x in ("g", "o", "i", "starts") if cm[x] != ci[x]]
            # the disagreement shows the property failing by itself when the real views are incoherent on a valid history
            bad = U.coherence_problems(i) if k <= nvalid else []
            return {"expected": cm, "observed": ci, "tags": {"op": opk, "diff": "+".join(which), "problems": "+".join(bad)},
                    "property_failure": bool(bad)}
    return None


def gen_hist_corr(rng, n):
    for _ in range(n):
        yield U.rand_history(rng, maxlen=rng.choice([5, 10, 20, 40]), p_invalid=0.15)


def gen_hist_exh(rng, n):
    # n = cap on the number of histories; depth grows until the cap is hit
    got = 0
    for depth in (1, 2, 3, 4):
        for h in U.exhaustive_histories(depth, limit=n - got):
            yield h
            got += 1
        if got >= n:
            return


# ------------------------------------------------------------------ histories: oracle
def run_history_oracle(inp):
    """the property itself: after construction and after every valid step the three views are coherent,
    duplicate-free and equal to the set model"""
    A, ref = U.build(inp["init"])
    pb = U.coherence_problems(U.views(A), ref)
    if pb:
        return {"step": 0, "op": "construct:" + inp["init"]["route"], "problems": pb, "views": U.views(A)}
    for k, op in enumerate(inp["ops"], 1):
        if not ref.valid(op):
            break
        before = U.views(A) if op["k"] == "copy" else None
        orig = A
        A = U.apply_op(A, op)
        ref.apply(op)
        vw = U.views(A)
        pb = U.coherence_problems(vw, ref)
        if op["k"] == "copy" and U.views(orig) != before:
            pb.append("copy-changed-original")
        if pb:
            return {"step": k, "op": op["k"], "problems": pb, "views": vw,
                    "elist_ir": [op.get("ir")] if op["k"] in ("adde", "addel") else None}
    # the public read accessors agree with the reference
    E, V = ref.E, ref.V
    pb = []
    if set(A.vertices()) != V:
        pb.append("vertices()")
    if set(A.edges(with_labels=True)) != {(t, h, l) for (t, l, h) in E} or len(list(A.edges())) != len(E):
        pb.append("edges()")
    for v in sorted(V, key=U.key):
        eo, ei = list(A.edges_out(v)), list(A.edges_in(v))
        if sorted(eo, key=repr) != sorted(((t, h, l) for (t, l, h) in E if t == v), key=repr):
            pb.append("edges_out")
        if sorted(ei, key=repr) != sorted(((t, h, l) for (t, l, h) in E if h == v), key=repr):
            pb.append("edges_in")
        if set(A.neighbors_out(v)) != {h for (t, l, h) in E if t == v} or set(A.neighbors_in(v)) != {t for (t, l, h) in E if h == v}:
            pb.append("neighbors")
        for w in set(A.neighbors_out(v)):
            if sorted(A.edge_labels(v, w)) != sorted(l for (t, l, h) in E if t == v and h == w) or not A.has_edge(v, w):
                pb.append("edge_labels")
    pb += U.coherence_problems(U.views(A), ref)
    if pb:
        return {"step": len(inp["ops"]), "op": "accessors", "problems": sorted(set(pb)), "views": U.views(A)}
    return {"ok": True}


def judge_history_oracle(inp, obs, lr):
    if obs.get("ok"):
        return None
    if "exc" in obs:
        return {"expected": "every valid operation succeeds", "observed": obs, "tags": {"exc": obs["exc"]}}
    return {"expected": "three views coherent, duplicate-free and equal to the set model after every step",
            "observed": obs, "tags": {"op": obs["op"], "problems": "+".join(obs["problems"])}}


def gen_hist_oracle(rng, n):
    for _ in range(n):
        yield U.rand_history(rng, maxlen=rng.choice([3, 6, 12, 40]), p_invalid=0.0)


# ------------------------------------------------------------------ built-in files, table -> automaton
def gen_builtin(rng, n):
    for name in U.builtin_names():
        yield {"name": name}


def run_builtin(inp):
    A = FS.load_builtin(inp["name"])
    rec, _ = gap_parse.parse_record(U.builtin_text(inp["name"]))
    tab = next(d for d in rec.values() if isinstance(d, dict) and d.get("isFSA") == "true")
    return {"views": U.views(A), "labels": list(tab["alphabet"]["names"]),
            "transitions": [list(r) for r in tab["table"]["transitions"]], "initial": list(tab["initial"])}


def lean_builtin(inp, obs):
    if "exc" in obs:
        return []
    return [{"op": "c09.run", "init": {"route": "kbmag", "labels": obs["labels"], "transitions": obs["transitions"],
                                        "initial": obs["initial"]}, "ops": []}]


def judge_builtin(inp, obs, lr):
    if "exc" in obs:
        return {"expected": "built-in file loads", "observed": obs, "tags": {"exc": obs["exc"]}, "property_failure": True}
    if not lr or "err" in lr[0]:
        return {"expected": "model answer", "observed": lr[:1], "tags": {"driver_err": True}}
    cm, ci = U.canon(lr[0]["ok"][0]), U.canon(obs["views"])
    if cm != ci:
        return {"expected": "model of build_dict + FSA", "observed": "views differ", "tags": {"file": inp["name"]}}
    return None


# ------------------------------------------------------------------ kbmag record texts (oracle)
def render_kbmag(rng, labels, transitions, initial, style):
    """a syntactically valid kbmag FSA record with random layout"""
    def ws(p=0.5):
        return rng.choice(["", " ", "  ", "\n", "\n   ", "\t"]) if rng.random() < p else ""

    def lst(items, interval_ok=True):
        ints = all(isinstance(x, int) for x in items)
        if (interval_ok and ints and len(items) >= 1 and style["intervals"]
                and items == list(range(items[0], items[0] + len(items))) and rng.random() < 0.7):
            return "[%d..%d]" % (items[0], items[-1])
        return "[" + ",".join(ws(style["inner"]) + str(x) + ws(style["inner"]) for x in items) + "]"

    names = [('"%s"' % l) if style["quoted"] else l for l in labels]
    rows = ("," + ws(0.9)).join(lst(r) for r in transitions)
    nl = lambda: ws(0.9)
    fields = [
        ("isFSA", "true"),
        ("alphabet", "rec(%s type := \"identifiers\",%s size := %d,%s format := \"dense\",%s names := %s%s)" % (
            nl(), nl(), len(labels), nl(), nl(), "[" + ",".join(names) + "]", nl())),
        ("states", "rec(%s type := \"simple\",%s size := %d%s)" % (nl(), nl(), len(transitions), nl())),
        ("flags", '["DFA","minimized","BFS","accessible","trim"]'),
        ("initial", lst(initial)),
        ("accepting", lst(list(range(1, len(transitions) + 1)))),
        ("table", "rec(%s format := \"dense deterministic\",%s numTransitions := %d,%s transitions := [%s%s]%s)" % (
            nl(), nl(), sum(1 for r in transitions for t in r if t), nl(), rows, nl(), nl())),
    ]
    body = ("," + nl()).join("%s%s :=%s%s" % (ws(0.7), k, rng.choice([" ", "  ", ""]), v) for k, v in fields)
    return "%s := rec(%s%s%s);%s" % (style["name"], nl(), body, nl(), rng.choice(["", "\n"]))


def gen_kbmag(rng, n):
    for name in U.builtin_names():
        yield {"builtin": name}
    for _ in range(n):
        nl = rng.choice([1, 2, 2, 3, 4, 6])
        alphabet = rng.choice([list("abcdef"), list("aAbBcC"), ["x", "y", "zz", "gen1", "t_2", "Q"]])
        labels = alphabet[:nl]
        ns = rng.choice([1, 2, 3, 5, 8])
        dense = rng.random()
        transitions = [[rng.randint(1, ns) if rng.random() < dense else 0 for _ in labels] for _ in range(ns)]
        if rng.random() < 0.2 and ns >= nl:
            transitions[rng.randrange(ns)] = list(range(1, nl + 1))       # a row that can be written as an interval
        style = {"intervals": rng.random() < 0.7, "quoted": rng.random() < 0.3, "inner": rng.choice([0.0, 0.0, 0.4]),
                 "name": rng.choice(["_RWS.wa", "fsa", "G.geowa", "rws_1"])}
        initial = [rng.randint(1, ns)]
        yield {"labels": labels, "transitions": transitions, "initial": initial,
               "text": render_kbmag(rng, labels, transitions, initial, style), "style": style}


def run_kbmag(inp):
    if "builtin" in inp:
        text = U.builtin_text(inp["builtin"])
        labels, transitions, initial = U.table_of_text(text)
        autos = [FS.load_builtin(inp["builtin"])]
    else:
        text, labels, transitions, initial = inp["text"], inp["labels"], inp["transitions"], inp["initial"]
        rec, _ = gap_parse.parse_record(text)
        autos = [FS._from_gap_record(rec)]
        fd, path = tempfile.mkstemp(suffix=".wa")
        try:
            with os.fdopen(fd, "w") as fh:
                fh.write(text)
            autos.append(FS.load_kbmag_file(path))
        finally:
            os.unlink(path)
    want_E = {(i + 1, l, t) for i, row in enumerate(transitions) for l, t in zip(labels, row) if t != 0}
    want_V = set(range(1, len(transitions) + 1))
    out = {"ok": True}
    for A in autos:
        if A is None:
            return {"ok": False, "why": "loader returned None"}
        vw = U.views(A)
        pb = U.coherence_problems(vw, U.Ref(want_V | {e[2] for e in want_E}, want_E))
        if list(A.start_vertices) != list(initial):
            pb.append("start-state")
        # the loaded table, read back from the label view, is the table in the text
        back = [[dict(A.graph_dict.get(i + 1, {})).get(l, 0) for l in labels] for i in range(len(transitions))]
        if back != [list(r[:len(labels)]) + [0] * (len(labels) - len(r)) for r in transitions]:
            pb.append("table")
        if pb:
            return {"ok": False, "why": pb, "starts": list(A.start_vertices)}
    return out


def judge_kbmag(inp, obs, lr):
    if obs.get("ok"):
        return None
    tags = {"builtin": inp.get("builtin", ""), "why": "+".join(obs.get("why", [])) if isinstance(obs.get("why"), list) else str(obs.get("why", obs.get("exc")))}
    if "style" in inp:
        tags.update(quoted=inp["style"]["quoted"], inner_space=inp["style"]["inner"] > 0)
    return {"expected": "loaded automaton = transition table and start state written in the text", "observed": obs, "tags": tags}


def nontrivial_hist(inp):
    return len(inp.get("ops", [])) >= 2


CLAUSES = [
    Clause("hist_corr", "corr", gen_hist_corr, run_history, judge_history_corr, lean=lean_history,
           nontrivial=nontrivial_hist, site="fsa.FSA (constructors, add_vertices, add_edges, delete_vertex(s), recurrent, rename_generators, deepcopy)",
           budget={"quick": 1000, "thorough": 8000},
           what="random histories (length <= 40, every construction route, 15% end in an invalid op) on the real FSA and on the Lean model; "
                "the three dictionaries compared as sets (label lists as multisets) after every step"),
    Clause("hist_exhaustive_corr", "corr", gen_hist_exh, run_history, judge_history_corr, lean=lean_history,
           nontrivial=nontrivial_hist, site="fsa.FSA mutators", budget={"quick": 8000, "thorough": 150000},
           what="bounded-exhaustive histories over 3 vertices x 2 labels (58-operation alphabet incl. has_edge queries, two initial automata), depth 1,2,3,4 until the cap"),
    Clause("builtin_corr", "corr", gen_builtin, run_builtin, judge_builtin, lean=lean_builtin,
           site="fsa.load_builtin / kbmag_utils.build_dict", budget={"quick": 18, "thorough": 18},
           what="all built-in .wa/.geowa files: parsed table -> model fromKbmag vs load_builtin"),
    Clause("hist_oracle", "oracle", gen_hist_oracle, run_history_oracle, judge_history_oracle, nontrivial=nontrivial_hist,
           site="fsa.FSA views", budget={"quick": 2000, "thorough": 30000},
           what="coherence predicate + set model on the real object after every step of a valid random history; read accessors at the end"),
    Clause("hist_exhaustive_oracle", "oracle", gen_hist_exh, run_history_oracle, judge_history_oracle, nontrivial=nontrivial_hist,
           site="fsa.FSA views", budget={"quick": 8000, "thorough": 150000},
           what="same predicate on bounded-exhaustive histories"),
    Clause("kbmag_oracle", "oracle", gen_kbmag, run_kbmag, judge_kbmag,
           site="fsa.load_kbmag_file / _from_gap_record / load_builtin", budget={"quick": 400, "thorough": 4000},
           what="random kbmag record texts (tables, alphabets, spacing/newlines, interval syntax, quoted names) and the 18 built-in files: "
                "loaded edges and start state equal the table in the text (independent regex reading for the built-ins)"),
]

# character-level parser clauses (text -> record), written by the main session
from props._c09parse import CLAUSES_PARSE  # noqa: E402
CLAUSES = CLAUSES + CLAUSES_PARSE
