# temporary stand-alone entry for the parser clauses until they are folded into props/C09.py
from props._c09parse import *   # noqa
LEVEL = "proof"
