"""C13 — constructed isometries, tangent vectors and regular polygons hit their targets (DESIGN §4 C13)."""
import math
from fractions import Fraction as F
import numpy as np
from vlib.runner import Clause
from vlib import q as Q
from vlib.canon import close, proj_close, finite
from props import _a4geom as G
from geometry_tools import hyperbolic as H

LEVEL = "proof"
EXPLANATION = ("Lean theorems (every dimension, every ordered field with a square root; R wrappers): row 0 of origin_to is the "
               "hyperboloid representative (origin -> point); rows 0,1 of TangentVector.origin_to are base point and the direction "
               "over its positive length (base tangent -> positive multiple); isometry_to carries rows to rows; point_along = "
               "cosh t p^ + sinh t v^ at cosh-distance cosh t for both signs; unit_tangent_towards followed for d(p,q) reaches q "
               "whatever the sign of q's representative (D7 repaired); law of cosines; regular polygon: vertices (1, th*cos, th*sin, 0..), "
               "equal radii and sides, vertex-angle cosine (gS-1+2g)/(1+gS), radius/angle formulas mutually inverse. Exact-Q "
               "correspondence of each construction with the model; float oracle evaluating every sentence of the property.")
ASSUMPTIONS = ["rows 2.. of find_isometry's result are a contract (M J M^T = J), checked as a residual on every case (C02/C18 own the proof)",
               "IEEE rounding within tolerance on Klein radius <= 0.95, |t| <= 4",
               "np.linalg.inv in Isometry.inv() (contract M*Minv = 1)"]

TOL = 1e-9


def exc(obs, what):
    return {"expected": what, "observed": obs, "tags": {"exc": obs.get("exc")}, "property_failure": True}


def drv_err(lr):
    for r in lr:
        if "err" in r:
            return {"expected": "model answer", "observed": r, "tags": {"driver_err": r["err"]}}
    return None


# ================================================================== correspondence
def gen_origin(rng, n):
    for _ in range(n):
        dim = rng.choice([2, 2, 3, 4, 5])
        p = Q.rball(rng, dim)
        a = sum(x * x for x in p)
        lam = G.rscale(rng)
        # hyperboloid coordinates of a rational Poincare point are rational
        X = [lam * (1 + a) / (1 - a)] + [lam * 2 * x / (1 - a) for x in p]
        yield {"dim": dim, "x": G.qv(X), "fo": rng.random() < 0.5}


def run_origin(inp):
    x = G.fv(inp["x"])
    P = H.Point(x.copy())
    M = P.origin_to(force_oriented=inp["fo"])
    m = np.array(M.proj_data, dtype=float)
    o = H.Point.get_origin(inp["dim"])
    img = np.array((M @ o).proj_data, dtype=float)
    Jm = G.J(inp["dim"])
    return {"row0": m[0].tolist(), "img": img.tolist(), "res": float(np.abs(m @ Jm @ m.T - Jm).max()),
            "det": float(np.linalg.det(m))}


def lean_origin(inp, obs):
    return [{"op": "c13.origin_row0", "x": inp["x"]}]


def judge_origin(inp, obs, lr):
    if "exc" in obs:
        return exc(obs, "isometry")
    e = drv_err(lr)
    if e:
        return e
    mv = Q.decf(lr[0]["ok"])
    if not close(obs["row0"], mv, TOL):
        return {"expected": {"row0": mv.tolist()}, "observed": obs["row0"], "tags": {"what": "row0"}}
    if not G.proj_equal(obs["img"], G.fv(inp["x"]), 1e-9):
        return {"expected": "origin -> point", "observed": obs["img"], "tags": {"what": "image"}, "property_failure": True}
    if obs["res"] > 1e-9:
        return {"expected": "M J M^T = J", "observed": obs["res"], "tags": {"what": "contract"}, "property_failure": True}
    if inp["fo"] and not obs["det"] > 0:
        return {"expected": "det > 0 when force_oriented", "observed": obs["det"], "tags": {"what": "det"}}
    return None


def frame(rng, dim):
    g = G.rat_iso(rng, dim)
    return g


def gen_tv(rng, n):
    for _ in range(n):
        dim = rng.choice([2, 2, 3, 4, 5])
        g = frame(rng, dim)
        lam, mu, nu = G.rscale(rng), G.rscale(rng), F(rng.randint(-4, 4), rng.randint(1, 3))
        p = [lam * x for x in g[0]]
        v = [mu * a + nu * b for a, b in zip(g[1], g[0])]
        yield {"dim": dim, "p": G.qv(p), "v": G.qv(v), "fo": rng.random() < 0.5}


def run_tv(inp):
    p, v = G.fv(inp["p"]), G.fv(inp["v"])
    tv = H.TangentVector(H.Point(p.copy()), v.copy())
    vec0 = np.array(tv.vector, dtype=float).copy()
    M = tv.origin_to(force_oriented=inp["fo"])
    m = np.array(M.proj_data, dtype=float)
    bt = H.TangentVector.get_base_tangent(inp["dim"])
    img = M @ bt
    Jm = G.J(inp["dim"])
    return {"rows": m[:2].tolist(), "img_pt": np.array(img.point, dtype=float).tolist(),
            "img_vec": np.array(img.vector, dtype=float).tolist(), "vec0": vec0.tolist(),
            "res": float(np.abs(m @ Jm @ m.T - Jm).max()), "det": float(np.linalg.det(m))}


def lean_tv(inp, obs):
    return [{"op": "c13.tv_rows", "p": inp["p"], "v": inp["v"]}]


def judge_tv(inp, obs, lr):
    if "exc" in obs:
        return exc(obs, "isometry")
    e = drv_err(lr)
    if e:
        return e
    mv = Q.decf(lr[0]["ok"])
    if not close(obs["rows"], mv, TOL):
        return {"expected": {"rows": mv.tolist()}, "observed": obs["rows"], "tags": {"what": "rows"}}
    if not G.proj_equal(obs["img_pt"], G.fv(inp["p"]), 1e-9):
        return {"expected": "base point -> point", "observed": obs["img_pt"], "tags": {"what": "point"}, "property_failure": True}
    # the pair (image of e0, image of e1) is (x, v) up to positive scalings and one common sign
    if not G.same_tangent(obs["img_pt"], obs["img_vec"], G.fv(inp["p"]), obs["vec0"], 1e-9):
        return {"expected": "base tangent -> the tangent vector (p, v) (same class under (p,v) ~ (-p,-v))", "observed": [obs["img_pt"], obs["img_vec"], obs["vec0"]],
                "tags": {"what": "direction"}, "property_failure": True}
    if obs["res"] > 1e-9:
        return {"expected": "M J M^T = J", "observed": obs["res"], "tags": {"what": "contract"}, "property_failure": True}
    if inp["fo"] and not obs["det"] > 0:
        return {"expected": "det > 0 when force_oriented", "observed": obs["det"], "tags": {"what": "det"}}
    return None


def gen_towards(rng, n):
    for _ in range(n):
        dim = rng.choice([2, 2, 3, 4, 5])
        g = frame(rng, dim)
        while True:
            ch, sh, u = Q.rboost(rng, 7)
            if u > 1:
                break
        lam, kap = G.rscale(rng), G.rscale(rng)
        p = [lam * x for x in g[0]]
        qh = [ch * a + sh * b for a, b in zip(g[0], g[1])]
        q = [kap * x for x in qh]
        # the unit tangent at the stored representative of p (sheet of sign(lam)) pointing at q
        sg = 1 if lam > 0 else -1
        yield {"dim": dim, "p": G.qv(p), "q": G.qv(q), "ch": Q.qs(ch), "sh": Q.qs(sh), "vhat": G.qv([sg * x for x in g[1]]),
               "opp": (lam * kap < 0)}


def run_towards(inp):
    P, Qp = H.Point(G.fv(inp["p"])), H.Point(G.fv(inp["q"]))
    d = _d(P, Qp)
    tv = P.unit_tangent_towards(Qp)
    vec = np.array(tv.vector, dtype=float).copy()
    end = tv.point_along(d)
    return {"d": d, "vec": vec.tolist(), "end": np.array(end.proj_data, dtype=float).tolist()}


def lean_towards(inp, obs):
    return [{"op": "c13.towards", "p": inp["p"], "q": inp["q"]},
            {"op": "c13.point_along", "p": inp["p"], "v": inp["vhat"], "ch": inp["ch"], "sh": inp["sh"]}]


def judge_towards(inp, obs, lr):
    if "exc" in obs:
        return exc(obs, "tangent vector")
    e = drv_err(lr)
    if e:
        return e
    tags = {"opposite_sheet": inp["opp"], "call_site": "Point.unit_tangent_towards"}
    mv = Q.decf(lr[0]["ok"])
    if not close(obs["vec"], mv, TOL):
        pf = close(-np.array(obs["vec"]), mv, TOL)
        return {"expected": {"vector": mv.tolist()}, "observed": obs["vec"], "tags": dict(tags, reversed=pf), "property_failure": pf}
    if abs(math.cosh(obs["d"]) - float(F(inp["ch"]))) > 1e-9 * (1 + float(F(inp["ch"]))):
        return {"expected": {"cosh d": inp["ch"]}, "observed": obs["d"], "tags": dict(tags, what="distance")}
    pt = Q.decf(lr[1]["ok"]["pt"])
    if not proj_close(obs["end"], pt, 1e-8):
        return {"expected": {"end": pt.tolist()}, "observed": obs["end"], "tags": dict(tags, what="end vs model")}
    if not G.proj_equal(obs["end"], G.fv(inp["q"]), 1e-8):
        return {"expected": "arrives at q", "observed": obs["end"], "tags": dict(tags, what="end"), "property_failure": True}
    return None


def gen_along(rng, n):
    for _ in range(n):
        dim = rng.choice([2, 2, 3, 4, 5])
        g = frame(rng, dim)
        ch, sh, u = Q.rboost(rng, 9)
        lam, mu, nu = G.rscale(rng), G.rscale(rng, both_signs=False), F(rng.randint(-4, 4), rng.randint(1, 3))
        p = [lam * x for x in g[0]]
        v = [mu * a + nu * b for a, b in zip(g[1], g[0])]
        yield {"dim": dim, "p": G.qv(p), "v": G.qv(v), "ch": Q.qs(ch), "sh": Q.qs(sh), "u": Q.qs(u)}


def run_along(inp):
    t = math.log(float(F(inp["u"])))
    tv = H.TangentVector(H.Point(G.fv(inp["p"])), G.fv(inp["v"]))
    end = tv.normalized().point_along(t)
    P = H.Point(G.fv(inp["p"]))
    return {"end": np.array(end.proj_data, dtype=float).tolist(), "th": float(H.hyp_to_affine_dist(t)),
            "d": _d(P, end), "t": t}


def lean_along(inp, obs):
    return [{"op": "c13.point_along", "p": inp["p"], "v": inp["v"], "ch": inp["ch"], "sh": inp["sh"]}]


def judge_along(inp, obs, lr):
    if "exc" in obs:
        return exc(obs, "point")
    e = drv_err(lr)
    if e:
        return e
    r = lr[0]["ok"]
    pt = Q.decf(r["pt"])
    if not close(obs["end"], pt, TOL):
        return {"expected": {"pt": pt.tolist()}, "observed": obs["end"], "tags": {"what": "point"}}
    if abs(obs["th"] - float(F(r["th"]))) > 1e-12:
        return {"expected": {"th": r["th"]}, "observed": obs["th"], "tags": {"what": "hyp_to_affine_dist"}}
    c = float(F(r["cosh"]))
    if abs(math.cosh(obs["d"]) - c) > 1e-9 * (1 + c) or abs(obs["d"] - abs(obs["t"])) > 1e-6:
        return {"expected": {"cosh d": c, "|t|": abs(obs["t"])}, "observed": obs["d"], "tags": {"what": "distance"},
                "property_failure": abs(obs["d"] - abs(obs["t"])) > 1e-6}
    return None


def gen_angle(rng, n):
    for _ in range(n):
        dim = rng.choice([2, 2, 3, 4, 5])
        g = frame(rng, dim)
        c, s = Q.rrot(rng)
        lam = G.rscale(rng)
        p = [lam * x for x in g[0]]
        w1 = g[1]
        w2 = [c * a + s * b for a, b in zip(g[1], g[2])]
        m1, m2 = G.rscale(rng), G.rscale(rng)
        n1, n2 = F(rng.randint(-3, 3), 2), F(rng.randint(-3, 3), 3)
        v1 = [m1 * a + n1 * b for a, b in zip(w1, g[0])]
        v2 = [m2 * a + n2 * b for a, b in zip(w2, g[0])]
        inp = {"dim": dim, "p": G.qv(p), "v1": G.qv(v1), "v2": G.qv(v2)}
        if rng.random() < 0.5:
            # `other` stores its own representative q = mu * p of the same point, on either sheet (Lean angleCosPair)
            mu = rng.choice([F(-1), F(-1), F(-5, 2), F(1, 3), F(2), F(-1, 7)])
            inp["q"] = G.qv([mu * x for x in p])
        yield inp


def run_angle(inp):
    P = H.Point(G.fv(inp["p"]))
    a = H.TangentVector(P, G.fv(inp["v1"])).angle(H.TangentVector(H.Point(G.fv(inp.get("q", inp["p"]))), G.fv(inp["v2"])))
    return {"angle": float(np.asarray(a).reshape(-1)[0])}


def lean_angle(inp, obs):
    op = {"op": "c13.angle_cos", "p": inp["p"], "v1": inp["v1"], "v2": inp["v2"]}
    if "q" in inp:
        op["q"] = inp["q"]
    return [op]


def judge_angle(inp, obs, lr):
    if "exc" in obs:
        return exc(obs, "angle")
    e = drv_err(lr)
    if e:
        return e
    c = float(F(lr[0]["ok"]))
    if not math.isfinite(obs["angle"]) or abs(math.cos(obs["angle"]) - c) > 1e-9 or not (-1e-12 <= obs["angle"] <= math.pi + 1e-12):
        return {"expected": {"cos": c}, "observed": obs["angle"], "tags": {"what": "angle", "nan": not math.isfinite(obs["angle"]),
                                                                           "parallel": abs(abs(c) - 1) < 1e-12},
                "property_failure": not math.isfinite(obs["angle"])}
    return None


def gen_poly(rng, n):
    for _ in range(n):
        k = rng.randint(3, 12)
        dim = rng.choice([2, 2, 3, 4])
        if rng.random() < 0.5:
            yield {"n": k, "dim": dim, "radius": rng.uniform(0.05, 3.0), "angle": None}
        else:
            amax = (k - 2) * math.pi / k
            yield {"n": k, "dim": dim, "radius": None, "angle": rng.uniform(0.02 * amax, 0.98 * amax)}


def run_poly(inp):
    k, dim = inp["n"], inp["dim"]
    if inp["radius"] is not None:
        r = inp["radius"]
        P = H.Polygon.regular_polygon(k, radius=r, dimension=dim)
    else:
        r = float(H.regular_polygon_radius(k, inp["angle"]))
        P = H.Polygon.regular_polygon(k, angle=inp["angle"], dimension=dim)
    V = np.array(P.get_vertices().proj_data, dtype=float)
    a = inp["angle"] if inp["angle"] is not None else float(H.polygon_interior_angle(k, r))
    return {"V": V.tolist(), "r": r, "th": float(H.hyp_to_affine_dist(r)), "c": math.cos(2 * math.pi / k),
            "s": math.sin(2 * math.pi / k), "A": math.cos(a / 2) ** 2, "g": math.sin(math.pi / k) ** 2,
            "S": math.sinh(r) ** 2,
            "rad_sinh_sq": math.sinh(float(H.regular_polygon_radius(k, a))) ** 2,
            "ang_sin_sq": math.sin(float(H.polygon_interior_angle(k, r)) / 2) ** 2}


def lean_poly(inp, obs):
    if "exc" in obs:
        return []
    return [{"op": "c13.poly", "dim": inp["dim"], "cnt": inp["n"], "c": Q.qs(obs["c"]), "s": Q.qs(obs["s"]), "th": Q.qs(obs["th"])},
            {"op": "c13.poly_formula", "A": Q.qs(obs["A"]), "g": Q.qs(obs["g"]), "S": Q.qs(obs["S"])}]


def judge_poly(inp, obs, lr):
    if "exc" in obs:
        return exc(obs, "polygon")
    e = drv_err(lr)
    if e:
        return e
    mv = Q.decf(lr[0]["ok"])
    V = np.array(obs["V"])
    if V.shape != mv.shape:
        return {"expected": {"shape": list(mv.shape)}, "observed": list(V.shape), "tags": {"what": "vertex count"}, "property_failure": True}
    if not proj_close(V, mv, 1e-9):
        # orientation of the rotation is not part of the property: accept the mirror polygon
        mm = mv.copy()
        mm[:, 2] *= -1
        if not proj_close(V, mm, 1e-9):
            return {"expected": {"vertices": mv.tolist()}, "observed": V.tolist(), "tags": {"what": "vertices"}}
    f = lr[1]["ok"]
    if abs(obs["rad_sinh_sq"] - float(F(f["radius_sinh_sq"]))) > 1e-8 * (1 + obs["rad_sinh_sq"]):
        return {"expected": {"sinh^2 radius": f["radius_sinh_sq"]}, "observed": obs["rad_sinh_sq"], "tags": {"what": "regular_polygon_radius"}}
    if abs(obs["ang_sin_sq"] - float(F(f["angle_sin_sq"]))) > 1e-9:
        return {"expected": {"sin^2(a/2)": f["angle_sin_sq"]}, "observed": obs["ang_sin_sq"], "tags": {"what": "polygon_interior_angle"}}
    return None


# ================================================================== oracles (the property itself, floats)
SHAPES = [[], [], [], [3], [2, 2], [1, 2]]


def gen_o_origin(rng, n):
    for _ in range(n):
        dim = rng.choice([2, 3, 4, 5])
        shape = rng.choice(SHAPES)
        cnt = int(np.prod(shape)) if shape else 1
        # G12 / G16: some members far from the centre (hyperbolic distance 8..16, given on the hyperboloid), mixed with ordinary ones
        far = [rng.uniform(8, 16) if rng.random() < 0.2 else None for _ in range(cnt)]
        yield {"dim": dim, "shape": shape, "k": [G.fball(rng, dim, 0.97) for _ in range(cnt)], "far": far,
               "scale": [rng.choice([-1, 1]) * (10 ** rng.uniform(-9, 9) if rng.random() < 0.15 else rng.uniform(0.2, 5)) for _ in range(cnt)],
               "fo": rng.random() < 0.5}


def run_o_origin(inp):
    dim, shape = inp["dim"], tuple(inp["shape"])
    k = np.array(inp["k"]).reshape(shape + (dim,))
    X = np.array(H.Point(k, model="klein").proj_data, dtype=float)
    far = inp.get("far") or [None] * int(np.prod(shape) if shape else 1)
    Xf = X.reshape(-1, dim + 1).copy()
    kf = k.reshape(-1, dim).copy()
    for j, d in enumerate(far):
        if d is not None:
            u = kf[j] / np.linalg.norm(kf[j])
            Xf[j] = np.concatenate([[math.cosh(d)], math.sinh(d) * u])
            kf[j] = math.tanh(d) * u
    k = kf.reshape(k.shape)
    X = Xf.reshape(X.shape) * np.array(inp["scale"]).reshape(shape + (1,))
    P = H.Point(X.copy())
    M = P.origin_to(force_oriented=inp["fo"])
    o = H.Point.get_origin(dim, shape)
    img = M.apply(o, "elementwise")
    kk = np.array(img.coords("klein"), dtype=float)
    m = np.array(M.proj_data, dtype=float)
    Jm = G.J(dim)
    sc = np.maximum(1.0, np.abs(m).max(axis=(-1, -2))) ** 2        # per member: residual relative to the products formed
    return {"err": float(np.abs(kk - k).max()) if kk.shape == k.shape else float("inf"),
            "res": float((np.abs(m @ Jm @ np.swapaxes(m, -1, -2) - Jm).max(axis=(-1, -2)) / sc).max()),
            "mindet": float(np.min(_orient(m)))}


def judge_o_origin(inp, obs, lr):
    if "exc" in obs:
        return {"expected": "isometry", "observed": obs, "tags": {"exc": obs["exc"]}}
    if not obs["err"] <= 1e-8:
        return {"expected": "p.origin_to() @ origin = p", "observed": obs, "tags": {"what": "image"}}
    if not obs["res"] <= 1e-8:
        return {"expected": "M J M^T = J", "observed": obs, "tags": {"what": "form"}}
    if inp["fo"] and not obs["mindet"] > 0:
        return {"expected": "orientation preserving", "observed": obs, "tags": {"what": "det"}}
    return None


def rand_tv(rng, dim):
    k = G.fball(rng, dim, 0.95)
    # homogeneous scale of the basepoint's representative and length of the vector: usually moderate, sometimes extreme
    ext = rng.random() < 0.2
    sc = rng.choice([-1, 1]) * (10 ** rng.uniform(-12, 12) if ext else rng.uniform(0.3, 3))
    vs = 10 ** rng.uniform(-9, 9) if ext else 1.0
    v = [vs * rng.gauss(0, 1) for _ in range(dim + 1)]
    return {"k": k, "sc": sc, "v": v}


def mk_tv(d):
    X = H.Point(np.array(d["k"]), model="klein").proj_data * d["sc"]
    return H.TangentVector(H.Point(X.copy()), np.array(d["v"]))


def gen_o_tangent(rng, n):
    for _ in range(n):
        dim = rng.choice([2, 3, 4, 5])
        yield {"dim": dim, "a": rand_tv(rng, dim), "b": rand_tv(rng, dim), "fo": rng.random() < 0.5}


def run_o_tangent(inp):
    dim = inp["dim"]
    ta, tb = mk_tv(inp["a"]), mk_tv(inp["b"])
    pa, va = np.array(ta.point, dtype=float).copy(), np.array(ta.vector, dtype=float).copy()
    pb, vb = np.array(tb.point, dtype=float).copy(), np.array(tb.vector, dtype=float).copy()
    bt = H.TangentVector.get_base_tangent(dim)
    img = mk_tv(inp["a"]).origin_to(force_oriented=inp["fo"]) @ bt
    I = mk_tv(inp["a"]).isometry_to(mk_tv(inp["b"]), force_oriented=inp["fo"])
    img2 = I @ mk_tv(inp["a"])
    m = np.array(I.proj_data, dtype=float)
    Jm = G.J(dim)
    return {"pa": pa.tolist(), "va": va.tolist(), "pb": pb.tolist(), "vb": vb.tolist(),
            "img_pt": np.array(img.point, dtype=float).tolist(), "img_vec": np.array(img.vector, dtype=float).tolist(),
            "img2_pt": np.array(img2.point, dtype=float).tolist(), "img2_vec": np.array(img2.vector, dtype=float).tolist(),
            "res": float(np.abs(m @ Jm @ m.T - Jm).max()), "det": float(np.linalg.det(m))}


def judge_o_tangent(inp, obs, lr):
    if "exc" in obs:
        return {"expected": "isometries", "observed": obs, "tags": {"exc": obs["exc"]}}
    if not G.same_tangent(obs["img_pt"], obs["img_vec"], obs["pa"], obs["va"], 1e-7):
        return {"expected": "base tangent -> the tangent vector (point, positive multiple of the vector, up to one common sign)", "observed": obs, "tags": {"what": "origin_to"}}
    # projectively the same point; the direction must be a positive multiple *on the same sheet*:
    # normalise the sheet by the sign of the time coordinate of the image point
    if not G.same_tangent(obs["img2_pt"], obs["img2_vec"], obs["pb"], obs["vb"], 1e-7):
        return {"expected": "isometry_to carries basepoint and direction", "observed": obs, "tags": {"what": "isometry_to"}}
    if not obs["res"] <= 1e-8:
        return {"expected": "isometry", "observed": obs["res"], "tags": {"what": "form"}}
    return None


# ---- G16: composite tangent vectors of mixed kinds ------------------------------------------------------------------
def _orient(m):
    """orientation of an isometry matrix: determinant of the representative that preserves the upper sheet"""
    m = np.asarray(m, float)
    sgn = np.where(m[..., 0, 0] < 0, -1.0, 1.0)
    return np.linalg.det(m) * sgn ** m.shape[-1]


def gen_o_comptv(rng, n):
    for _ in range(n):
        dim = rng.choice([2, 2, 3, 4, 5])
        # stacks of every small size, including exactly dim+1 members (a square table) and rank-2 stacks
        shape = rng.choice([[2], [3], [4], [6], [dim + 1], [dim + 1], [2, 2], [2, 3], [1, 3]])
        cnt = int(np.prod(shape))
        yield {"dim": dim, "shape": shape, "a": [rand_tv(rng, dim) for _ in range(cnt)], "b": [rand_tv(rng, dim) for _ in range(cnt)],
               "t": [rng.uniform(-3, 3) for _ in range(cnt)], "fo": rng.random() < 0.7}


def _stack_tv(ds, shape, dim):
    X = np.stack([np.array(H.Point(np.array(d["k"]), model="klein").proj_data, dtype=float) * d["sc"] for d in ds]).reshape(tuple(shape) + (dim + 1,))
    V = np.stack([np.array(d["v"], dtype=float) for d in ds]).reshape(tuple(shape) + (dim + 1,))
    return H.TangentVector(H.Point(X.copy()), V.copy())


def run_o_comptv(inp):
    dim, shape, fo = inp["dim"], inp["shape"], inp["fo"]
    cnt = int(np.prod(shape))
    A, B = _stack_tv(inp["a"], shape, dim), _stack_tv(inp["b"], shape, dim)
    Mo = np.array(_stack_tv(inp["a"], shape, dim).origin_to(force_oriented=fo).proj_data, dtype=float)
    Mi = np.array(A.isometry_to(B, force_oriented=fo).proj_data, dtype=float)
    tt = np.array(inp["t"]).reshape(tuple(shape))
    Xa = np.array(_stack_tv(inp["a"], shape, dim).normalized().point_along(tt).proj_data, dtype=float)
    out = {"shapes": [list(Mo.shape), list(Mi.shape), list(Xa.shape)], "members": []}
    if list(Mo.shape) != shape + [dim + 1, dim + 1] or list(Mi.shape) != shape + [dim + 1, dim + 1] or list(Xa.shape) != shape + [dim + 1]:
        return out
    Mo, Mi, Xa = Mo.reshape(cnt, dim + 1, dim + 1), Mi.reshape(cnt, dim + 1, dim + 1), Xa.reshape(cnt, dim + 1)
    Jm = G.J(dim)
    for i in range(cnt):
        sa, sb = mk_tv(inp["a"][i]), mk_tv(inp["b"][i])
        pa, va = _tv_state(sa)
        pb, vb = _tv_state(sb)
        so = np.array(mk_tv(inp["a"][i]).origin_to(force_oriented=fo).proj_data, dtype=float)
        si = np.array(mk_tv(inp["a"][i]).isometry_to(mk_tv(inp["b"][i]), force_oriented=fo).proj_data, dtype=float)
        sx = np.array(mk_tv(inp["a"][i]).normalized().point_along(inp["t"][i]).proj_data, dtype=float)
        sc = 1 + float(np.abs(so).max()) ** 2 + float(np.abs(si).max()) ** 2
        out["members"].append({
            "form": float(max(np.abs(Mo[i] @ Jm @ Mo[i].T - Jm).max(), np.abs(Mi[i] @ Jm @ Mi[i].T - Jm).max()) / sc),
            "origin_rows": G.same_tangent(Mo[i][0], Mo[i][1], pa, va, 1e-6),
            "carries": G.same_tangent(pa @ Mi[i], va @ Mi[i], pb, vb, 1e-6 * sc),
            "orient": [float(_orient(Mo[i])), float(_orient(Mi[i]))], "orient_single": [float(_orient(so)), float(_orient(si))],
            # in H^2 the orientation-preserving isometry with these images is unique
            "same_as_single": [float(min(np.abs(Mo[i] - so).max(), np.abs(Mo[i] + so).max()) / sc),
                               float(min(np.abs(Mi[i] - si).max(), np.abs(Mi[i] + si).max()) / sc)],
            "along": G.proj_equal(Xa[i], sx, 1e-7)})
    return out


def judge_o_comptv(inp, obs, lr):
    tags = {"dim": inp["dim"], "shape": inp["shape"], "fo": inp["fo"], "square_table": inp["shape"] == [inp["dim"] + 1]}
    if "exc" in obs:
        return {"expected": "isometries for every member", "observed": obs, "tags": dict(tags, exc=obs["exc"])}
    if not obs["members"]:
        return {"expected": {"one answer per member, shape": inp["shape"]}, "observed": obs["shapes"], "tags": dict(tags, what="shape")}
    for i, m in enumerate(obs["members"]):
        if not (m["form"] <= 1e-8 and m["origin_rows"] and m["carries"]):
            return {"expected": "member i: isometry; origin_to rows = (basepoint, direction); isometry_to carries member i of a to member i of b",
                    "observed": dict(m, i=i), "tags": dict(tags, what="targets")}
        if not m["along"]:
            return {"expected": "point_along with an array of distances: member i as for the single tangent vector", "observed": dict(m, i=i), "tags": dict(tags, what="point_along")}
        if inp["fo"] and not (m["orient"][0] > 0 and m["orient"][1] > 0):
            return {"expected": "force_oriented=True: every member orientation preserving", "observed": dict(m, i=i), "tags": dict(tags, what="orientation")}
        if inp["fo"] and inp["dim"] == 2 and not max(m["same_as_single"]) <= 1e-7:
            return {"expected": "H^2, orientation forced: member i equals the answer for the single tangent vector", "observed": dict(m, i=i),
                    "tags": dict(tags, what="member = single")}
    return None


def gen_o_along(rng, n):
    for _ in range(n):
        dim = rng.choice([2, 3, 4, 5])
        t1 = G.rand_real(rng, -4, 4)
        if rng.random() < 0.15:
            # G12: now and then distances up to 12, in double precision (tanh t is 1 in float32 from t = 9 on)
            t1 = {"v": rng.uniform(4, 12) * rng.choice([-1, 1]), "pack": rng.choice(G.FLOAT_PACKS)}
        yield {"dim": dim, "a": rand_tv(rng, dim), "b": rand_tv(rng, dim), "t1": t1, "t2": G.rand_real(rng, -4, 4),
               "q": G.fball(rng, dim, 0.95), "qs": rng.choice([-1, 1]) * rng.uniform(0.3, 3)}


def _d(a, b):
    """d(a, b), measured on copies: the measurement must not touch the objects under test (Point.distance may or may
    not rescale the stored coordinates of its arguments; nothing promises either)"""
    a = H.Point(np.array(a.proj_data, dtype=float).copy())
    b = H.Point(np.array(b.proj_data, dtype=float).copy())
    return float(np.asarray(a.distance(b)).reshape(-1)[0])


def run_o_along(inp):
    ta = mk_tv(inp["a"]).normalized()
    p = H.Point(np.array(ta.point, dtype=float).copy())
    pvec = np.array(ta.point, dtype=float).copy()
    v1 = np.array(ta.vector, dtype=float).copy()
    x1 = ta.point_along(G.unpack(inp["t1"]))
    d1 = _d(p, x1)
    # on the geodesic spanned: x1 in span(p, v)
    A = np.stack([pvec, v1, np.array(x1.proj_data, dtype=float)])
    sv = np.linalg.svd(A / np.linalg.norm(A, axis=1, keepdims=True), compute_uv=False)
    # second tangent vector at the same point, law of cosines
    tb = H.TangentVector(H.Point(pvec.copy()), np.array(inp["b"]["v"])).normalized()
    x2 = tb.point_along(G.unpack(inp["t2"]))
    ang = float(np.asarray(mk2(pvec, v1).angle(tb)).reshape(-1)[0])
    # the angle does not depend on the lengths of the tangent vectors
    ang_scaled = float(np.asarray(mk2(pvec, 3.7 * v1).angle(mk2(pvec, 0.4 * np.array(tb.vector, dtype=float)))).reshape(-1)[0])
    # (x, v) ~ (-x, -v): the angle must not depend on which representative of either tangent vector is stored
    vb = np.array(tb.vector, dtype=float).copy()
    ang_reps = [float(np.asarray(mk2(s1 * pvec, s1 * v1).angle(mk2(s2 * pvec, s2 * vb))).reshape(-1)[0]) for s1 in (1, -1) for s2 in (1, -1)]
    ang_opp = float(np.asarray(mk2(pvec, v1).angle(mk2(-pvec, vb))).reshape(-1)[0])
    ang_self = float(np.asarray(mk2(pvec, v1).angle(mk2(pvec, 2.5 * v1))).reshape(-1)[0])
    ang_anti = float(np.asarray(mk2(pvec, v1).angle(mk2(pvec, -0.5 * v1))).reshape(-1)[0])
    c = _d(x1, x2)
    # towards q
    Qp = H.Point(H.Point(np.array(inp["q"]), model="klein").proj_data * inp["qs"])
    dq = _d(p, Qp)
    tq = p.unit_tangent_towards(Qp)
    end = tq.point_along(dq)
    return {"d1": d1, "rank3": float(sv[-1]), "ang": ang, "ang_self": ang_self, "ang_anti": ang_anti, "ang_scaled": ang_scaled, "ang_reps": ang_reps, "ang_opp": ang_opp, "c": c, "d2": _d(p, x2),
            "end": np.array(end.coords("klein"), dtype=float).tolist(), "dq": dq,
            "unit": float(G.mink(np.array(tq.vector, dtype=float), np.array(tq.vector, dtype=float)))}


def mk2(p, v):
    return H.TangentVector(H.Point(np.array(p).copy()), np.array(v).copy())


def judge_o_along(inp, obs, lr):
    if "exc" in obs:
        return {"expected": "points", "observed": obs, "tags": {"exc": obs["exc"]}}
    t1, t2 = G.val(inp["t1"]), G.val(inp["t2"])
    # a float32 distance carries 6e-8 relative error into tanh t, amplified by cosh^2 t in the distance
    f32 = G.is32(inp["t1"]) or G.is32(inp["t2"])
    # point_along goes through the Klein coordinate tanh t, whose distance from 1 is 2 e^(-2t): the pinned tree places the point
    # with an error of about eps e^(2|t|) / 4 in the distance (measured 2e-5 at t = 12); 4e-15 e^(2|t|) is asked for
    far = 4e-15 * math.exp(2 * abs(t1))
    dtol = 1e-6 * (1 + abs(t1)) + (3e-7 * math.cosh(t1) ** 2 if G.is32(inp["t1"]) else 0.0) + far
    if not abs(obs["d1"] - abs(t1)) <= dtol:
        return {"expected": {"d(p, point_along(t))": abs(t1)}, "observed": obs["d1"],
                "tags": {"what": "distance", "neg": t1 < 0, "pack": inp["t1"]["pack"] if isinstance(inp["t1"], dict) else "float",
                         "integral": float(t1).is_integer()}}
    if not obs["rank3"] <= 1e-7:
        return {"expected": "point on the geodesic spanned by the tangent vector", "observed": obs["rank3"], "tags": {"what": "span"}}
    lhs = math.cosh(obs["c"])
    rhs = math.cosh(t1) * math.cosh(t2) - math.sinh(t1) * math.sinh(t2) * math.cos(obs["ang"])
    if not abs(lhs - rhs) <= ((1e-3 if f32 else 1e-6) + far) * (1 + abs(rhs)):
        return {"expected": {"law of cosines rhs": rhs}, "observed": lhs, "tags": {"what": "law_of_cosines"}}
    if "ang_reps" in obs and not (max(abs(a - obs["ang"]) for a in obs["ang_reps"]) <= 1e-7 and abs(obs["ang_opp"] - (math.pi - obs["ang"])) <= 1e-7):
        return {"expected": {"angle independent of the representative (x,v) ~ (-x,-v); pi - angle for (x,v1),(-x,v2)": obs["ang"]},
                "observed": [obs["ang_reps"], obs["ang_opp"]], "tags": {"what": "angle", "representatives": True}}
    if not abs(obs["ang_scaled"] - obs["ang"]) <= 1e-7:
        return {"expected": {"angle independent of the vectors' lengths": obs["ang"]}, "observed": obs["ang_scaled"], "tags": {"what": "angle", "unequal_lengths": True}}
    if not (abs(obs["ang_self"]) <= 1e-6 and abs(obs["ang_anti"] - math.pi) <= 1e-6):
        return {"expected": "angle 0 between parallel, pi between opposite tangent vectors (degenerate triangle in the law of cosines)",
                "observed": [obs["ang_self"], obs["ang_anti"]],
                "tags": {"what": "angle", "parallel": True, "nan": not (math.isfinite(obs["ang_self"]) and math.isfinite(obs["ang_anti"]))}}
    if not abs(obs["unit"] - 1) <= 1e-8:
        return {"expected": "unit tangent", "observed": obs["unit"], "tags": {"what": "unit"}}
    if not (np.all(np.isfinite(obs["end"])) and np.abs(np.array(obs["end"]) - np.array(inp["q"])).max() <= 1e-6):
        return {"expected": {"arrive at q": inp["q"]}, "observed": obs["end"],
                "tags": {"what": "towards", "call_site": "Point.unit_tangent_towards",
                         "opposite_sheet": (inp["qs"] * inp["a"]["sc"] < 0)}}
    return None


def gen_o_poly(rng, n):
    for i in range(n):
        k = 3 + (i % 10)
        dim = rng.choice([2, 2, 3, 4])
        amax = (k - 2) * math.pi / k
        ang = G.rand_real(rng, 0.03 * amax, 0.97 * amax, p_int=0.25, ints=[1] if 1 < 0.97 * amax else [])
        yield {"n": k, "dim": dim, "angle": ang, "by_radius": rng.random() < 0.4,
               "radius": G.rand_real(rng, 0.05, 3.0, ints=[1, 2, 3]), "n_pack": rng.choice(["int", "int", "np.int64"])}


def run_o_poly(inp):
    k, dim = inp["n"], inp["dim"]
    kp = G.pack(k, inp.get("n_pack", "int"))
    if inp["by_radius"]:
        r = G.val(inp["radius"])
        a = float(H.polygon_interior_angle(k, r))
        P = H.Polygon.regular_polygon(kp, radius=G.unpack(inp["radius"]), dimension=dim)
    else:
        a = G.val(inp["angle"])
        r = float(H.regular_polygon_radius(k, a))
        P = H.Polygon.regular_polygon(kp, angle=G.unpack(inp["angle"]), dimension=dim)
    V = P.get_vertices()
    data = np.array(V.proj_data, dtype=float)
    cnt = data.shape[0]
    o = H.Point.get_origin(dim)
    radii = [_d(o, H.Point(data[i].copy())) for i in range(cnt)]
    sides = [_d(H.Point(data[i].copy()), H.Point(data[(i + 1) % cnt].copy())) for i in range(cnt)]
    angles = []
    for i in range(cnt):
        x = H.Point(data[i].copy())
        t1 = x.unit_tangent_towards(H.Point(data[(i - 1) % cnt].copy()))
        t2 = H.Point(data[i].copy()).unit_tangent_towards(H.Point(data[(i + 1) % cnt].copy()))
        angles.append(float(np.asarray(t1.angle(t2)).reshape(-1)[0]))
    return {"cnt": cnt, "radii": radii, "sides": sides, "angles": angles, "r": r, "a": a,
            "inv_a": float(H.polygon_interior_angle(k, float(H.regular_polygon_radius(k, a)))),
            "inv_r": float(H.regular_polygon_radius(k, float(H.polygon_interior_angle(k, r))))}


def judge_o_poly(inp, obs, lr):
    if "exc" in obs:
        return {"expected": "regular polygon", "observed": obs, "tags": {"exc": obs["exc"]}}
    which = inp["radius"] if inp["by_radius"] else inp["angle"]
    tags = {"n": inp["n"], "by_radius": inp["by_radius"], "pack": which["pack"] if isinstance(which, dict) else "float",
            "integral": G.val(which).is_integer(), "n_pack": inp.get("n_pack", "int")}
    if obs["cnt"] != inp["n"]:
        return {"expected": f"{inp['n']} vertices", "observed": obs["cnt"], "tags": dict(tags, what="count")}
    if G.is32(which):
        # float32 parameter: only ~7 digits go in; equal radii/sides are still exact, values compared at 1e-4
        if not (np.ptp(obs["radii"]) <= 1e-6 and np.ptp(obs["sides"]) <= 1e-6 and np.ptp(obs["angles"]) <= 1e-6
                and abs(obs["radii"][0] - obs["r"]) <= 1e-4 * (1 + math.cosh(obs["r"]) ** 2) and abs(obs["angles"][0] - obs["a"]) <= 1e-4 * (1 + math.cosh(obs["r"]) ** 2)):
            return {"expected": "regular polygon (float32 parameter)", "observed": obs, "tags": dict(tags, what="float32")}
        return None
    if not np.abs(np.array(obs["radii"]) - obs["r"]).max() <= 1e-6:
        return {"expected": {"all radii": obs["r"]}, "observed": obs["radii"], "tags": dict(tags, what="radii")}
    if not np.ptp(obs["sides"]) <= 1e-6:
        return {"expected": "equal sides", "observed": obs["sides"], "tags": dict(tags, what="sides")}
    if not np.abs(np.array(obs["angles"]) - obs["a"]).max() <= 1e-6:
        return {"expected": {"interior angle": obs["a"]}, "observed": obs["angles"], "tags": dict(tags, what="angle")}
    if not abs(obs["inv_a"] - obs["a"]) <= 1e-7:
        return {"expected": {"angle(radius(a))": obs["a"]}, "observed": obs["inv_a"], "tags": dict(tags, what="inverse_a")}
    if not abs(obs["inv_r"] - obs["r"]) <= 1e-6 * (1 + obs["r"]) * max(1.0, math.cosh(obs["r"]) ** 2 / 50):
        return {"expected": {"radius(angle(r))": obs["r"]}, "observed": obs["inv_r"], "tags": dict(tags, what="inverse_r")}
    return None


# ---- the SIZE parameter swept over a wide range ---------------------------------------------------------------------
def gen_o_polysize(rng, n):
    # every number of sides 3..400 (in a shuffled order, repeated with other parameters when the budget is larger)
    ks = list(range(3, 401))
    for i in range(n):
        if i % len(ks) == 0:
            rng.shuffle(ks)
        k = ks[i % len(ks)]
        yield {"n": k, "dim": rng.choice([2, 2, 3]), "by_radius": rng.random() < 0.5, "radius": rng.uniform(0.3, 2.5),
               "frac": rng.uniform(0.05, 0.95)}


def run_o_polysize(inp):
    k, dim = inp["n"], inp["dim"]
    if inp["by_radius"]:
        r = inp["radius"]
        P = H.Polygon.regular_polygon(k, radius=r, dimension=dim)
    else:
        a = inp["frac"] * (k - 2) * math.pi / k
        r = float(H.regular_polygon_radius(k, a))
        P = H.Polygon.regular_polygon(k, angle=a, dimension=dim)
    data = np.array(P.get_vertices().proj_data, dtype=float)
    cnt = data.shape[0]
    o = H.Point.get_origin(dim)
    idx = sorted(set([0, 1, cnt // 2, cnt - 1]))
    radii = [_d(o, H.Point(data[i].copy())) for i in idx]
    sides = [_d(H.Point(data[i].copy()), H.Point(data[(i + 1) % cnt].copy())) for i in idx]
    return {"cnt": cnt, "radii": radii, "sides": sides, "r": r}


def judge_o_polysize(inp, obs, lr):
    tags = {"n": inp["n"], "by_radius": inp["by_radius"], "dim": inp["dim"]}
    if "exc" in obs:
        return {"expected": "regular polygon", "observed": obs, "tags": dict(tags, exc=obs["exc"])}
    if obs["cnt"] != inp["n"]:
        return {"expected": f"{inp['n']} vertices", "observed": obs["cnt"], "tags": dict(tags, what="count")}
    r = obs["r"]
    side = math.acosh(max(1.0, math.cosh(r) ** 2 - math.sinh(r) ** 2 * math.cos(2 * math.pi / inp["n"])))
    tol = 1e-6 * (1 + math.cosh(r) ** 2)
    if not (np.abs(np.array(obs["radii"]) - r).max() <= tol and np.abs(np.array(obs["sides"]) - side).max() <= tol * 10):
        return {"expected": {"radius": r, "side (law of cosines with central angle 2 pi / n)": side}, "observed": obs, "tags": dict(tags, what="radius/side")}
    return None


# ---- histories: query, transform / overwrite, query again (derived isometries must follow the object) -------------
HIST_OPS = ["origin_to", "point_along", "isometry_to", "transform", "transform_apply", "set", "normalized", "angle"]


def gen_o_history(rng, n):
    for _ in range(n):
        dim = rng.choice([2, 2, 3, 4, 5])
        steps = []
        for _ in range(rng.randint(3, 7)):
            op = rng.choice(HIST_OPS)
            st = {"op": op, "fo": rng.random() < 0.5}
            if op in ("transform", "transform_apply"):
                st["g"] = G.float_iso(rng, dim, k=2, tmax=1.0).tolist()
            elif op == "set":
                st["tv"] = rand_tv(rng, dim)
            elif op == "point_along":
                st["t"] = G.rand_real(rng, -2.5, 2.5)
            elif op == "isometry_to":
                st["tv"] = rand_tv(rng, dim)
            elif op == "angle":
                st["v"] = [rng.gauss(0, 1) for _ in range(dim + 1)]
                st["scale"] = rng.uniform(0.2, 5)
            steps.append(st)
        # every history ends with the three queries, so that whatever happened before is observed
        steps += [{"op": "origin_to", "fo": rng.random() < 0.5}, {"op": "point_along", "t": G.rand_real(rng, -2.5, 2.5), "fo": True},
                  {"op": "isometry_to", "tv": rand_tv(rng, dim), "fo": rng.random() < 0.5}]
        for st in steps:
            if rng.random() < 0.35:
                st["other"] = {"tv": rand_tv(rng, dim), "g": G.float_iso(rng, dim, k=2, tmax=1.0).tolist(), "t": rng.uniform(-2, 2)}
        yield {"dim": dim, "start": rand_tv(rng, dim), "steps": steps, "obj": rng.choice(["tangent", "tangent", "point"]),
               "f32": rng.random() < 0.1}


def _tv_state(tv):
    """(point, unit direction) of a tangent vector read off its *data* only (no library queries)"""
    d = np.array(tv.proj_data, dtype=float)
    p, v = d[..., 0, :].copy(), d[..., 1, :].copy()
    w = v - p * (G.mink(v, p) / G.mink(p, p))
    return p, w / math.sqrt(G.mink(w, w))


def _tv_fresh(tv):
    """G1: a new tangent vector from a copy of the current primary data, and nothing else"""
    return H.TangentVector(np.array(tv.proj_data).copy())


def _tv_answers(tv, t, fo, spoil=False):
    """origin_to and point_along as arrays; with spoil the arrays handed out are overwritten afterwards (G2)"""
    M = tv.origin_to(force_oriented=fo)
    m = np.array(M.proj_data, dtype=float).copy()
    x = tv.normalized().point_along(t)
    xd = np.array(x.proj_data, dtype=float).copy()
    if spoil:
        for a in (M.proj_data, x.proj_data):
            if isinstance(a, np.ndarray) and a.flags.writeable:
                a[...] = np.nan
    return m[:2], xd / np.linalg.norm(xd)


def run_o_history(inp):
    dim = inp["dim"]
    bt = H.TangentVector.get_base_tangent(dim)
    o = H.Point.get_origin(dim)
    tv = mk_tv(inp["start"])
    if inp.get("f32"):
        tv = H.TangentVector(np.array(tv.proj_data).astype(np.float32))
    ftol = 2e-3 if inp.get("f32") else 1e-7
    log = []
    for k, st in enumerate(inp["steps"]):
        op = st["op"]
        if st.get("other") is not None and inp["obj"] == "tangent":
            # G3: the same kinds of calls on an unrelated tangent vector in between
            ot = mk_tv(st["other"]["tv"])
            ot.origin_to()
            ot2 = H.Isometry(np.array(st["other"]["g"])) @ ot
            a1 = _tv_answers(ot2, st["other"]["t"], True)
            a2 = _tv_answers(_tv_fresh(ot2), st["other"]["t"], True)
            log.append({"k": k, "op": "other", "what": "unrelated tangent vector: moved image answers like a fresh object",
                        "ok": bool(np.abs(a1[0] - a2[0]).max() <= 1e-7 and np.abs(a1[1] - a2[1]).max() <= 1e-7)})
        if inp["obj"] == "tangent" and op in ("origin_to", "point_along", "isometry_to"):
            # G1 + G2 at every query: answers equal those of a fresh object; overwriting returned arrays changes nothing
            tq = G.val(st["t"]) if op == "point_along" else 0.7
            a1 = _tv_answers(tv, tq, st.get("fo", True), spoil=True)
            a2 = _tv_answers(tv, tq, st.get("fo", True))
            a3 = _tv_answers(_tv_fresh(tv), tq, st.get("fo", True))
            # the rows of origin_to grow like cosh d(o, p) and lose that many digits (twice: normalize rescales the stored
            # vector in place by a positive factor, so two calls on one object differ by roundoff)
            sc = 1 + float(np.abs(a3[0]).max()) ** 2
            log.append({"k": k, "op": op, "what": "answers equal those of a fresh object with the same data, and survive overwriting returned arrays",
                        "ok": bool(np.abs(a1[0] - a3[0]).max() <= ftol * sc and np.abs(a1[1] - a3[1]).max() <= ftol * sc
                                   and np.abs(a1[0] - a2[0]).max() <= 1e-12 * sc and np.abs(a1[1] - a2[1]).max() <= 1e-12 * sc)})
        if inp["obj"] == "point":
            # the same history on the basepoint alone: Point.origin_to after transformations
            pt = H.Point(np.array(tv.point, dtype=float).copy()) if k == 0 else pt
            if op in ("transform", "transform_apply"):
                g = H.Isometry(np.array(st["g"]))
                pt = (g @ pt) if op == "transform" else g.apply(pt)
            elif op == "set":
                pt.set(np.array(mk_tv(st["tv"]).point, dtype=float).copy())
            want = np.array(pt.proj_data, dtype=float).copy()
            img = np.array((pt.origin_to(force_oriented=st.get("fo", True)) @ o).proj_data, dtype=float)
            log.append({"k": k, "op": op, "what": "point.origin_to", "ok": G.proj_equal(img, want, 1e-7)})
            continue
        if op == "transform":
            tv = H.Isometry(np.array(st["g"])) @ tv
        elif op == "transform_apply":
            tv = H.Isometry(np.array(st["g"])).apply(tv)
        elif op == "set":
            new = mk_tv(st["tv"])
            tv.set(np.array(new.proj_data, dtype=float).copy())
        elif op == "normalized":
            p0, d0 = _tv_state(tv)
            tv = tv.normalized()
            p1, d1 = _tv_state(tv)
            log.append({"k": k, "op": op, "what": "normalized keeps point and direction",
                        "ok": G.proj_equal(p1, p0, 1e-8) and G.parallel_pos(d1, d0, 1e-7)})
        elif op == "origin_to":
            p0, d0 = _tv_state(tv)
            img = tv.origin_to(force_oriented=st["fo"]) @ bt
            log.append({"k": k, "op": op, "what": "origin_to: base tangent -> this vector",
                        "ok": G.same_tangent(np.array(img.point, dtype=float), np.array(img.vector, dtype=float), p0, d0, 1e-6)})
        elif op == "point_along":
            p0, d0 = _tv_state(tv)
            x = tv.normalized().point_along(G.unpack(st["t"]))
            xd = np.array(x.proj_data, dtype=float)
            dist = _d(H.Point(p0.copy()), x)
            A = np.stack([p0 / np.linalg.norm(p0), d0 / np.linalg.norm(d0), xd / np.linalg.norm(xd)])
            log.append({"k": k, "op": op, "what": "point_along: distance |t| on the geodesic of this vector",
                        "ok": abs(dist - abs(G.val(st["t"]))) <= 1e-5 * (1 + abs(G.val(st["t"]))) and np.linalg.svd(A, compute_uv=False)[-1] <= 1e-7,
                        "dist": dist, "t": st["t"]})
        elif op == "isometry_to":
            p0, d0 = _tv_state(tv)
            other = mk_tv(st["tv"])
            p1, d1 = _tv_state(other)
            I = tv.isometry_to(other, force_oriented=st["fo"])
            m = np.array(I.proj_data, dtype=float)
            ip, idir = p0 @ m, d0 @ m
            log.append({"k": k, "op": op, "what": "isometry_to carries this vector to the other",
                        "ok": G.same_tangent(ip, idir, p1, d1, 1e-6)})
        elif op == "angle":
            p0, d0 = _tv_state(tv)
            v = np.array(st["v"])
            w = v - p0 * (G.mink(v, p0) / G.mink(p0, p0))
            c = G.mink(w, d0) / math.sqrt(G.mink(w, w))
            a = float(np.asarray(tv.angle(H.TangentVector(H.Point(p0.copy()), st["scale"] * v))).reshape(-1)[0])
            log.append({"k": k, "op": op, "what": "angle (vectors of different lengths)", "ok": abs(math.cos(a) - c) <= 1e-7})
    return {"log": log}


def judge_o_history(inp, obs, lr):
    ops = [st["op"] for st in inp["steps"]]
    if "exc" in obs:
        return {"expected": "history runs", "observed": obs, "tags": {"exc": obs["exc"], "ops": ops[:6]}}
    for e in obs["log"]:
        if not e["ok"]:
            before = ops[:e["k"]]
            return {"expected": e["what"], "observed": e,
                    "tags": {"what": e["op"], "after_transform": any(o in ("transform", "transform_apply", "set") for o in before),
                             "after_query": any(o in ("origin_to", "point_along", "isometry_to") for o in before), "obj": inp["obj"]}}
    return None


def gen_o_surface(rng, n):
    for i in range(n):
        yield {"g": 2 + (i % 4)}


def run_o_surface(inp):
    g = inp["g"]
    P = H.Polygon.regular_surface_polygon(g)
    data = np.array(P.get_vertices().proj_data, dtype=float)
    cnt = data.shape[0]
    o = H.Point.get_origin(2)
    radii = [_d(o, H.Point(data[i].copy())) for i in range(cnt)]
    angles = []
    for i in range(cnt):
        t1 = H.Point(data[i].copy()).unit_tangent_towards(H.Point(data[(i - 1) % cnt].copy()))
        t2 = H.Point(data[i].copy()).unit_tangent_towards(H.Point(data[(i + 1) % cnt].copy()))
        angles.append(float(np.asarray(t1.angle(t2)).reshape(-1)[0]))
    return {"cnt": cnt, "radii": radii, "angles": angles, "r": float(H.genus_g_surface_radius(g))}


def judge_o_surface(inp, obs, lr):
    g = inp["g"]
    if "exc" in obs:
        return {"expected": "regular 4g-gon", "observed": obs, "tags": {"exc": obs["exc"], "g": g}}
    if obs["cnt"] != 4 * g:
        return {"expected": f"{4 * g} vertices", "observed": obs["cnt"], "tags": {"g": g, "what": "count"}}
    if not np.abs(np.array(obs["radii"]) - obs["r"]).max() <= 1e-6:
        return {"expected": {"radius genus_g_surface_radius(g)": obs["r"]}, "observed": obs["radii"], "tags": {"g": g, "what": "radii"}}
    if not (np.abs(np.array(obs["angles"]) - math.pi / (2 * g)).max() <= 1e-6 and abs(sum(obs["angles"]) - 2 * math.pi) <= 1e-5):
        return {"expected": "interior angles pi/(2g), summing to 2 pi", "observed": obs["angles"], "tags": {"g": g, "what": "angles"}}
    return None


# ---- (i) arguments are not consumed: snapshot of every scalar / array argument, call-twice determinism ----------------
ARG_PACKS = ["0d", "0d-view", "1d", "np.float64", "float", "int-or-float", "list"]
ARG_CALLS = ["regular_polygon_radius", "polygon_interior_angle", "hyp_to_affine_dist", "regular_polygon_angle", "regular_polygon_radius_kw",
             "point_along", "standard_rotation", "standard_loxodromic", "unit_tangent_towards", "origin_to_point", "int_tangent_data"]


def _arg(v, pack):
    if pack == "0d":
        return np.array(float(v))
    if pack == "0d-view":
        return np.array([float(v), 9.0])[0:1].reshape(())
    if pack == "1d":
        return np.array([float(v), float(v)])
    if pack == "np.float64":
        return np.float64(v)
    if pack == "list":
        return [float(v), float(v)]
    return float(v)


def gen_o_args(rng, n):
    for i in range(n):
        call = ARG_CALLS[i % len(ARG_CALLS)]
        k = rng.randint(3, 9)
        amax = (k - 2) * math.pi / k
        yield {"call": call, "pack": rng.choice(ARG_PACKS), "n": k, "a": rng.uniform(0.1 * amax, 0.9 * amax), "r": rng.uniform(0.2, 2.5),
               "t": rng.uniform(-2.5, 2.5), "dim": rng.choice([2, 3]), "tv": rand_tv(rng, 3), "q": G.fball(rng, 3, 0.9)}


def random_from(inp):
    import random
    return random.Random(repr(sorted((k, repr(v)) for k, v in inp.items() if k in ("n", "a", "r", "t"))))


def _snap(x):
    return np.array(x, dtype=float).copy() if isinstance(x, (np.ndarray, list)) else x


def run_o_args(inp):
    call, pack, k = inp["call"], inp["pack"], inp["n"]
    vec_ok = call in ("regular_polygon_radius", "polygon_interior_angle", "hyp_to_affine_dist")
    if pack in ("1d", "list") and not vec_ok:
        pack = "0d"
    if pack == "list" and call != "hyp_to_affine_dist":
        pack = "1d"
    dim = inp["dim"]
    tvd = dict(inp["tv"], k=inp["tv"]["k"][:dim], v=inp["tv"]["v"][:dim + 1])

    def do(x):
        if call == "regular_polygon_radius":
            return np.array(H.regular_polygon_radius(k, x), dtype=float)
        if call == "polygon_interior_angle":
            return np.array(H.polygon_interior_angle(k, x), dtype=float)
        if call == "hyp_to_affine_dist":
            return np.array(H.hyp_to_affine_dist(np.array(x) if isinstance(x, list) else x), dtype=float)
        if call == "regular_polygon_angle":
            return np.array(H.Polygon.regular_polygon(k, angle=x).get_vertices().proj_data, dtype=float)
        if call == "regular_polygon_radius_kw":
            return np.array(H.Polygon.regular_polygon(k, radius=x).get_vertices().proj_data, dtype=float)
        if call == "point_along":
            return np.array(mk_tv(tvd).normalized().point_along(x).proj_data, dtype=float)
        if call == "standard_rotation":
            return np.array(H.Isometry.standard_rotation(x, dimension=dim).proj_data, dtype=float)
        if call == "standard_loxodromic":
            return np.array(H.Isometry.standard_loxodromic(dim, x).proj_data, dtype=float)
        raise ValueError(call)
    if call == "int_tangent_data":
        # (ii) objects whose own data is integral, in every packaging: Point.origin_to, TangentVector.point_along (normalised or not)
        pt = G.int_timelike(random_from(inp), dim)
        vec = [0] * (dim + 1)
        vec[1 + (inp["n"] % dim)] = 1 + inp["n"] % 3
        vec[0] = inp["n"] % 2
        dp = ["int64", "int32", "list", "float64"][inp["n"] % 4]
        arr = G.pack_data([pt, vec], dp)
        tv = H.TangentVector(arr)
        base = H.Point(np.array(pt, dtype=float))
        w = np.array(vec, dtype=float) - np.array(pt, dtype=float) * (G.mink(np.array(vec, float), np.array(pt, float)) / G.mink(np.array(pt, float), np.array(pt, float)))
        L = math.sqrt(G.mink(w, w))
        t = inp["t"]
        d_unit = _d(base, tv.normalized().point_along(t))
        d_raw = _d(base, H.TangentVector(G.pack_data([pt, vec], dp)).point_along(t))     # not normalised: distance still |t| (origin_to normalises)
        img = np.array((H.Point(G.pack_data(pt, dp)).origin_to() @ H.Point.get_origin(dim)).proj_data, dtype=float)
        return {"arg_ok": True, "twice": 0.0, "ref": max(abs(d_unit - abs(t)), abs(d_raw - abs(t))) * 1e-3 if G.proj_equal(img, np.array(pt, float), 1e-9) else 1.0,
                "pack": dp, "L": L}
    if call in ("unit_tangent_towards", "origin_to_point"):
        # array arguments that become object data: the caller's arrays must survive the queries
        pk = np.array(inp["tv"]["k"][:dim])
        qk = np.array(inp["q"][:dim])
        pdat, qdat = np.array(H.Point(pk, model="klein").proj_data, dtype=float), np.array(H.Point(qk, model="klein").proj_data, dtype=float)
        p0, q0 = pdat.copy(), qdat.copy()
        P, Qp = H.Point(pdat), H.Point(qdat)
        if call == "origin_to_point":
            # only row 0 (the image of the origin) and "is an isometry" are specified: the completion of the frame is free,
            # and may differ between two calls (the stored representative is rescaled by the first one)
            m1 = np.array(P.origin_to().proj_data, dtype=float)
            m2 = np.array(P.origin_to().proj_data, dtype=float)
            Jm = G.J(dim)
            res = max(float(np.abs(m @ Jm @ m.T - Jm).max()) for m in (m1, m2))
            r1 = m1[0] / np.linalg.norm(m1[0])
            r2 = m2[0] / np.linalg.norm(m2[0]) * (1.0 if float(m1[0] @ m2[0]) > 0 else -1.0)
            r1 = np.concatenate([r1, [0.0]])
            r2 = np.concatenate([r2, [res]])
        else:
            r1 = np.array(P.unit_tangent_towards(Qp).vector, dtype=float).copy()
            r2 = np.array(P.unit_tangent_towards(Qp).vector, dtype=float).copy()
        # the stored representative may legitimately be rescaled (projective data); anything else is a consumed argument
        return {"arg_ok": bool(G.proj_equal(pdat, p0, 1e-12) and G.proj_equal(qdat, q0, 1e-12)), "twice": float(np.abs(r1 - r2).max()), "ref": 0.0}
    v = {"regular_polygon_radius": inp["a"], "regular_polygon_angle": inp["a"], "polygon_interior_angle": inp["r"], "regular_polygon_radius_kw": inp["r"],
         "hyp_to_affine_dist": inp["t"], "point_along": inp["t"], "standard_rotation": inp["a"], "standard_loxodromic": math.exp(inp["t"])}[call]
    x = _arg(v, pack)
    before = _snap(x)
    r1 = do(x)
    after1 = _snap(x)
    r2 = do(x)
    ref = do(float(v))
    same_arg = bool(np.array_equal(np.array(before, dtype=float), np.array(after1, dtype=float)) and np.array_equal(np.array(before, dtype=float), np.array(_snap(x), dtype=float)))
    rr = np.broadcast_to(ref, r1.shape) if r1.shape != ref.shape and ref.ndim <= r1.ndim else ref
    return {"arg_ok": same_arg, "twice": float(np.abs(r1 - r2).max()), "ref": float(np.abs(r1 - rr).max()) if r1.shape == np.shape(rr) else float("inf"), "pack": pack}


def judge_o_args(inp, obs, lr):
    tags = {"call": inp["call"], "pack": obs.get("pack", inp["pack"])}
    if "exc" in obs:
        return {"expected": "call succeeds for this packaging of the argument", "observed": obs, "tags": dict(tags, exc=obs["exc"])}
    if not obs["arg_ok"]:
        return {"expected": "the caller's argument is unchanged by the call", "observed": obs, "tags": dict(tags, what="argument modified")}
    if not (obs["twice"] <= 1e-12 and obs["ref"] <= 1e-9):
        return {"expected": "the same answer when called twice, equal to the answer for the plain float", "observed": obs, "tags": dict(tags, what="call twice")}
    return None


CLAUSES = [
    Clause("origin_corr", "corr", gen_origin, run_origin, judge_origin, lean=lean_origin, site="hyperbolic.Point.origin_to",
           budget={"quick": 120, "thorough": 3000},
           what="row 0 of Point.origin_to() vs Lean originToRow0 over Q (rational hyperboloid points, either sign/scale), image of the origin, form residual, det"),
    Clause("tv_corr", "corr", gen_tv, run_tv, judge_tv, lean=lean_tv, site="hyperbolic.TangentVector.origin_to",
           budget={"quick": 120, "thorough": 3000},
           what="rows 0,1 of TangentVector.origin_to() vs Lean tvOriginToRow0/1 over Q (rational frames from O(n,1)(Q)); base tangent -> positive multiple"),
    Clause("towards_corr", "corr", gen_towards, run_towards, judge_towards, lean=lean_towards, site="hyperbolic.Point.unit_tangent_towards",
           budget={"quick": 120, "thorough": 3000},
           what="unit_tangent_towards(q).vector and point_along(d(p,q)) vs the model, q's representative of either sign (D7)"),
    Clause("along_corr", "corr", gen_along, run_along, judge_along, lean=lean_along, site="hyperbolic.TangentVector.point_along",
           budget={"quick": 120, "thorough": 3000},
           what="point_along(t), hyp_to_affine_dist(t), cosh d for t = log u, u rational (both signs of t)"),
    Clause("angle_corr", "corr", gen_angle, run_angle, judge_angle, lean=lean_angle, site="hyperbolic.TangentVector.angle",
           budget={"quick": 100, "thorough": 2000}, what="cos(TangentVector.angle) vs Lean angleCos / angleCosPair (other tangent vector stored at another representative of the base point, either sheet) on rational frames, unnormalised and unprojected vectors"),
    Clause("poly_corr", "corr", gen_poly, run_poly, judge_poly, lean=lean_poly, site="hyperbolic.Polygon.regular_polygon",
           budget={"quick": 80, "thorough": 1500},
           what="regular_polygon vertices vs Lean polyVertex (exact on the float cos/sin/tanh), radius/angle closed forms, n = 3..12, dims 2-4"),
    Clause("origin_oracle", "oracle", gen_o_origin, run_o_origin, judge_o_origin, site="hyperbolic.Point.origin_to",
           budget={"quick": 150, "thorough": 5000}, what="origin -> point for float points (composite shapes, scaled representatives), isometry, orientation"),
    Clause("tangent_oracle", "oracle", gen_o_tangent, run_o_tangent, judge_o_tangent, site="hyperbolic.TangentVector.isometry_to",
           budget={"quick": 150, "thorough": 5000}, what="base tangent -> positive multiple; isometry_to carries basepoint and direction"),
    Clause("composite_tangent_oracle", "oracle", gen_o_comptv, run_o_comptv, judge_o_comptv, site="hyperbolic.TangentVector.origin_to",
           budget={"quick": 80, "thorough": 3000},
           what="stacks of tangent vectors of mixed kinds (both sheets, extreme scales; 2-6 members, exactly dim+1 members, rank-2 stacks): member i of "
                "origin_to / isometry_to / point_along(array) hits its own targets, is orientation preserving when forced, and in H^2 equals the single answer"),
    Clause("polygon_size_oracle", "oracle", gen_o_polysize, run_o_polysize, judge_o_polysize, site="hyperbolic.Polygon.regular_polygon",
           budget={"quick": 398, "thorough": 1990},
           what="regular_polygon for EVERY number of sides 3..400 (both request routes): vertex count, circumradius and side length (law of cosines, central angle 2 pi / n) on four vertices"),
    Clause("along_oracle", "oracle", gen_o_along, run_o_along, judge_o_along, site="hyperbolic.TangentVector.point_along",
           budget={"quick": 200, "thorough": 8000}, what="|t| along a unit tangent (both signs), on the geodesic, law of cosines, towards q reaches q"),
    Clause("surface_polygon_oracle", "oracle", gen_o_surface, run_o_surface, judge_o_surface, site="hyperbolic.Polygon.regular_surface_polygon",
           budget={"quick": 8, "thorough": 8}, what="regular_surface_polygon(g), g = 2..5: 4g vertices at radius genus_g_surface_radius(g), interior angles pi/(2g) summing to 2 pi"),
    Clause("argument_oracle", "oracle", gen_o_args, run_o_args, judge_o_args, site="hyperbolic.regular_polygon_radius",
           budget={"quick": 120, "thorough": 3000},
           what="every real argument (angle, radius, distance, parameter) as 0-d array, 0-d view, 1-d array, NumPy scalar, list: the argument is unchanged "
                "by the call, calling twice gives the same answer, equal to the plain-float answer; array arguments that become object data survive queries"),
    Clause("history_oracle", "oracle", gen_o_history, run_o_history, judge_o_history, site="hyperbolic.TangentVector.origin_to",
           budget={"quick": 150, "thorough": 5000},
           what="histories of 6-10 steps on one tangent vector / point: queries (origin_to, point_along, isometry_to, angle with unequal lengths, normalized) "
                "interleaved with transformations (iso @ tv, iso.apply) and set(); every query is judged against the object's current data"),
    Clause("polygon_oracle", "oracle", gen_o_poly, run_o_poly, judge_o_poly, site="hyperbolic.Polygon.regular_polygon",
           budget={"quick": 60, "thorough": 2000}, what="regular n-gon n=3..12: n vertices, equal radii, equal sides, interior angle, radius/angle inverse"),
]
