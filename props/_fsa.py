"""Shared helpers for C09 / C10: JSON views of an FSA, a tiny set-based reference automaton,
construction routes, history application and generators."""
import copy, collections, itertools, os, re, signal, time, contextlib
from geometry_tools.automata import fsa as FS
from geometry_tools.automata.fsa import FSA
from geometry_tools.automata import kbmag_utils

VS = [0, 1, 2, 3]
LS = ["a", "b", "c"]


# ------------------------------------------------------------------ observation of the real object
def views(A):
    """the three public views (properties graph_dict / out_dict / in_dict) and the start list, as lists of pairs"""
    return {
        "g": [[v, [[l, w] for l, w in d.items()]] for v, d in A.graph_dict.items()],
        "o": [[v, [[w, list(ls)] for w, ls in d.items()]] for v, d in A.out_dict.items()],
        "i": [[v, [[w, list(ls)] for w, ls in d.items()]] for v, d in A.in_dict.items()],
        "starts": list(A.start_vertices),
    }


def key(x):
    return (0, x) if isinstance(x, int) else (1, str(x))


def canon(vw):
    """order-free form of `views`: label lists are kept as sorted *multisets* so that a label
    listed twice stays visible; empty inner entries are kept (they matter to `recurrent`)"""
    g = sorted(((v, sorted(map(tuple, d), key=lambda e: (e[0], key(e[1])))) for v, d in vw["g"]), key=lambda r: key(r[0]))
    o = sorted(((v, sorted(((w, sorted(ls)) for w, ls in d), key=lambda e: key(e[0]))) for v, d in vw["o"]), key=lambda r: key(r[0]))
    i = sorted(((v, sorted(((w, sorted(ls)) for w, ls in d), key=lambda e: key(e[0]))) for v, d in vw["i"]), key=lambda r: key(r[0]))
    i = [r for r in i if r[1]]      # an empty incoming row and an absent one describe the same thing
    return {"g": [[v, [list(e) for e in d]] for v, d in g], "o": [[v, [[w, ls] for w, ls in d]] for v, d in o],
            "i": [[v, [[w, ls] for w, ls in d]] for v, d in i], "starts": vw["starts"]}


def edge_counts(vw):
    """(tail,label,head) multisets of the three views + vertex sets"""
    g = collections.Counter((v, l, w) for v, d in vw["g"] for l, w in d)
    o = collections.Counter((v, l, w) for v, d in vw["o"] for w, ls in d for l in ls)
    i = collections.Counter((v, l, w) for w, d in vw["i"] for v, ls in d for l in ls)
    return g, o, i


def coherence_problems(vw, ref=None):
    """the C09 predicate on one snapshot; returns a list of short problem names"""
    g, o, i = edge_counts(vw)
    pb = []
    if any(c > 1 for c in o.values()):
        pb.append("dup-out")
    if any(c > 1 for c in i.values()):
        pb.append("dup-in")
    if set(o) != set(g):
        pb.append("out!=label")
    if set(i) != set(g):
        pb.append("in!=label")
    kg, ko, ki = [r[0] for r in vw["g"]], [r[0] for r in vw["o"]], [r[0] for r in vw["i"]]
    if set(kg) != set(ko):
        pb.append("vertex-sets-differ")
    if not set(ki) <= set(ko):          # rows of vertices without incoming edges may be absent (created on demand)
        pb.append("in-view-has-foreign-vertex")
    ends = {e[0] for e in g} | {e[2] for e in g}
    if not ends <= set(ko):
        pb.append("edge-endpoint-not-a-vertex")
    for v, d in vw["g"]:
        for l, w in d:
            if isinstance(w, dict):
                pb.append("label-view-target-is-a-dict")
    if ref is not None:
        if set(ko) != ref.V:
            pb.append("vertex-set!=reference")
        if set(g) != ref.E:
            pb.append("edge-set!=reference")
    return pb


# ------------------------------------------------------------------ the plain set model
class Ref:
    """a vertex set and a set of (tail, label, head) triples; nothing else"""

    def __init__(self, V=(), E=()):
        self.V, self.E = set(V), set(E)

    def clone(self):
        return Ref(self.V, self.E)

    def step(self, v, l):
        for (t, ll, h) in self.E:
            if t == v and ll == l:
                return h
        return None

    def conflicts(self, t, l, h):
        w = self.step(t, l)
        return w is not None and w != h

    def apply(self, op):
        k = op["k"]
        if k == "addv":
            self.V |= set(op["vs"])
        elif k == "adde":
            for t, h, l in op["es"]:
                self.V |= {t, h}
                self.E.add((t, l, h))
        elif k == "addel":
            for t, h, ls in op["es"]:
                self.V |= {t, h}
                self.E |= {(t, l, h) for l in ls}
        elif k == "delv":
            self.delv(op["v"])
        elif k == "delvs":
            for v in op["vs"]:
                self.delv(v)
        elif k == "recurrent":
            self.recurrent()
        elif k == "rename":
            m = dict(map(tuple, op["m"]))
            self.E = {(t, m[l], h) for t, l, h in self.E}
        elif k in ("copy", "hasedge"):
            pass
        elif k == "conflict":
            self.V |= {op["e"][0], op["e"][1]}        # add_vertices([tail, head]) has run before the refusal
        else:
            raise ValueError(k)

    def delv(self, v):
        self.V.discard(v)
        self.E = {e for e in self.E if e[0] != v and e[2] != v}

    def recurrent(self):
        """greatest S with every vertex having an in-edge from S and an out-edge into S"""
        while True:
            bad = {v for v in self.V if not any(e[0] == v for e in self.E) or not any(e[2] == v for e in self.E)}
            if not bad:
                return
            for v in bad:
                self.delv(v)

    def valid(self, op):
        """the documented preconditions of the class for this operation in this state"""
        k = op["k"]
        if k in ("adde", "addel"):
            r = self.clone()
            for e in op["es"]:
                t, h, ls = e[0], e[1], (e[2] if k == "addel" else [e[2]])
                for l in ls:
                    if r.conflicts(t, l, h):
                        return False
                    r.V |= {t, h}
                    r.E.add((t, l, h))
            if not op.get("ir", True):
                # ignore_redundant=False is a request to list a label again: only fresh labels are valid here
                seen = set(self.E)
                for e in op["es"]:
                    t, h, ls = e[0], e[1], (e[2] if k == "addel" else [e[2]])
                    for l in ls:
                        if (t, l, h) in seen:
                            return False
                        seen.add((t, l, h))
            return True
        if k == "delv":
            return op["v"] in self.V
        if k == "delvs":
            return len(set(op["vs"])) == len(op["vs"]) and set(op["vs"]) <= self.V
        if k == "rename":
            m = dict(map(tuple, op["m"]))
            used = {l for _, l, _ in self.E}
            return used <= set(m) and len({m[l] for l in used}) == len(used)
        if k == "hasedge":
            return op["t"] in self.V          # read accessors: any pair whose tail is a vertex (KeyError otherwise)
        return True

    # ---- language
    def follow(self, v, w):
        for l in w:
            v = self.step(v, l)
            if v is None:
                return None
        return v

    def lang(self, v, n):
        """all (word, end) with |word| = n from v, words as tuples"""
        cur = [((), v)]
        for _ in range(n):
            cur = [(w + (l,), h) for (w, q) in cur for (t, l, h) in self.E if t == q]
        return cur


# ------------------------------------------------------------------ construction routes
def inv_gen(g):
    return g.upper() if g.lower() == g else g.lower()


# generating sets in every case pattern: words.invert_gen exchanges the two cases of a name, so an upper-case
# name is a generator like any other and its inverse is the lower-case name (G: every spelling of an input class)
FREE_SETS = [[], ["a"], ["A"], ["a", "b"], ["a", "B"], ["A", "B"], ["x", "Y"], ["ab"], ["AB"], ["ab", "C"], ["a", "A"],
             ["A", "a"], ["aB"], ["a", "b", "c"], ["A", "b", "C"], ["gen", "H"]]


def free_packs(gens):
    return ["list", "tuple", "iter", "gen", "view"] + (["str"] if gens and all(len(g) == 1 for g in gens) else [])


def rand_free_gens(rng):
    if rng.random() < 0.25:
        return list(rng.choice(FREE_SETS))
    # multi-character names share no letter with the other names: the enumerators join labels into one string, and the
    # language clauses need every such string to decode in one way only
    bases = rng.sample(["a", "b", "c", "x", "y", "pq", "gen"], rng.choice([1, 2, 2, 3]))
    style = rng.choice(["lower", "upper", "mixed", "mixed", "both"])
    gens = []
    for b in bases:
        if style == "lower":
            gens.append(b)
        elif style == "upper":
            gens.append(b.upper())
        elif style == "both":
            gens += [b, b.upper()] if rng.random() < 0.5 else [b.upper(), b]
        else:
            gens.append(rng.choice([b, b.upper(), b.upper(), b.capitalize() if len(b) > 1 and rng.random() < 0.3 else b.upper()]))
    return gens


def rand_free_init(rng):
    gens = rand_free_gens(rng)
    return {"route": "free", "gens": gens, "pack": rng.choice(free_packs(gens))}


def build(init):
    """the real automaton and the reference for a construction spec"""
    r = init["route"]
    if r == "graph":
        gd = {v: {l: w for l, w in d} for v, d in init["d"]}
        A = FSA(gd, start_vertices=list(init["starts"]))
        V = set(gd) | {w for d in gd.values() for w in d.values()}
        E = {(v, l, w) for v, d in gd.items() for l, w in d.items()}
    elif r == "out":
        od = {v: {w: list(ls) for w, ls in d} for v, d in init["d"]}
        A = FSA(od, start_vertices=list(init["starts"]), graph_dict=False)
        V = set(od)
        E = {(v, l, w) for v, d in od.items() for w, ls in d.items() for l in ls}
    elif r == "empty":
        A = FSA({}, start_vertices=list(init["starts"]))
        V, E = set(), set()
    elif r == "free":
        gens_arg = list(init["gens"])
        pk = init.get("pack", "list")
        gens_arg = {"list": gens_arg, "tuple": tuple(gens_arg), "iter": iter(gens_arg), "gen": (g for g in gens_arg),
                    "str": "".join(gens_arg), "view": dict.fromkeys(gens_arg).keys()}[pk]
        A = FS.free_automaton(gens_arg)
        gens = list(init["gens"]) + [inv_gen(g) for g in init["gens"]]
        V = {""} | set(gens)
        E = {(g, h, h) for g in V for h in gens if inv_gen(h) != g}
    elif r == "kbmag":
        d = kbmag_utils.build_dict(init["transitions"], init["labels"], to_filter=[0])
        A = FSA(d, start_vertices=list(init["initial"]))
        V = set(range(1, len(init["transitions"]) + 1))
        E = set()
        for i, row in enumerate(init["transitions"]):
            for l, t in zip(init["labels"], row):
                if t != 0:
                    E.add((i + 1, l, t))
                    V.add(t)
    else:
        raise ValueError(r)
    return A, Ref(V, E)


def apply_op(A, op):
    """apply one history operation to the real automaton; returns the automaton to continue with"""
    k = op["k"]
    if k == "addv":
        A.add_vertices(list(op["vs"]))
    elif k == "adde":
        A.add_edges([tuple(e) for e in op["es"]], elist=False, ignore_redundant=op.get("ir", True))
    elif k == "addel":
        A.add_edges([(e[0], e[1], list(e[2])) for e in op["es"]], elist=True, ignore_redundant=op.get("ir", True))
    elif k == "delv":
        A.delete_vertex(op["v"])
    elif k == "delvs":
        A.delete_vertices(list(op["vs"]))
    elif k == "recurrent":
        if op.get("inplace", True):
            A.recurrent(inplace=True)
        else:
            A = A.recurrent(inplace=False)          # G17: the history continues on the returned automaton
    elif k == "rename":
        if op.get("inplace", True):
            A.rename_generators(dict(map(tuple, op["m"])), inplace=True)
        else:
            A = A.rename_generators(dict(map(tuple, op["m"])), inplace=False)
    elif k == "copy":
        A = copy.deepcopy(A)
    elif k == "conflict":
        t, h, l = op["e"]
        try:
            A.add_edges([(t, h, [l] if op["elist"] else l)], elist=op["elist"], ignore_redundant=op["ir"])
        except FS.FSAException:
            return A
        raise AssertionError("add_edges accepted an edge contradicting an existing (tail, label)")
    elif k == "hasedge":
        q = op.get("q", "has_edge")
        if q == "has_edge":
            A.has_edge(op["t"], op["h"])
        elif q == "edge_labels":
            A.edge_labels(op["t"], op["h"]).append("_poke")
        else:
            try:
                A.edge_label(op["t"], op["h"])
            except ValueError:
                pass
    else:
        raise ValueError(k)
    return A


def exc_name(e):
    return type(e).__name__


# ------------------------------------------------------------------ generators
def rand_graph_dict(rng, vs, ls, pkey=0.8, pedge=0.5, hidden=True):
    gd = []
    pool = list(vs) + ([max(vs) + 1] if hidden and rng.random() < 0.3 else [])
    for v in vs:
        if rng.random() < pkey:
            gd.append([v, [[l, rng.choice(pool)] for l in ls if rng.random() < pedge]])
    return gd


def rand_starts(rng, vs):
    """usually one start vertex, sometimes none or several (possibly repeated)"""
    r = rng.random()
    if r < 0.7:
        return [vs[0]]
    if r < 0.78:
        return []
    return [rng.choice(vs) for _ in range(rng.choice([2, 2, 3]))]


ALPHABETS = {"default": ["a", "b", "c"], "permuted": ["c", "a", "b"], "multi": ["ab", "c", "ba"],
             "case": ["a", "A", "b"], "int": [0, 1, 2]}


def boundary_inits():
    """G14: the ends of every range — no vertex, one vertex, no start state, a start state without outgoing edges,
    an acyclic automaton (every k beyond its longest word), a root that does not reach everything"""
    return [
        {"route": "graph", "d": [], "starts": []},
        {"route": "empty", "starts": []},
        {"route": "graph", "d": [[0, []]], "starts": [0]},
        {"route": "graph", "d": [[0, []]], "starts": []},
        {"route": "graph", "d": [[0, [["a", 0]]]], "starts": [0]},
        {"route": "out", "d": [[0, []]], "starts": [0]},
        {"route": "graph", "d": [[0, [["a", 1]]], [1, [["a", 2]]]], "starts": [0]},                 # longest word has length 2
        {"route": "graph", "d": [[0, []], [1, [["a", 0], ["b", 1]]]], "starts": [0]},                # dead start state
        {"route": "graph", "d": [[0, [["a", 0]]], [1, [["a", 0]]], [2, []]], "starts": [0]},         # 1, 2 unreachable
        {"route": "graph", "d": [[0, [["a", 1], ["b", 1], ["c", 1]]]], "starts": [0, 1]},            # parallel edges, two starts
        {"route": "free", "gens": [], "pack": "list"},
        {"route": "free", "gens": ["A"], "pack": "list"},                                          # upper-case generator: inverse is 'a'
        {"route": "free", "gens": ["a", "B"], "pack": "str"},
        {"route": "kbmag", "labels": ["a"], "initial": [1], "transitions": [[1]]},
        {"route": "kbmag", "labels": ["a", "b"], "initial": [1], "transitions": [[0, 0]]},
    ]


def rand_init(rng, vs=None, ls=None, alphabet="default"):
    vs = vs or VS[:rng.choice([1, 2, 3, 3, 4])]
    if alphabet != "default" and ls is None:
        full = ALPHABETS[alphabet]
        init = None
        while init is None or init["route"] not in ("graph", "out", "empty"):
            init = rand_init(rng, vs, full[:rng.choice([1, 2, 2, 3])])
        init["ls"] = list(full)
        return init
    ls = ls or LS[:rng.choice([1, 2, 2, 3])]
    r = rng.random()
    if r < 0.45:
        gd = rand_graph_dict(rng, vs, ls)
        return {"route": "graph", "d": gd, "starts": rand_starts(rng, vs)}
    if r < 0.75:
        gd = rand_graph_dict(rng, vs, ls, pkey=1.0, hidden=False)
        od = []
        for v, d in gd:
            row = collections.OrderedDict()
            for l, w in d:
                row.setdefault(w, []).append(l)
            od.append([v, [[w, lab] for w, lab in row.items()]])
        rng.shuffle(od)
        return {"route": "out", "d": od, "starts": rand_starts(rng, vs)}
    if r < 0.82:
        return {"route": "empty", "starts": rand_starts(rng, vs)}
    if r < 0.9:
        return rand_free_init(rng)
    n = rng.choice([1, 2, 3, 4])
    labels = ls
    return {"route": "kbmag", "labels": labels, "initial": [1],
            "transitions": [[rng.choice([0, 0] + list(range(1, n + 1))) for _ in labels] for _ in range(n)]}


def universe(init):
    if "ls" in init:
        return VS, list(init["ls"])
    if init["route"] == "free":
        gens = list(dict.fromkeys(list(init["gens"]) + [inv_gen(g) for g in init["gens"]]))     # a name may be listed in both cases
        return [""] + gens + ["z"], gens or ["a"]
    if init["route"] == "kbmag":
        n = len(init["transitions"])
        return list(range(0, n + 2)), list(init["labels"]) + ["z"]
    return VS, LS


def rand_op(rng, ref, vs, ls, p_invalid=0.0, fresh=True):
    """one mostly-valid operation for the current reference state"""
    for _ in range(50):
        k = rng.choice(["addv", "adde", "adde", "adde", "addel", "addel", "delv", "delvs", "recurrent", "rename", "copy", "hasedge"])
        if k == "addv":
            op = {"k": k, "vs": [rng.choice(vs) for _ in range(rng.choice([1, 1, 2, 3]))]}
        elif k == "adde":
            op = {"k": k, "es": [[rng.choice(vs), rng.choice(vs), rng.choice(ls)] for _ in range(rng.choice([1, 1, 2, 3]))],
                  "ir": rng.random() < 0.85}
        elif k == "addel":
            op = {"k": k, "es": [[rng.choice(vs), rng.choice(vs), [rng.choice(ls) for _ in range(rng.choice([0, 1, 2, 2, 3]))]]
                                 for _ in range(rng.choice([1, 1, 2]))], "ir": rng.random() < 0.85}
        elif k == "delv":
            op = {"k": k, "v": rng.choice(sorted(ref.V, key=key) or vs)}
        elif k == "delvs":
            pool = sorted(ref.V, key=key)
            op = {"k": k, "vs": rng.sample(pool, min(len(pool), rng.choice([0, 1, 2])))}
        elif k == "rename":
            perm = ls[:]
            rng.shuffle(perm)
            tgt = perm if (rng.random() < 0.6 or not fresh or not all(isinstance(l, str) for l in ls)) else [l + "x" for l in ls]
            op = {"k": k, "m": [[a, b] for a, b in zip(ls, tgt)]}
        elif k == "hasedge":
            es = sorted(ref.E, key=repr)
            if es and rng.random() < 0.7:
                e = rng.choice(es)
                op = {"k": k, "t": e[0], "h": e[2]}
            else:
                op = {"k": k, "t": rng.choice(vs), "h": rng.choice(vs)}
            op["q"] = rng.choice(["has_edge", "edge_labels", "edge_label"])
        else:
            op = {"k": k}
        if op["k"] in ("recurrent", "rename") and rng.random() < 0.35:
            op["inplace"] = False
        if ref.valid(op):
            return op, True
        if rng.random() < p_invalid:
            return op, False
    return {"k": "copy"}, True


def rand_history(rng, maxlen=40, p_invalid=0.0, fresh=True, alphabets=("default",), conflicts=False, boundary=0.06):
    if rng.random() < boundary:
        init = copy.deepcopy(rng.choice(boundary_inits()))
    else:
        init = rand_init(rng, alphabet=rng.choice(list(alphabets)))
    vs, ls = universe(init)
    _, ref = build(init)
    ops = []
    for _ in range(rng.randint(1, maxlen)):
        if conflicts and ref.E and rng.random() < 0.12:
            # an edge that contradicts an existing (tail, label): must be refused, the automaton stays coherent
            t, l, h = rng.choice(sorted(ref.E, key=repr))
            others = [v for v in vs if v != h]
            if others:
                op = {"k": "conflict", "e": [t, rng.choice(others), l], "elist": rng.random() < 0.5, "ir": rng.random() < 0.7}
                ops.append(op)
                ref.apply(op)
                continue
        if conflicts and ref.E and rng.random() < 0.08:
            # the borderline on the valid side: re-adding an edge that is already there is NOT a contradiction
            t, l, h = rng.choice(sorted(ref.E, key=repr))
            if rng.random() < 0.5:
                ops.append({"k": "addel", "es": [[t, h, [l, l]]], "ir": True})
            else:
                ops.append({"k": "adde", "es": [[t, h, l], [t, h, l]], "ir": True})
            continue
        op, ok = rand_op(rng, ref, vs, ls, p_invalid, fresh)
        ops.append(op)
        if not ok:
            break
        ref.apply(op)
        if op["k"] == "rename":
            m = dict(map(tuple, op["m"]))
            ls = list(dict.fromkeys(m.get(l, l) for l in ls))     # a dict has no repeated keys
    return {"init": init, "ops": ops}


def small_ops(vs, ls):
    """the operation alphabet of the bounded-exhaustive histories"""
    ops = [{"k": "addv", "vs": [v]} for v in vs]
    ops += [{"k": "adde", "es": [[t, h, l]], "ir": True} for t in vs for h in vs for l in ls]
    ops += [{"k": "addel", "es": [[t, h, list(ls)]], "ir": True} for t in vs for h in vs]
    ops += [{"k": "addel", "es": [[t, h, []]], "ir": True} for t in vs[:2] for h in vs[:2]]
    ops += [{"k": "delv", "v": v} for v in vs]
    ops += [{"k": "recurrent"}, {"k": "copy"}]
    ops += [{"k": "hasedge", "t": t, "h": h} for t in vs for h in vs]
    ops += [{"k": "rename", "m": [[a, b] for a, b in zip(ls, ls[::-1])]}]
    return ops


def exhaustive_histories(depth, vs=(0, 1, 2), ls=("a", "b"), inits=None, limit=None):
    """every history of exactly `depth` valid operations (validity judged by the reference)"""
    vs, ls = list(vs), list(ls)
    inits = inits or [{"route": "graph", "d": [[0, [["a", 1]]], [1, [["b", 1]]]], "starts": [0]},
                      {"route": "out", "d": [[0, [[1, ["a", "b"]]]], [1, [[0, ["a"]]]], [2, []]], "starts": [0]}]
    alpha = small_ops(vs, ls)
    n = 0
    for init in inits:
        _, ref0 = build(init)

        def rec(ref, ops, d):
            nonlocal n
            if d == 0:
                n += 1
                yield {"init": init, "ops": list(ops)}
                return
            for op in alpha:
                if limit is not None and n >= limit:
                    return
                if not ref.valid(op):
                    continue
                r2 = ref.clone()
                r2.apply(op)
                ops.append(op)
                yield from rec(r2, ops, d - 1)
                ops.pop()
        yield from rec(ref0, [], depth)


# ------------------------------------------------------------------ built-in files
def builtin_names():
    return sorted(FS.list_builtins())


def builtin_text(name):
    import importlib.resources
    from geometry_tools import automata
    return (importlib.resources.files(automata) / "builtin" / name).read_text()


def table_of_text(text):
    """independent reading of a kbmag FSA record (harness-side, regex based): returns
    (labels, transitions, initial).  Only the three fields the loader uses."""
    flat = re.sub(r"\s+", "", text)
    names = re.search(r"names:=\[([^\]]*)\]", flat).group(1)
    labels = [x.strip('"') for x in names.split(",") if x]
    m = re.search(r"transitions:=\[(.*?)\]\]", flat)
    body = m.group(1) + "]"
    rows = re.findall(r"\[([^\]]*)\]", body)
    transitions = []
    for r in rows:
        iv = re.fullmatch(r"(-?\d+)\.\.(-?\d+)", r)
        if iv and int(iv.group(1)) <= int(iv.group(2)):
            transitions.append(list(range(int(iv.group(1)), int(iv.group(2)) + 1)))
        else:
            transitions.append([int(x) for x in r.split(",") if x])
    ini = re.search(r"initial:=\[([^\]]*)\]", flat).group(1)
    iv = re.fullmatch(r"(-?\d+)\.\.(-?\d+)", ini)
    initial = list(range(int(iv.group(1)), int(iv.group(2)) + 1)) if iv else [int(x) for x in ini.split(",") if x]
    return labels, transitions, initial


# ------------------------------------------------------------------ bounded calls
class CallTimeout(Exception):
    pass


@contextlib.contextmanager
def time_limit(sec):
    """bound one call of the implementation (automaton_multiple's queue loop can be exponential); the
    runner's own SIGALRM deadline is suspended and re-armed with the time that was left"""
    old = signal.getsignal(signal.SIGALRM)
    left = signal.setitimer(signal.ITIMER_REAL, 0)[0]      # the runner's deadline (alarm and itimer share one timer)
    t0 = time.time()

    ctx = {"fired": False}

    def h(signum, frame):
        ctx["fired"] = True
        if os.environ.get("FSA_DEBUG_TL"):
            import sys as _s
            print("TL fired", sec, file=_s.stderr, flush=True)
        raise CallTimeout("call did not return within %s s" % sec)
    signal.signal(signal.SIGALRM, h)
    # fires at `sec` and then again every half second until the block is left: a handler somewhere below that
    # swallows the exception cannot neutralise the limit
    signal.setitimer(signal.ITIMER_REAL, sec, 0.5)
    try:
        yield ctx
    finally:
        signal.setitimer(signal.ITIMER_REAL, 0)
        signal.signal(signal.SIGALRM, old)
        if left:
            signal.setitimer(signal.ITIMER_REAL, max(0.01, left - (time.time() - t0)), 0.5)


def canon_dict(d):
    """order-free form of a caller dictionary in JSON form (inner values: target or label list)"""
    return sorted(((repr(v), sorted((repr(a), repr(sorted(b)) if isinstance(b, list) else repr(b)) for a, b in row)) for v, row in d))


_TIMEOUTS = {}


def bounded(run, sec=20):
    """a `run` function whose every evaluation is bounded in time: an implementation that stops terminating on a
    generated input (a leaked cache, a shared table growing across automata) is reported as a failing input of that
    clause instead of stalling the whole check; after three such inputs the remaining ones of the clause are not run"""
    name = getattr(run, "__name__", "run")

    def wrapped(inp):
        if _TIMEOUTS.get(name, 0) >= 3:
            raise CallTimeout("not run: three earlier inputs of this clause did not return within %s s" % sec)
        try:
            with time_limit(sec) as ctx:
                r = run(inp)
            if ctx["fired"]:        # the limit was hit but the exception was absorbed further down
                raise CallTimeout("evaluation exceeded %s s" % sec)
            return r
        except CallTimeout:
            _TIMEOUTS[name] = _TIMEOUTS.get(name, 0) + 1
            raise
    wrapped.__name__ = name
    return wrapped


class TooMany(Exception):
    pass


def capped(it, cap=100000):
    """an enumeration of the implementation, cut off far above anything the generated automata can produce (an
    implementation whose enumerations explode — e.g. tables leaking between automata — must not exhaust memory)"""
    n = 0
    for x in it:
        n += 1
        if n > cap:
            raise TooMany("more than %d items enumerated" % cap)
        yield x
