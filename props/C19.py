"""C19 — what is drawn is the object: paths pass through the vertices along geodesics (DESIGN §4 C19).

LEVEL "other": the theorems are about the library's path assembly (GT.Model.DrawPath); matplotlib's
own behaviour (Path.arc, Arc, PathPatch, collections, transforms) is observed at run time only.
"""
import math
from fractions import Fraction as F
import numpy as np
import matplotlib
matplotlib.use("Agg")
import matplotlib.pyplot as plt
from vlib.runner import Clause
from vlib import q as Q
from vlib.canon import close, err, finite
from geometry_tools import hyperbolic as H, projective as P, drawtools as D, GeometryError
from geometry_tools.hyperbolic import Model

LEVEL = "other"
EXPLANATION = (
    "Lean theorems about the path assembly of get_polygon_arcpath (reversal heuristic, MOVETO->LINETO rewrite, radius-threshold "
    "switch, vertical-segment substitution): if every piece starts and ends at its edge's endpoints (either order) and the "
    "endpoints are farther apart than the threshold, the assembled path has exactly one MOVETO, starts at v0, is the "
    "concatenation of one segment per edge from that edge's first to its second endpoint, and returns to v0; wrong dimension is "
    "rejected.  matplotlib's Path.arc output is an input of the model.  Run time: the real drawing classes with the Agg backend; "
    "the assembled path is compared exactly with the model fed with the drawing's own pieces; oracle: every sampled point of the "
    "Bezier path lies on the hyperbolic edge (independent reference circle) inside the model's region, vertices in order, closed, "
    "one MOVETO; Arc patches have the geodesic's centre/radius/extent; points, Klein and projective polygons sit at their model "
    "coordinates after the drawing's transform; horocycles; wrong dimension rejected.")
ASSUMPTIONS = [
    "matplotlib's Path.arc / Affine2D / Arc / PathPatch / collections render the data they are given (observed, not proved)",
    "tolerance 1e-4*(1+r) for circle points (ideal endpoints lose half their digits), straight-segment approximation bounded by the sagitta L^2/(8 r) + |dx| for pieces above RADIUS_THRESHOLD",
    "vertices in the ball of Klein radius <= 0.9 after the drawing transform",
]
TAU = D.DISTANCE_THRESHOLD
RTHR = D.RADIUS_THRESHOLD
MODELS = ["poincare", "halfspace", "klein"]


# ------------------------------------------------------------------------------------------------
# independent reference geometry
# ------------------------------------------------------------------------------------------------
def klein_to(model, k):
    k = np.asarray(k, float)
    if model == "klein":
        return k
    n = (k * k).sum(-1, keepdims=True)
    p = k / (1 + np.sqrt(np.abs(1 - n)))
    if model == "poincare":
        return p
    # half-plane: the library's Cayley transform (poincare_to_halfspace): first coordinate is the "height" axis
    y, x = p[..., 0], p[..., 1]
    den = x * x + (y - 1) ** 2
    return np.stack([-2 * x / den, (1 - x * x - y * y) / den], -1)


def apply_T(T, proj):
    """row vectors times row matrix (Isometry.proj_data)"""
    return np.asarray(proj, float) @ np.asarray(T, float)


def ref_geodesic(model, a, b):
    """(centre, radius) of the circle carrying the geodesic through model points a, b; None if straight"""
    a, b = np.asarray(a, float), np.asarray(b, float)
    if model == "poincare":
        A = np.array([2 * a, 2 * b])
        rhs = np.array([a @ a + 1, b @ b + 1])
        det = np.linalg.det(A)
        if abs(det) < 1e-12:
            return None
        c = np.linalg.solve(A, rhs)
        r2 = c @ c - 1
        return c, math.sqrt(max(r2, 0.0))
    if model == "halfspace":
        if abs(b[0] - a[0]) < 1e-12:
            return None
        x0 = (b @ b - a @ a) / (2 * (b[0] - a[0]))
        return np.array([x0, 0.0]), math.hypot(a[0] - x0, a[1])


def in_region(model, p, tol):
    if model == "poincare":
        return p @ p <= (1 + tol) ** 2
    return p[1] >= -tol


def bezier_samples(verts, codes, n=6):
    """[(vertex index of the segment's last control point, point)] along the path's curves"""
    out = []
    i = 0
    ts = np.linspace(0, 1, n)
    while i < len(codes):
        c = codes[i]
        if c == 1:
            out.append((i, verts[i]))
            i += 1
        elif c == 2:
            for t in ts:
                out.append((i, (1 - t) * verts[i - 1] + t * verts[i]))
            i += 1
        elif c == 4:
            p0, p1, p2, p3 = verts[i - 1], verts[i], verts[i + 1], verts[i + 2]
            for t in ts:
                out.append((i + 2, (1 - t) ** 3 * p0 + 3 * (1 - t) ** 2 * t * p1 + 3 * (1 - t) * t * t * p2 + t ** 3 * p3))
            i += 3
        else:
            raise ValueError("unexpected path code %r" % c)
    return out


# ------------------------------------------------------------------------------------------------
# generators
# ------------------------------------------------------------------------------------------------
def rand_iso(rng):
    ang, b, ang2 = rng.uniform(-3, 3), rng.uniform(0.5, 2.0), rng.uniform(-3, 3)
    return [ang, b, ang2]


def iso_matrix(par):
    if par is None:
        return None
    R1 = H.Isometry.standard_rotation(par[0])
    L = H.Isometry.standard_loxodromic(2, par[1])
    R2 = H.Isometry.standard_rotation(par[2])
    return R1 @ L @ R2


def ball_pt(rng, rmax=0.9):
    t, r = rng.uniform(0, 2 * math.pi), rmax * math.sqrt(rng.random())
    return [r * math.cos(t), r * math.sin(t)]


def gen_poly(rng, n):
    for i in range(n):
        nv = rng.choice([3, 4, 5, 6, 7, 8])
        kind = rng.choice(["random", "random", "convex", "through_origin", "nearly_straight", "ideal", "lattice", "window"])
        if kind == "window":
            # explicit axis limits (wider / shifted windows) with the vertices spread over the visible half-plane window,
            # among them nearly vertical edges (straight pieces) anywhere in the window
            xlim = rng.choice([[-12.0, 12.0], [3.0, 15.0], [-20.0, -5.0], [-6.0, 6.0], [-2.0, 9.0]])
            ylim = rng.choice([[-0.1, 8.0], [-0.1, 14.0], [-0.1, 4.0]])
            hs = [[rng.uniform(xlim[0] + 0.5, xlim[1] - 0.5), rng.uniform(0.3, ylim[1] - 0.5)] for _ in range(nv)]
            j = rng.randrange(nv)
            hs[(j + 1) % nv] = [hs[j][0] + rng.choice([1e-3, 1e-4, 1e-6, 0.0]) * rng.choice([-1, 1]), rng.uniform(0.3, ylim[1] - 0.5)]
            yield {"verts": [[0.0, 0.0]] * nv, "hs_verts": hs, "model": "halfspace", "kind": kind, "transform": None, "xlim": xlim, "ylim": ylim}
            continue
        if kind == "convex":
            ts = sorted(rng.uniform(0, 2 * math.pi) for _ in range(nv))
            r = rng.uniform(0.2, 0.9)
            vs = [[r * math.cos(t) * rng.uniform(0.7, 1), r * math.sin(t) * rng.uniform(0.7, 1)] for t in ts]
        else:
            vs = [ball_pt(rng) for _ in range(nv)]
            if kind in ("through_origin", "nearly_straight"):
                v = ball_pt(rng, 0.8)
                while math.hypot(*v) < 0.2:
                    v = ball_pt(rng, 0.8)
                lam = rng.uniform(0.3, 1.0)
                w = [-lam * v[0], -lam * v[1]]
                if kind == "nearly_straight":
                    eps = rng.choice([1e-3, 3e-3, 1e-2, 1e-5]) * rng.choice([-1, 1])
                    nv_ = math.hypot(*v)
                    w = [w[0] - eps * v[1] / nv_, w[1] + eps * v[0] / nv_]
                j = rng.randrange(nv)
                vs[j], vs[(j + 1) % nv] = v, w
        if kind == "lattice":
            # natural measure-zero loci: a vertex at the origin, edges ending at / through the origin, horizontal, vertical and
            # symmetric edges (coordinates from a small exact grid)
            pts = [[0.0, 0.0], [0.5, 0.0], [0.0, 0.5], [-0.5, 0.0], [0.0, -0.5], [0.5, 0.4], [0.5, -0.4], [-0.5, 0.4], [-0.5, -0.4],
                   [0.25, 0.25], [-0.25, 0.25], [0.25, -0.25], [0.75, 0.0], [0.0, 0.75], [0.5, 0.5], [-0.5, 0.5]]
            vs = rng.sample(pts, nv)
        if kind == "ideal":
            # ideal vertices (on the unit circle), among them possibly the half-plane's point at infinity (1, 0)
            ts = sorted(rng.uniform(0.5, 2 * math.pi - 0.5) for _ in range(nv))      # on-screen in the half-plane window
            vs = [[math.cos(t), math.sin(t)] if rng.random() < 0.6 else [0.8 * math.cos(t), 0.8 * math.sin(t)] for t in ts]
            if rng.random() < 0.7:
                vs[rng.randrange(nv)] = [1.0, 0.0]
        # the transform is the identity for the special kinds (so that the special edge stays special in the drawing)
        tr = rand_iso(rng) if (kind in ("random", "convex") and rng.random() < 0.5) else None
        model = rng.choice(["poincare", "poincare", "halfspace"]) if kind != "ideal" else rng.choice(["halfspace", "halfspace", "poincare"])
        out_ = {"verts": vs, "model": model, "kind": kind, "transform": tr}
        if rng.random() < 0.3:
            # non-default axis limits
            out_["xlim"], out_["ylim"] = ([-1.5, 1.5], [-1.2, 1.2]) if model == "poincare" else (rng.choice([[-9.0, 9.0], [-4.0, 7.0]]), rng.choice([[-0.1, 8.0], [-0.1, 11.0]]))
        yield out_


def make_poly(inp):
    if inp.get("hs_verts") is not None:
        return H.Polygon(H.Point(np.array(inp["hs_verts"]), model="halfspace"))
    return H.Polygon(H.Point(np.array(inp["verts"]), model="klein"))


def drawing(model, tr, xlim=None, ylim=None):
    T = iso_matrix(tr)
    kw = {}
    if xlim is not None:
        kw["xlim"] = tuple(xlim)
    if ylim is not None:
        kw["ylim"] = tuple(ylim)
    return D.HyperbolicDrawing(model=model, transform=T, **kw), (np.eye(3) if T is None else np.asarray(T.proj_data, float))


# ------------------------------------------------------------------------------------------------
# S2: the assembled path vs the model fed with the drawing's own pieces
# ------------------------------------------------------------------------------------------------
def run_assemble(inp):
    d, Tm = drawing(inp["model"], inp["transform"], inp.get("xlim"), inp.get("ylim"))
    try:
        if not all(hasattr(d, m_) for m_ in ("get_circle_arcpath", "get_straight_arcpath", "get_polygon_arcpath", "preprocess_object")):
            return {"skip": "the per-edge helpers of the drawing class are not available"}       # not part of the public contract
        poly = d.preprocess_object(make_poly(inp))[0]
        segs = poly.get_edges()
        centers, radii, thetas = segs.circle_parameters(model=d.model)
        pieces, kinds = [], []
        for center, radius, theta, seg in zip(centers, radii, thetas, segs):
            arc = (not np.isnan(radius)) and radius < RTHR
            g = d.get_circle_arcpath(center, radius, theta) if arc else d.get_straight_arcpath(seg)
            p1, p2 = seg.get_end_pair(as_points=True)
            pieces.append({"verts": np.asarray(g.vertices, float).tolist(), "codes": [int(c) for c in g.codes],
                           "p1": np.asarray(p1.coords(d.model), float).tolist(), "p2": np.asarray(p2.coords(d.model), float).tolist()})
            kinds.append({"radius": None if np.isnan(radius) else float(radius), "arc": bool(arc), "n": len(g.vertices)})
        path = d.get_polygon_arcpath(poly)
        return {"pieces": pieces, "kinds": kinds, "verts": np.asarray(path.vertices, float).tolist(), "codes": [int(c) for c in path.codes]}
    finally:
        plt.close(d.fig)


def _qpt(p):
    return [Q.qs(p[0]), Q.qs(p[1])]


def _has_nan(obs):
    return not finite(np.array([v for pc in obs["pieces"] for v in pc["verts"] + [pc["p1"], pc["p2"]]], float))


def lean_assemble(inp, obs):
    if "exc" in obs or "skip" in obs or _has_nan(obs):
        return []        # a vertex at the half-plane's point at infinity has NaN coordinates: not representable exactly
    pcs = [{"verts": [_qpt(v) for v in pc["verts"]], "codes": pc["codes"], "p1": _qpt(pc["p1"]), "p2": _qpt(pc["p2"])} for pc in obs["pieces"]]
    ops = [{"op": "c19.assemble", "tau2": Q.qs(F(TAU) * F(TAU)), "pieces": pcs}]
    for pc, k in zip(obs["pieces"], obs["kinds"]):
        ops.append({"op": "c19.edge_kind", "thr": Q.qs(RTHR), "radius": None if k["radius"] is None else Q.qs(k["radius"]),
                    "p1": _qpt(pc["p1"]), "p2": _qpt(pc["p2"])})
    return ops


def geometric_path(verts, codes, tau=TAU):
    """the path as a sequence of drawn pieces: ('L', p0, p1) / ('C', p0, c1, c2, p3); corner joins shorter than the
    library's own distance threshold (zero-length LINETOs, or none at all) are not part of the geometry"""
    verts = np.asarray(verts, float)
    segs, i, cur = [], 0, None
    while i < len(codes):
        c = codes[i]
        if c == 1:
            cur = verts[i]; i += 1
        elif c == 2:
            if np.linalg.norm(verts[i] - cur) > tau:
                segs.append(("L", cur, verts[i]))
            cur = verts[i]; i += 1
        elif c == 4:
            segs.append(("C", cur, verts[i], verts[i + 1], verts[i + 2]))
            cur = verts[i + 2]; i += 3
        else:
            raise ValueError("unexpected path code %r" % c)
    return segs


def same_geometry(a, b, tau=TAU):
    if len(a) != len(b):
        return False
    for x, y in zip(a, b):
        if x[0] != y[0] or len(x) != len(y):
            return False
        # a piece may start at the end of the previous piece or at its own first vertex (they agree within the threshold)
        if np.linalg.norm(x[1] - y[1]) > tau:
            return False
        for u, v in zip(x[2:], y[2:]):
            if np.linalg.norm(u - v) > 1e-9 * (1 + np.linalg.norm(v)):
                return False
    return True


def judge_assemble(inp, obs, lr):
    if "exc" in obs:
        return {"expected": "polygon path", "observed": obs, "tags": {"exc": obs["exc"], "model": inp["model"]}, "property_failure": True}
    if "skip" in obs or _has_nan(obs):
        return None
    r = lr[0]
    if "err" in r:
        return {"expected": "model answer", "observed": r, "tags": {"driver_err": r["err"]}}
    mv = [[float(F(x)) for x in v] for v in r["ok"]["verts"]]
    # compared as GEOMETRY (the drawn pieces in order), not as raw vertex / code arrays: zero-length corner joins are free
    if obs["codes"].count(1) != 1 or obs["codes"][0] != 1 or \
            not same_geometry(geometric_path(mv, r["ok"]["codes"]), geometric_path(obs["verts"], obs["codes"])):
        return {"expected": {"codes": r["ok"]["codes"], "nverts": len(mv)}, "observed": {"codes": obs["codes"], "nverts": len(obs["verts"])},
                "tags": {"what": "assembled path", "model": inp["model"], "kind": inp["kind"]}}
    for res, k in zip(lr[1:], obs["kinds"]):
        if res.get("ok") != ("arc" if k["arc"] else "straight"):
            return {"expected": res, "observed": k, "tags": {"what": "radius threshold switch"}}
    return None


# ------------------------------------------------------------------------------------------------
# S3a: the drawn polygon is the polygon
# ------------------------------------------------------------------------------------------------
def run_poly(inp):
    d, Tm = drawing(inp["model"], inp["transform"], inp.get("xlim"), inp.get("ylim"))
    try:
        npatch = len(d.ax.patches)
        d.draw_polygon(make_poly(inp), facecolor="lightgreen")
        if len(d.ax.patches) != npatch + 1:
            return {"error": "expected one PathPatch, got %d" % (len(d.ax.patches) - npatch)}
        path = d.ax.patches[-1].get_path()
        return {"verts": np.asarray(path.vertices, float).tolist(), "codes": [int(c) for c in path.codes],
                "kind": type(d.ax.patches[-1]).__name__}
    finally:
        plt.close(d.fig)


def judge_poly(inp, obs, lr):
    tags = {"model": inp["model"], "kind": inp["kind"], "nv": len(inp["verts"])}
    if "exc" in obs or "error" in obs:
        return {"expected": "a PathPatch", "observed": obs, "tags": dict(tags, exc=obs.get("exc", "count"))}
    model = inp["model"]
    T = iso_matrix(inp["transform"])
    Tm = np.eye(3) if T is None else np.asarray(T.proj_data, float)
    proj = apply_T(Tm, np.concatenate([np.ones((len(inp["verts"]), 1)), np.array(inp["verts"])], -1))
    V = klein_to(model, proj[:, 1:] / proj[:, :1]) if inp.get("hs_verts") is None else np.array(inp["hs_verts"], float)
    verts, codes = np.array(obs["verts"]), obs["codes"]
    k = len(V)
    at_inf = [i for i in range(k) if not finite(V[i]) or (model == "halfspace" and abs(V[i][0]) > 1e6)]
    if at_inf:
        return judge_poly_at_infinity(inp, obs, V, at_inf, tags)
    if codes.count(1) != 1 or codes[0] != 1:
        return {"expected": "exactly one MOVETO, first", "observed": codes[:20], "tags": dict(tags, what="moveto")}
    if any(c not in (1, 2, 4) for c in codes):
        return {"expected": "codes MOVETO/LINETO/CURVE4", "observed": sorted(set(codes)), "tags": dict(tags, what="codes")}
    # straight pieces and their allowed deviation
    edges = []
    for i in range(k):
        a, b = V[i], V[(i + 1) % k]
        g = ref_geodesic(model, a, b)
        L = float(np.linalg.norm(a - b))
        if g is None or g[1] >= RTHR * (1 - 1e-9):
            sag = 0.0 if g is None else L * L / (8 * g[1]) * 1.05
            dev = sag + (abs(a[0] - b[0]) if model == "halfspace" else 0.0) + 1e-6
            edges.append(("straight", a, b, None, dev))
        else:
            edges.append(("arc", a, b, g, 1e-4 * (1 + g[1])))
    # vertices visited in order: v0 first, each next vertex at a later index, back to v0 at the end
    idx = 0
    for i in range(k + 1):
        tol = 1e-6 + max(edges[(i - 1) % k][4], edges[i % k][4])
        target = V[i % k]
        found = None
        for j in range(idx, len(verts)):
            if np.linalg.norm(verts[j] - target) <= tol:
                found = j
                break
        if found is None:
            return {"expected": "path visits vertex %d %s (in order)" % (i % k, target.tolist()), "observed": "not found after index %d" % idx,
                    "tags": dict(tags, what="order" if i < k else "closed")}
        idx = found
    if np.linalg.norm(verts[0] - V[0]) > 1e-6 + max(edges[0][4], edges[-1][4]):
        return {"expected": "starts at v0", "observed": verts[0].tolist(), "tags": dict(tags, what="start")}
    # every sampled point lies on one of the hyperbolic edges, inside the region, and the path moves along the edges in order
    samples = bezier_samples(verts, codes)
    # monotone assignment of samples to edges 0..k-1 (each sample on its edge, the edge index never decreases, steps of at most 1)
    feas = {0}
    for n_, (vi, p) in enumerate(samples):
        if not (finite(p) and in_region(model, p, 1e-6)):
            return {"expected": "path inside the model's region", "observed": p.tolist(), "tags": dict(tags, what="region")}
        cand = feas | {e + 1 for e in feas if e + 1 < k}
        feas = {e for e in cand if on_edge(model, p, *edges[e])}
        if n_ == 0:
            feas &= {0}
        if not feas:
            return {"expected": "every path point on the current or next hyperbolic edge", "observed": {"point": p.tolist(), "sample": n_},
                    "tags": dict(tags, what="on_edge")}
    if k - 1 not in feas:
        return {"expected": "the path runs along all %d edges in order" % k, "observed": "ends on edges %s" % sorted(feas), "tags": dict(tags, what="edges")}
    return None


def judge_poly_at_infinity(inp, obs, V, at_inf, tags):
    """half-plane polygon with a vertex at the point at infinity: edges to it are vertical rays; the path may only leave the
    edges off-screen (above the visible window)"""
    model = "halfspace"
    tags = dict(tags, at_infinity=True)
    verts, codes = np.array(obs["verts"]), obs["codes"]
    k = len(V)
    top = D.default_model_limits(Model.HALFSPACE)[1][1] if inp.get("ylim") is None else inp["ylim"][1]
    if codes.count(1) != 1 or codes[0] != 1:
        return {"expected": "exactly one MOVETO, first", "observed": codes[:20], "tags": dict(tags, what="moveto")}
    if not finite(verts):
        return {"expected": "finite path vertices", "observed": "nan/inf", "tags": dict(tags, what="nan")}
    edges, rays = [], []
    for i in range(k):
        a, b = V[i], V[(i + 1) % k]
        ia, ib = i in at_inf, (i + 1) % k in at_inf
        if ia and ib:
            continue
        if ia or ib:
            rays.append(b if ia else a)
            continue
        g = ref_geodesic(model, a, b)
        L = float(np.linalg.norm(a - b))
        if g is None or g[1] >= RTHR * (1 - 1e-9):
            edges.append(("straight", a, b, None, (0.0 if g is None else L * L / (8 * g[1]) * 1.05) + abs(a[0] - b[0]) + 1e-6))
        else:
            edges.append(("arc", a, b, g, 1e-4 * (1 + g[1])))
    for vi, p in bezier_samples(verts, codes):
        if p[1] >= top - 1e-9:
            continue                                    # off-screen
        if p[1] < -1e-6:
            return {"expected": "path inside the half-plane", "observed": p.tolist(), "tags": dict(tags, what="region")}
        if any(on_edge(model, p, *e) for e in edges):
            continue
        if any(abs(p[0] - r[0]) <= 1e-6 * (1 + abs(r[0])) and p[1] >= r[1] - 1e-6 for r in rays):
            continue
        return {"expected": "visible path points on an edge or on the vertical ray of an edge to infinity", "observed": p.tolist(),
                "tags": dict(tags, what="on_edge")}
    # every finite vertex is visited, in cyclic order
    fin = [i for i in range(k) if i not in at_inf]
    hits = []
    for i in fin:
        d = np.linalg.norm(verts - V[i], axis=1)
        j = int(np.argmin(d))
        if d[j] > 1e-4 * (1 + np.linalg.norm(V[i])):
            return {"expected": "path visits vertex %d" % i, "observed": float(d[j]), "tags": dict(tags, what="order")}
        hits.append(j)
    rot = hits.index(min(hits))
    seq = hits[rot:] + hits[:rot]
    if any(seq[t] > seq[t + 1] for t in range(len(seq) - 1)):
        return {"expected": "finite vertices visited in cyclic order", "observed": hits, "tags": dict(tags, what="order")}
    return None


def on_edge(model, p, kind, a, b, g, tol):
    if kind == "straight":
        ab = b - a
        L2 = ab @ ab
        t = 0.0 if L2 == 0 else min(1.0, max(0.0, ((p - a) @ ab) / L2))
        return np.linalg.norm(p - (a + t * ab)) <= tol
    c, r = g
    if abs(np.linalg.norm(p - c) - r) > tol:
        return False
    # between the endpoints: the geodesic arc is the one inside the region; p's angle lies in the span of a and b
    ang = lambda z: math.atan2(z[1] - c[1], z[0] - c[0])
    ta, tb, tp = ang(a), ang(b), ang(p)
    span = (tb - ta + math.pi) % (2 * math.pi) - math.pi
    if abs(abs(span) - math.pi) < 1e-6:
        # two ideal endpoints: a half circle; take the half inside the model's region
        mid = c + r * np.array([math.cos(ta + math.pi / 2), math.sin(ta + math.pi / 2)])
        span = math.pi if in_region(model, mid, 1e-9) and (model != "poincare" or mid @ mid <= 1) else -math.pi
    off = (tp - ta + math.pi) % (2 * math.pi) - math.pi
    if span > 0 and off < -1e-3:
        off += 2 * math.pi
    if span < 0 and off > 1e-3:
        off -= 2 * math.pi
    slack = 2 * tol / max(r, 1e-9) + 1e-7
    return (min(0, span) - slack <= off <= max(0, span) + slack)


# ------------------------------------------------------------------------------------------------
# S3b: arcs, points, Klein and projective polygons, horocycles, wrong dimension
# ------------------------------------------------------------------------------------------------
def gen_misc(rng, n):
    for _ in range(n):
        yield {"model": rng.choice(MODELS), "a": ball_pt(rng), "b": ball_pt(rng), "pts": [ball_pt(rng) for _ in range(rng.choice([1, 3]))],
               "poly": [ball_pt(rng) for _ in range(rng.choice([3, 4, 6, 8]))], "transform": rand_iso(rng) if rng.random() < 0.6 else None,
               "nonaff": (lambda nv_: {"n": nv_, "m": rng.randint(1, nv_ - 1), "start": rng.randrange(nv_), "seed": rng.randrange(10 ** 6)})(rng.choice([3, 4, 5, 6, 8])),
               "horo_angle": rng.uniform(-3, 3), "chart": rng.choice([0, 1, 2]), "sign": rng.choice([-1.0, 1.0]), "tsign": rng.choice([-1.0, 1.0]),
               "ptrans": [[rng.gauss(0, 1) for _ in range(3)] for _ in range(3)],
               "ppoly": [[rng.choice([-1, 1]) * rng.uniform(0.5, 2) if j == 0 else rng.uniform(-2, 2) for j in range(3)] for _ in range(4)]}


def run_misc(inp):
    model = inp["model"]
    out = {}
    d, Tm = drawing(model, inp["transform"])
    try:
        seg = H.Segment(H.Point(np.array(inp["a"]), model="klein"), H.Point(np.array(inp["b"]), model="klein"))
        d.draw_geodesic(seg)
        if model == "klein":
            out["geodesic"] = {"klein": np.asarray(d.ax.collections[-1].get_segments()[0], float).tolist()}
        else:
            a = d.ax.patches[-1]
            if isinstance(a, matplotlib.patches.Arc):
                out["geodesic"] = {"centre": [float(a.center[0]), float(a.center[1])], "w": float(a.width), "h": float(a.height),
                                   "t1": float(a.theta1), "t2": float(a.theta2)}
            else:
                out["geodesic"] = {"path": np.asarray(a.get_path().vertices, float).tolist()}
        # the bi-infinite geodesic through the two points (Geodesic object: two ideal endpoints)
        if model != "klein":
            npat = len(d.ax.patches)
            d.draw_geodesic(seg.geodesic())
            a = d.ax.patches[-1] if len(d.ax.patches) > npat else None
            if a is not None and isinstance(a, matplotlib.patches.Arc):
                out["full_geodesic"] = {"centre": [float(a.center[0]), float(a.center[1])], "w": float(a.width), "h": float(a.height),
                                        "t1": float(a.theta1), "t2": float(a.theta2)}
            elif a is not None:
                out["full_geodesic"] = {"path": np.asarray(a.get_path().vertices, float).tolist()}
            else:
                out["full_geodesic"] = {"none": True}
        d.draw_point(H.Point(np.array(inp["pts"]), model="klein"))
        out["points"] = np.asarray(d.ax.lines[-1].get_xydata(), float).tolist()
        if model == "klein":
            d.draw_polygon(H.Polygon(H.Point(np.array(inp["poly"]), model="klein")))
            out["klein_polygon"] = np.asarray(d.ax.collections[-1].get_paths()[0].vertices, float).tolist()
        else:
            ip = H.IdealPoint.from_angle(inp["horo_angle"])
            ncol, npat = len(d.ax.collections), len(d.ax.patches)
            d.draw_horosphere(H.Horosphere(ip, H.Point(np.array(inp["a"]), model="klein")))
            if len(d.ax.collections) > ncol:
                c = d.ax.collections[-1]
                w = np.asarray(c.get_widths() if hasattr(c, "get_widths") else 2 * c._widths, float)
                hh = np.asarray(c.get_heights() if hasattr(c, "get_heights") else 2 * c._heights, float)
                out["horo"] = {"centre": np.asarray(c.get_offsets(), float)[0].tolist(), "diam": float(w[0]), "height": float(hh[0]),
                               "angle": float(np.asarray(c.get_angles() if hasattr(c, "get_angles") else c._angles, float).reshape(-1)[0])}
            elif len(d.ax.patches) > npat:
                r_ = d.ax.patches[-1]
                out["horo"] = {"rect_y": float(r_.get_y())}
            else:
                out["horo"] = {"none": True}
        rej = []
        for nm, obj in (("point3", H.Point(np.array([0.1, 0.2, 0.3]), model="klein")), ("point1", H.Point(np.array([0.3]), model="klein")),
                        ("polygon3", H.Polygon(H.Point(np.array([[0.1, 0.2, 0.3], [0.3, 0, 0], [0, 0.3, 0.1]]), model="klein"))),
                        ("segment3", H.Segment(H.Point(np.array([0.1, 0.2, 0.3]), model="klein"), H.Point(np.array([0.3, 0.0, 0.1]), model="klein")))):
            meth = {"point": d.draw_point, "polygon": d.draw_polygon, "segment": d.draw_geodesic}[nm.rstrip("13")]
            before = (len(d.ax.patches), len(d.ax.collections), len(d.ax.lines))
            try:
                meth(obj)
                rej.append([nm, "accepted"])
            except GeometryError:
                rej.append([nm, "GeometryError" if before == (len(d.ax.patches), len(d.ax.collections), len(d.ax.lines)) else "drew-then-raised"])
            except Exception as ex:  # noqa: BLE001
                rej.append([nm, type(ex).__name__])
        out["rejected"] = rej
    finally:
        plt.close(d.fig)
    pt = np.array(inp["ptrans"])
    if abs(np.linalg.det(pt)) > 0.2:
        pd = D.ProjectiveDrawing(chart_index=inp["chart"], transform=P.Transformation(pt))
        try:
            pg = P.Polygon(np.array(inp["ppoly"]))
            pd.draw_polygon(pg)
            out["proj_polygon"] = np.asarray(pd.ax.collections[-1].get_paths()[0].vertices, float).tolist()
            pd.draw_point(P.Point(np.array(inp["ppoly"])))
            out["proj_points"] = np.asarray(pd.ax.lines[-1].get_xydata(), float).tolist()
            pd.draw_proj_segment(P.PointPair(np.array(inp["ppoly"][:2])))
            out["proj_segment"] = np.asarray(pd.ax.collections[-1].get_segments()[0], float).tolist()
            try:
                pd.draw_point(P.Point(np.array([1.0, 0.2, 0.3, 0.4])))
                out["proj_rejected"] = "accepted"
            except GeometryError:
                out["proj_rejected"] = "GeometryError"
        finally:
            plt.close(pd.fig)
    # G14: polygons with 3, 4, 5, 6, 8 vertices that cross the line at infinity of the chart (m consecutive vertices with
    # negative first coordinate, starting anywhere in the cyclic order), drawn with assume_affine=False; and the same
    # vertex counts inside the chart in both modes
    na = inp.get("nonaff")
    if na:
        rs = np.random.default_rng(na["seed"])
        nv_ = na["n"]
        ang = np.sort(rs.uniform(0, 2 * np.pi, nv_))
        affv = np.stack([1.5 * np.cos(ang), 1.5 * np.sin(ang)], -1) + rs.uniform(-0.2, 0.2, (nv_, 2))
        sign = np.ones(nv_)
        sign[[(na["start"] + i_) % nv_ for i_ in range(na["m"])]] = -1.0
        # vertices with sign -1 lie "behind" the line at infinity: affine position -affv (so that the edges really cross infinity)
        hom_c = np.concatenate([sign[:, None], affv], -1) * rs.uniform(0.5, 2.0, (nv_, 1))
        hom_in = np.concatenate([np.ones((nv_, 1)), affv], -1) * rs.uniform(0.5, 2.0, (nv_, 1)) * rs.choice([-1.0, 1.0])
        for tag_, hom_, aff_ in (("nonaff_crossing", hom_c, False), ("nonaff_inside", hom_in, False), ("affine_inside", hom_in, True)):
            pd3 = D.ProjectiveDrawing(chart_index=0)
            try:
                pd3.draw_polygon(P.Polygon(hom_), assume_affine=aff_)
                polys = [np.asarray(q.vertices, float).tolist() for c in pd3.ax.collections for q in c.get_paths() if len(q.vertices)]
                polys += [np.asarray(q.get_xy(), float).tolist() for q in pd3.ax.patches]
                out[tag_] = {"polys": polys, "want": (hom_[:, 1:] / hom_[:, :1]).tolist(), "diam": float(pd3.view_diam())}
            finally:
                plt.close(pd3.fig)
    # a polygon inside the standard chart, representatives of one (random) sign, drawn without assuming it is affine
    sgn = inp.get("sign", 1.0)
    hom = np.array([[sgn * abs(v[0])] + [sgn * abs(v[0]) * t for t in v[1:]] for v in inp["ppoly"]])
    pd2 = D.ProjectiveDrawing(chart_index=0, transform=P.Transformation(np.diag([inp.get("tsign", 1.0), 1.0, 1.0])))
    try:
        pd2.draw_polygon(P.Polygon(hom), assume_affine=False)
        polys = [np.asarray(q.vertices, float).tolist() for c in pd2.ax.collections for q in c.get_paths()]
        polys += [np.asarray(q.get_path().vertices, float).tolist() for q in pd2.ax.patches]
        out["nonaffine_flag"] = polys
    finally:
        plt.close(pd2.fig)
    return out


def lean_misc(inp, obs):
    return [{"op": "c19.guard", "dimension": k} for k in (1, 2, 3)]


def judge_misc(inp, obs, lr):
    model = inp["model"]
    tags = {"model": model}
    if "exc" in obs:
        return {"expected": "drawing", "observed": obs, "tags": dict(tags, exc=obs["exc"])}
    if [r.get("ok", r.get("err")) for r in lr] != ["GeometryError", "ok", "GeometryError"]:
        return {"expected": "model guard rejects dimension != 2", "observed": lr, "tags": dict(tags, what="guard model")}
    T = iso_matrix(inp["transform"])
    Tm = np.eye(3) if T is None else np.asarray(T.proj_data, float)
    def tr(k):
        k = np.atleast_2d(np.array(k, float))
        pr = apply_T(Tm, np.concatenate([np.ones((len(k), 1)), k], -1))
        return klein_to(model, pr[:, 1:] / pr[:, :1])
    a, b = tr(inp["a"])[0], tr(inp["b"])[0]
    g = obs["geodesic"]
    if model == "klein":
        if not close(g["klein"], [a, b], 1e-9):
            return {"expected": [a.tolist(), b.tolist()], "observed": g, "tags": dict(tags, what="klein geodesic")}
    elif "centre" in g:
        ref = ref_geodesic(model, a, b)
        c, r = ref
        tol = 1e-4 * (1 + r)
        if abs(g["w"] - 2 * r) > 2 * tol or abs(g["h"] - 2 * r) > 2 * tol or np.linalg.norm(np.array(g["centre"]) - c) > tol:
            return {"expected": {"centre": c.tolist(), "radius": r}, "observed": g, "tags": dict(tags, what="arc circle")}
        ends = [c + r * np.array([math.cos(math.radians(t)), math.sin(math.radians(t))]) for t in (g["t1"], g["t2"])]
        d1 = max(np.linalg.norm(ends[0] - a), np.linalg.norm(ends[1] - b))
        d2 = max(np.linalg.norm(ends[0] - b), np.linalg.norm(ends[1] - a))
        ext = (g["t2"] - g["t1"]) % 360.0
        if min(d1, d2) > 10 * tol or not (ext <= 180.0 + 1e-6):
            return {"expected": "arc from one endpoint to the other, counterclockwise, at most a half circle", "observed": {"g": g, "a": a.tolist(), "b": b.tolist()},
                    "tags": dict(tags, what="arc extent")}
        mid = c + r * np.array([math.cos(math.radians(g["t1"] + ext / 2)), math.sin(math.radians(g["t1"] + ext / 2))])
        if not in_region(model, mid, 1e-6):
            return {"expected": "arc inside the model's region", "observed": mid.tolist(), "tags": dict(tags, what="arc side")}
    if model != "klein" and "full_geodesic" in obs:
        fg = obs["full_geodesic"]
        ref = ref_geodesic(model, a, b)
        if ref is not None and ref[1] < RTHR * 0.9:
            c, r = ref
            tol = 1e-4 * (1 + r)
            if "centre" not in fg:
                return {"expected": {"arc of": [c.tolist(), r]}, "observed": fg, "tags": dict(tags, what="geodesic not drawn as arc")}
            if abs(fg["w"] - 2 * r) > 2 * tol or np.linalg.norm(np.array(fg["centre"]) - c) > tol:
                return {"expected": {"centre": c.tolist(), "radius": r}, "observed": fg, "tags": dict(tags, what="geodesic circle")}
            # the whole geodesic: from ideal point to ideal point, inside the region, containing both points
            ext = (fg["t2"] - fg["t1"]) % 360.0
            ends = [c + r * np.array([math.cos(math.radians(t)), math.sin(math.radians(t))]) for t in (fg["t1"], fg["t2"])]
            on_bdry = all((abs(np.linalg.norm(e) - 1) < 1e-3) if model == "poincare" else (abs(e[1]) < 1e-3 * (1 + r)) for e in ends)
            mid = c + r * np.array([math.cos(math.radians(fg["t1"] + ext / 2)), math.sin(math.radians(fg["t1"] + ext / 2))])
            def inside_arc(p):
                t = math.degrees(math.atan2(p[1] - c[1], p[0] - c[0]))
                return ((t - fg["t1"]) % 360.0) <= ext + 1e-3
            if not (on_bdry and in_region(model, mid, 1e-6) and (model != "poincare" or mid @ mid < 1) and inside_arc(a) and inside_arc(b)):
                return {"expected": "arc between the two ideal endpoints, inside the region, through both points",
                        "observed": {"arc": fg, "ends": [e.tolist() for e in ends], "mid": mid.tolist()}, "tags": dict(tags, what="geodesic extent")}
    if not close(obs["points"], tr(inp["pts"]), 1e-8):
        return {"expected": tr(inp["pts"]).tolist(), "observed": obs["points"], "tags": dict(tags, what="points")}
    if model == "klein":
        pv = tr(inp["poly"])
        if not close(obs["klein_polygon"], np.concatenate([pv, pv[:1]]), 1e-9):
            return {"expected": pv.tolist(), "observed": obs["klein_polygon"], "tags": dict(tags, what="klein polygon")}
    else:
        xi = np.array([math.cos(inp["horo_angle"]), math.sin(inp["horo_angle"])])
        # image of the ideal centre and of the reference point under the drawing transform, in the model
        pr = apply_T(Tm, np.array([[1.0, xi[0], xi[1]]]))
        xik = (pr[:, 1:] / pr[:, :1])[0]
        p = a
        if model == "poincare":
            rho = ((p - xik) @ (p - xik)) / (2 * (1 - p @ xik))
            c = (1 - rho) * xik
        else:
            xh = klein_to("halfspace", xik)
            if not finite(xh) or abs(xh[0]) > 1e6:
                c = rho = None
            else:
                rho = ((p[0] - xh[0]) ** 2 + p[1] ** 2) / (2 * p[1])
                c = np.array([xh[0], rho])
        if c is not None and rho < RTHR * 0.99:
            if "centre" not in obs["horo"]:
                return {"expected": {"centre": c.tolist(), "diam": 2 * rho}, "observed": obs["horo"], "tags": dict(tags, what="horocycle missing")}
            if np.linalg.norm(np.array(obs["horo"]["centre"]) - c) > 1e-4 * (1 + rho) or abs(obs["horo"]["diam"] - 2 * rho) > 2e-4 * (1 + rho) \
                    or abs(obs["horo"]["height"] - 2 * rho) > 2e-4 * (1 + rho):
                return {"expected": {"centre": c.tolist(), "diam": 2 * rho}, "observed": obs["horo"], "tags": dict(tags, what="horocycle")}
    for nm, what in obs["rejected"]:
        if what != "GeometryError":
            return {"expected": "GeometryError for %s" % nm, "observed": what, "tags": dict(tags, what="wrong dimension", obj=nm)}
    for tag_ in ("nonaff_crossing", "nonaff_inside", "affine_inside"):
        if tag_ not in obs:
            continue
        want = np.array(obs[tag_]["want"])
        polys = [np.array(q_) for q_ in obs[tag_]["polys"]]
        near_ = [[v_ for v_ in q_ if np.linalg.norm(v_) < 0.5 * obs[tag_]["diam"]] for q_ in polys]
        # (closed paths repeat their first vertex)
        near_ = [q_[:-1] if len(q_) > 1 and np.allclose(q_[0], q_[-1]) else q_ for q_ in near_]
        flat = [v_ for q_ in near_ for v_ in q_]
        ok_ = len(flat) == len(want) and all(sum(np.linalg.norm(v_ - w_) < 1e-7 * (1 + np.linalg.norm(w_)) for v_ in flat) == 1 for w_ in want)
        if ok_:
            # within each drawn piece the polygon's vertices keep their cyclic order
            for q_ in near_:
                idx = [int(np.argmin([np.linalg.norm(v_ - w_) for w_ in want])) for v_ in q_]
                n_ = len(want)
                steps_ = [(b_ - a_) % n_ for a_, b_ in zip(idx, idx[1:])]
                if not (all(s_ == 1 for s_ in steps_) or all(s_ == n_ - 1 for s_ in steps_)):
                    ok_ = False
        if not ok_ or (tag_ == "nonaff_crossing" and len(polys) != 2) or (tag_ != "nonaff_crossing" and len(polys) != 1):
            return {"expected": {"every vertex exactly once, in cyclic order, in %s piece(s)" % ("two" if tag_ == "nonaff_crossing" else "one"): want.tolist()},
                    "observed": [q_.tolist() for q_ in polys], "tags": {"what": "projective polygon " + tag_, "n": len(want)}}
    if "nonaffine_flag" in obs:
        hom = np.array([[abs(v[0])] + [abs(v[0]) * t for t in v[1:]] for v in inp["ppoly"]])
        aff = hom[:, 1:] / hom[:, :1] * inp.get("tsign", 1.0) ** -1 if False else (hom[:, 1:] / hom[:, :1]) / inp.get("tsign", 1.0)
        polys = obs["nonaffine_flag"]
        if len(polys) != 1 or not close(np.array(polys[0])[:len(aff)], aff, 1e-9):
            return {"expected": {"one polygon at": aff.tolist()}, "observed": polys, "tags": {"what": "projective polygon, assume_affine=False",
                    "sign": inp.get("sign"), "tsign": inp.get("tsign")}}
    if "proj_polygon" in obs:
        pt = np.array(inp["ptrans"])
        pp = np.array(inp["ppoly"]) @ pt
        ci = inp["chart"]
        aff = np.delete(pp / pp[:, ci:ci + 1], ci, axis=1)
        if not close(obs["proj_polygon"], np.concatenate([aff, aff[:1]]), 1e-7) or not close(obs["proj_points"], aff, 1e-7) \
                or not close(obs["proj_segment"], aff[:2], 1e-7):
            return {"expected": aff.tolist(), "observed": {k: obs[k] for k in ("proj_polygon", "proj_points", "proj_segment")},
                    "tags": {"what": "projective chart", "chart": ci}}
        if obs["proj_rejected"] != "GeometryError":
            return {"expected": "GeometryError", "observed": obs["proj_rejected"], "tags": {"what": "projective wrong dimension"}}
    return None


# ------------------------------------------------------------------------------------------------
# S3c: drawing histories — several draws of the same and of different objects in ONE drawing, interleaved with
#      set_/add_/precompose_transform and in-place edits; each artist against the object's current geometry under the current transform
# ------------------------------------------------------------------------------------------------
def gen_hist(rng, n):
    for _ in range(n):
        model = rng.choice(MODELS)
        nobj = rng.choice([1, 2, 3])
        objs = []
        for _o in range(nobj):
            kind = rng.choice(["point", "polygon", "segment"])
            k = {"point": rng.choice([1, 2]), "polygon": rng.choice([3, 4, 5]), "segment": 2}[kind]
            objs.append({"kind": kind, "pts": [ball_pt(rng, 0.8) for _ in range(k)]})
        steps = []
        for _s in range(rng.choice([4, 6, 8])):
            c = rng.random()
            if c < 0.5:
                steps.append({"op": "draw", "obj": rng.randrange(nobj), "second": rng.random() < 0.3, "cast": rng.random() < 0.2})
            elif c < 0.8:
                steps.append({"op": rng.choice(["set_transform", "add_transform", "precompose_transform"]), "iso": rand_iso(rng)})
            elif c < 0.9:
                j = rng.randrange(nobj)
                steps.append({"op": "edit", "obj": j, "pts": [ball_pt(rng, 0.8) for _ in objs[j]["pts"]]})
            else:
                j = rng.randrange(nobj)
                steps.append({"op": "edit_copy", "obj": j, "how": rng.choice(["ctor", "flatten", "reshape", "copy"]),
                              "pts": [ball_pt(rng, 0.8) for _ in objs[j]["pts"]], "reverse": rng.random() < 0.4})
        steps.append({"op": "draw", "obj": rng.randrange(nobj)})
        yield {"model": model, "objs": objs, "steps": steps, "iso2": rand_iso(rng), "iso1": rand_iso(rng) if rng.random() < 0.5 else None}


def _mk_obj(o):
    pts = H.Point(np.array(o["pts"]), model="klein")
    if o["kind"] == "point":
        return pts
    if o["kind"] == "polygon":
        return H.Polygon(pts)
    return H.Segment(pts)


def _read_last(d, kind, before):
    """model coordinates of the object's defining points as drawn by the newest artist"""
    npat, ncol, nlin = before
    if kind == "point":
        return np.asarray(d.ax.lines[-1].get_xydata(), float) if len(d.ax.lines) > nlin else None
    if len(d.ax.collections) > ncol:       # Klein model: straight collections
        c = d.ax.collections[-1]
        if kind == "polygon":
            return np.asarray(c.get_paths()[0].vertices, float)[:-1]
        return np.asarray(c.get_segments()[0], float)
    if len(d.ax.patches) > npat:
        a = d.ax.patches[-1]
        if isinstance(a, matplotlib.patches.Arc):
            c0, r0 = np.array(a.center, float), a.width / 2
            return np.array([c0 + r0 * np.array([math.cos(math.radians(t)), math.sin(math.radians(t))]) for t in (a.theta1, a.theta2)])
        return np.asarray(a.get_path().vertices, float)
    return None


def _expect(chain, klein_pts, model):
    """model coordinates of points after the isometries of `chain` applied one after the other (Isometry.apply on Points:
    independent of how a drawing composes its transform)"""
    pt = H.Point(np.array(klein_pts, float), model="klein")
    for T_ in chain:
        pt = T_.apply(pt)
    return klein_to(model, np.asarray(pt.coords("klein"), float))


def run_hist(inp):
    # G18: the drawing may already hold a transform (constructor transform=) before the history starts
    t1 = iso_matrix(inp.get("iso1"))
    d1 = D.HyperbolicDrawing(model=inp["model"], transform=t1)
    chain1 = [] if t1 is None else [t1]
    t2 = iso_matrix(inp.get("iso2"))
    d2 = D.HyperbolicDrawing(model=inp["model"], transform=t2)     # an unrelated drawing (G3)
    chain2 = [] if t2 is None else [t2]
    objs = [_mk_obj(o) for o in inp["objs"]]
    cur = [np.array(o["pts"]) for o in inp["objs"]]
    out = []
    isolation = 0.0
    try:
        for st in inp["steps"]:
            if st["op"] == "draw":
                d = d2 if st.get("second") else d1
                o, kind = objs[st["obj"]], inp["objs"][st["obj"]]["kind"]
                if st.get("cast"):
                    o = o.astype("float32")                       # the same object with another dtype (G4)
                snap_o, snap_t = np.array(o.proj_data, copy=True), np.array(d.transform.proj_data, copy=True)
                before = (len(d.ax.patches), len(d.ax.collections), len(d.ax.lines))
                {"point": d.draw_point, "polygon": d.draw_polygon, "segment": d.draw_geodesic}[kind](o)
                # G2: drawing leaves the object (projectively) and the transform (exactly) as they were
                from vlib.canon import proj_close as _pc
                if not _pc(np.asarray(o.proj_data, float), np.asarray(snap_o, float), 1e-6) or not np.array_equal(snap_t, d.transform.proj_data):
                    isolation = 1.0
                got = _read_last(d, kind, before)
                want = _expect(chain2 if st.get("second") else chain1, cur[st["obj"]], inp["model"])
                out.append({"kind": kind, "got": None if got is None else got.tolist(), "want": want.tolist(), "cast": bool(st.get("cast"))})
            elif st["op"] == "edit_copy":
                # a composite object and a copy of it (constructor / flatten_to_unit / reshape / copy), both queried; ONE of the
                # two is edited item by item; the other one must still be drawn where it was
                from copy import copy as _copy
                kindc = inp["objs"][st["obj"]]["kind"]
                if kindc == "point":
                    kindc = "segment"
                m_ = 2 if kindc == "segment" else 3
                allp = np.array(st["pts"] + inp["objs"][st["obj"]]["pts"] + [[0.1, 0.2], [-0.3, 0.1], [0.2, -0.4], [0.0, 0.5], [0.4, 0.4], [-0.5, -0.2]])
                base = allp[:2 * m_].reshape(2, m_, 2)
                repl = allp[2 * m_:3 * m_].reshape(1, m_, 2) if len(allp) >= 3 * m_ else base[:1] * 0.5
                mk_ = (lambda a: H.Segment(H.Point(a, model="klein"))) if kindc == "segment" else (lambda a: H.Polygon(H.Point(a, model="klein")))
                S = mk_(base)
                cp = {"ctor": lambda: type(S)(S), "flatten": lambda: S.flatten_to_unit(), "reshape": lambda: S.reshape(S.shape),
                      "copy": lambda: _copy(S)}[st["how"]]()
                S.circle_parameters() if kindc == "segment" else S.get_edges().circle_parameters()
                edited, kept = (S, cp) if st["reverse"] else (cp, S)
                if not np.shares_memory(cp.proj_data, S.proj_data):
                    edited[0] = mk_(repl)[0]
                    before = (len(d1.ax.patches), len(d1.ax.collections), len(d1.ax.lines))
                    (d1.draw_geodesic if kindc == "segment" else d1.draw_polygon)(kept)
                    pts_ = []
                    for a_ in d1.ax.patches[before[0]:]:
                        if isinstance(a_, matplotlib.patches.Arc):
                            c0, r0 = np.array(a_.center, float), a_.width / 2
                            pts_ += [c0 + r0 * np.array([math.cos(math.radians(t)), math.sin(math.radians(t))]) for t in (a_.theta1, a_.theta2)]
                        else:
                            pts_ += list(np.asarray(a_.get_path().vertices, float))
                    for c_ in d1.ax.collections[before[1]:]:
                        for pth in c_.get_paths():
                            pts_ += list(np.asarray(pth.vertices, float))
                    want = _expect(chain1, base.reshape(-1, 2), inp["model"])
                    out.append({"kind": kindc, "got": np.array(pts_).tolist() if pts_ else None, "want": want.tolist(), "cast": False,
                                "note": "original drawn after its %s copy was edited%s" % (st["how"], " (reverse)" if st["reverse"] else "")})
            elif st["op"] == "edit":
                j = st["obj"]
                new = np.concatenate([np.ones((len(st["pts"]), 1)), np.array(st["pts"])], -1)
                # in-place edit of the object's data through the public interface
                fresh = _mk_obj({"kind": inp["objs"][j]["kind"], "pts": st["pts"]})
                objs[j].set(fresh.proj_data, aux_data=fresh.aux_data) if hasattr(objs[j], "set") else None
                cur[j] = np.array(st["pts"])
            else:
                T_ = iso_matrix(st["iso"])
                getattr(d1, st["op"])(T_)
                # set: only T; add: T after everything installed so far; precompose: T before everything installed so far
                chain1 = {"set_transform": [T_], "add_transform": chain1 + [T_], "precompose_transform": [T_] + chain1}[st["op"]]
    finally:
        plt.close(d1.fig)
        plt.close(d2.fig)
    return {"draws": out, "isolation": isolation}


def judge_hist(inp, obs, lr):
    tags = {"model": inp["model"]}
    if "exc" in obs:
        return {"expected": "drawing history runs", "observed": obs, "tags": dict(tags, exc=obs["exc"])}
    if obs.get("isolation"):
        return {"expected": "drawing leaves the object and the drawing transform unchanged", "observed": "modified", "tags": dict(tags, what="isolation")}
    for i, dr in enumerate(obs["draws"]):
        if dr["got"] is None:
            return {"expected": "an artist for draw %d" % i, "observed": None, "tags": dict(tags, what="no artist", kind=dr["kind"])}
        got, want = np.array(dr["got"]), np.array(dr["want"])
        # every defining point (vertex / endpoint / point) is among the artist's points (arcs: either order)
        for wi, w in enumerate(want):
            # half-plane: above the radius threshold the edge is drawn as a vertical segment (the second endpoint moves by |dx|)
            slack = 0.0
            if inp["model"] == "halfspace" and dr["kind"] != "point" and len(want) > 1:
                dx = sorted(abs(w[0] - w2[0]) for wj, w2 in enumerate(want) if wj != wi)
                slack = dx[0] if dx and dx[0] < 0.15 else 0.0
            # a float32 copy has float32 ideal endpoints (half the digits after kleinian_to_poincare): 2e-2 there
            rel = 2e-2 if dr.get("cast") else 1e-4
            if np.min(np.linalg.norm(got - w, axis=1)) > rel * (1 + np.linalg.norm(w)) + slack:
                return {"expected": {"draw": i, "points at": want.tolist()}, "observed": got.tolist()[:12],
                        "tags": dict(tags, what="history", kind=dr["kind"])}
    return None


# ------------------------------------------------------------------------------------------------
# S3d: mixed-kind composites in ONE draw call (G16) and the radius_threshold keyword (G17)
# ------------------------------------------------------------------------------------------------
def gen_comp(rng, n):
    for _ in range(n):
        model = rng.choice(["poincare", "halfspace", "halfspace"])
        segs = []
        for _k in range(rng.choice([2, 3, 4])):
            kind = rng.choice(["ordinary", "ordinary", "to_infinity", "nearly_straight", "through_origin"])
            a = ball_pt(rng, 0.8)
            b = ball_pt(rng, 0.8)
            if kind == "to_infinity":
                b = [1.0, 0.0]                       # the half-plane's point at infinity (an ordinary ideal point in the disk)
            elif kind in ("nearly_straight", "through_origin"):
                while math.hypot(*a) < 0.2:
                    a = ball_pt(rng, 0.8)
                lam = rng.uniform(0.3, 1.0)
                eps = 0.0 if kind == "through_origin" else rng.choice([3e-2, 1e-2, 3e-3, 1e-3]) * rng.choice([-1, 1])
                na = math.hypot(*a)
                b = [-lam * a[0] - eps * a[1] / na, -lam * a[1] + eps * a[0] / na]
            segs.append({"kind": kind, "a": a, "b": b})
        horo = [{"angle": rng.choice([0.0, 0.0, rng.uniform(0.5, 5.8), rng.uniform(0.5, 5.8)]), "ref": ball_pt(rng, 0.7)} for _k in range(rng.choice([2, 3]))]
        pts = [ball_pt(rng, 0.8) if rng.random() < 0.6 else (lambda t: [math.cos(t), math.sin(t)])(rng.uniform(0.5, 5.8)) for _k in range(rng.choice([2, 4]))]
        yield {"model": model, "segs": segs, "horo": horo, "pts": pts, "radius_threshold": rng.choice([None, 20.0, 200.0, 1000.0]),
               "transform": rand_iso(rng) if rng.random() < 0.3 else None}


def _sig(artists_before, d):
    """(kind, parameters) of every artist added since `artists_before`"""
    out = []
    for a in d.ax.patches[artists_before[0]:]:
        if isinstance(a, matplotlib.patches.Arc):
            out.append(["Arc", [float(a.center[0]), float(a.center[1]), float(a.width), float(a.height), float(a.theta1) % 360.0, float(a.theta2) % 360.0]])
        elif isinstance(a, matplotlib.patches.Rectangle):
            out.append(["Rectangle", [float(a.get_x()), float(a.get_y()), float(a.get_width()), float(a.get_height())]])
        else:
            out.append(["Path", np.asarray(a.get_path().vertices, float).reshape(-1).tolist()])
    for c in d.ax.collections[artists_before[1]:]:
        if isinstance(c, matplotlib.collections.EllipseCollection):
            w = np.asarray(c.get_widths() if hasattr(c, "get_widths") else 2 * c._widths, float)
            h = np.asarray(c.get_heights() if hasattr(c, "get_heights") else 2 * c._heights, float)
            for off, w_, h_ in zip(np.asarray(c.get_offsets(), float), w, h):
                out.append(["Ellipse", [float(off[0]), float(off[1]), float(w_), float(h_)]])
        else:
            for pth in c.get_paths():
                out.append(["Line", np.asarray(pth.vertices, float).reshape(-1).tolist()])
    for l in d.ax.lines[artists_before[2]:]:
        for xy in np.asarray(l.get_xydata(), float):
            out.append(["Marker", [float(xy[0]), float(xy[1])]])
    return out


def _count(d):
    return (len(d.ax.patches), len(d.ax.collections), len(d.ax.lines))


def run_comp(inp):
    model = inp["model"]
    kw = {} if inp["radius_threshold"] is None else {"radius_threshold": inp["radius_threshold"]}
    dA, _ = drawing(model, inp["transform"])
    dB, _ = drawing(model, inp["transform"])
    res = {}
    try:
        seg_objs = [H.Segment(H.Point(np.array([s_["a"], s_["b"]]), model="klein")) for s_ in inp["segs"]]
        comp = H.Segment(np.array([o.proj_data for o in seg_objs]))
        b0 = _count(dA); dA.draw_geodesic(comp, **kw); res["segs_composite"] = _sig(b0, dA)
        singles = []
        for o in seg_objs:
            b0 = _count(dB); dB.draw_geodesic(o, **kw); singles.append(_sig(b0, dB))
        res["segs_single"] = singles
        horos = [H.Horosphere(H.IdealPoint.from_angle(h_["angle"]), H.Point(np.array(h_["ref"]), model="klein")) for h_ in inp["horo"]]
        hcomp = H.Horosphere(np.array([h_.proj_data for h_ in horos]))
        b0 = _count(dA); dA.draw_horosphere(hcomp); res["horo_composite"] = _sig(b0, dA)
        hs = []
        for h_ in horos:
            b0 = _count(dB); dB.draw_horosphere(h_); hs.append(_sig(b0, dB))
        res["horo_single"] = hs
        pobjs = [H.Point(np.array(p_), model="klein") for p_ in inp["pts"]]
        b0 = _count(dA); dA.draw_point(H.Point(np.array([p_.proj_data for p_ in pobjs]))); res["pts_composite"] = _sig(b0, dA)
        ps = []
        for p_ in pobjs:
            b0 = _count(dB); dB.draw_point(p_); ps.append(_sig(b0, dB))
        res["pts_single"] = ps
    finally:
        plt.close(dA.fig); plt.close(dB.fig)
    return res


def _same_sig(a, b):
    if a[0] != b[0] or len(a[1]) != len(b[1]):
        return False
    x, y = np.array(a[1], float), np.array(b[1], float)
    if not (np.isfinite(x) == np.isfinite(y)).all():
        return False
    m = np.isfinite(x)
    return bool(np.all(np.abs(x[m] - y[m]) <= 1e-6 * (1 + np.abs(y[m]))))


def judge_comp(inp, obs, lr):
    model = inp["model"]
    tags = {"model": model, "radius_threshold": inp["radius_threshold"]}
    if "exc" in obs:
        return {"expected": "composite drawn", "observed": obs, "tags": dict(tags, exc=obs["exc"])}
    for nm in ("segs", "horo", "pts"):
        comp, singles = obs[nm + "_composite"], obs[nm + "_single"]
        flat = [a for s_ in singles for a in s_]
        kinds = [x["kind"] for x in inp["segs"]] if nm == "segs" else None
        if any(len(s_) == 0 for s_ in singles):
            return {"expected": "an artist for every member drawn alone", "observed": singles, "tags": dict(tags, what=nm + " single missing")}
        # member i of the composite call is drawn exactly as the single object i (same artists, any order)
        rest = list(flat)
        for a in comp:
            hit = next((i for i, b in enumerate(rest) if _same_sig(a, b)), None)
            if hit is None:
                return {"expected": {"artists of the members drawn one by one": flat}, "observed": {"composite call": comp},
                        "tags": dict(tags, what=nm + " composite differs", kinds=kinds)}
            rest.pop(hit)
        if rest:
            return {"expected": {"artists of the members drawn one by one": flat}, "observed": {"composite call (members missing)": comp},
                    "tags": dict(tags, what=nm + " member missing", kinds=kinds)}
    # the radius_threshold keyword decides arc / straight piece
    R = RTHR if inp["radius_threshold"] is None else inp["radius_threshold"]
    T = iso_matrix(inp["transform"])
    chain = [] if T is None else [T]
    for s_, sg in zip(inp["segs"], obs["segs_single"]):
        ends = _expect(chain, [s_["a"], s_["b"]], model)
        if not finite(ends):
            continue
        g = ref_geodesic(model, ends[0], ends[1])
        if g is None:
            continue
        r = g[1]
        is_arc = sg[0][0] == "Arc"
        if r < 0.9 * R and not is_arc:
            return {"expected": "an Arc (radius %.3g below radius_threshold %.3g)" % (r, R), "observed": sg[0][0], "tags": dict(tags, what="radius_threshold")}
        if r > 1.1 * R and is_arc:
            return {"expected": "a straight piece (radius %.3g above radius_threshold %.3g)" % (r, R), "observed": sg[0], "tags": dict(tags, what="radius_threshold")}
        if is_arc and abs(sg[0][1][2] - 2 * r) > 2e-4 * (1 + r) * 2:
            return {"expected": {"radius": r}, "observed": sg[0], "tags": dict(tags, what="arc radius")}
    return None


CLAUSES = [
    Clause("assemble_corr", "corr", gen_poly, run_assemble, judge_assemble, lean=lean_assemble, site="drawtools.HyperbolicDrawing.get_polygon_arcpath",
           budget={"quick": 60, "thorough": 1200},
           what="get_polygon_arcpath(polygon) (vertices and codes, exactly) vs the model's assemble fed with the drawing's own per-edge pieces; radius-threshold switch"),
    Clause("polygon_oracle", "oracle", gen_poly, run_poly, judge_poly, site="drawtools.HyperbolicDrawing.draw_polygon",
           budget={"quick": 150, "thorough": 4000},
           what="PathPatch read back from the axes: one MOVETO, starts at v0, vertices in order, closed, every Bezier sample on the hyperbolic edge (independent reference circle, 1e-4(1+r); sagitta bound for straight pieces) inside the region; 3..8 vertices, convex or not, edges through the origin, nearly straight arcs; Poincare and half-plane; drawing transforms"),
    Clause("history_oracle", "oracle", gen_hist, run_hist, judge_hist, site="drawtools.HyperbolicDrawing (several draws in one drawing)",
           budget={"quick": 60, "thorough": 1500},
           what="drawing histories in one HyperbolicDrawing: draws of the same and of different points / polygons / segments interleaved with set_transform, add_transform, precompose_transform and in-place edits (set); each new artist must show the object's CURRENT geometry under the CURRENT transform"),
    Clause("composite_oracle", "oracle", gen_comp, run_comp, judge_comp, site="drawtools draw_geodesic / draw_horosphere / draw_point on composites",
           budget={"quick": 40, "thorough": 1000},
           what="one draw call on a composite of mixed kinds (ordinary / to-infinity / nearly straight / through-origin segments; horospheres at finite points and at the half-plane's infinity; interior and ideal points): member i is drawn exactly as when drawn alone; every value of the radius_threshold keyword (default, 20, 200, 1000) decides arc vs straight piece"),
    Clause("artists_oracle", "oracle", gen_misc, run_misc, judge_misc, lean=lean_misc, site="drawtools draw_geodesic / draw_point / draw_polygon(klein) / draw_horosphere / ProjectiveDrawing",
           budget={"quick": 60, "thorough": 1500},
           what="Arc centre/radius/extent = the geodesic's; points, Klein polygons and projective polygons/points/segments (charts 0-2) at their model coordinates after the drawing's transform; horocycles; 1-/3-dimensional objects rejected"),
]
