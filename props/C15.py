"""C15 — reflections, their walls and isometry fixed points correspond to each other (DESIGN §4 C15)."""
import math
from fractions import Fraction as F
import numpy as np
from vlib.runner import Clause
from vlib import q as Q
from vlib.canon import close, proj_close, finite
from props import _a4geom as G
from geometry_tools import hyperbolic as H
from geometry_tools import coxeter
from geometry_tools.hyperbolic import GeometryError

LEVEL = "proof"
EXPLANATION = ("Lean theorems (every dimension, every field / ordered field): the closed-form reflection R = 1 - 2 J d^T d/<d,d> is "
               "involutive, form-preserving, has det -1, fixes d-perp pointwise and negates d; the literal inv(D) J D the code computes "
               "equals it for every D = [d; vectors orthogonal to d] and every left inverse; every (-1)-eigenvector of R is a multiple "
               "of d and defines the same reflection (from_reflection round trip); the ideal basis built by _compute_ideal_basis is "
               "lightlike and orthogonal to the normal under the spacelike_to contract; the eigenvalue test accepts exactly spectra "
               "within eps of {-1,1,..,1}; the fixed-point ordering is a permutation of eig's output whose head maximises "
               "(in closed ball, -|Im lambda|, |lambda|): in the ball whenever some eigenvector is, attracting endpoint first. "
               "Exact-Q correspondence of reflection matrices, hyperplane data, spectrum test and ordering; float oracle for every sentence.")
ASSUMPTIONS = ["np.linalg.inv (Dinv*D = 1), np.linalg.eig (returned vectors are eigenvectors), the frame completion inside spacelike_to "
               "(T J T^T = J, row 1 the normalised normal) are contracts; residuals are checked on every case",
               "IEEE rounding within tolerance; translation lengths <= 3, rotation angles in [0.3, 2.8]"]
EPS = "1/100000000"
TOL = 1e-9


def exc(obs, what, tags=None):
    t = {"exc": obs.get("exc")}
    t.update(tags or {})
    return {"expected": what, "observed": obs, "tags": t, "property_failure": True}


def drv_err(lr):
    for r in lr:
        if "err" in r:
            return {"expected": "model answer", "observed": r, "tags": {"driver_err": r["err"]}}
    return None


def rat_spacelike(rng, dim):
    """rational spacelike vector of R^{dim,1} with a mix of zero entries"""
    while True:
        d = [F(rng.randint(-6, 6), rng.randint(1, 4)) for _ in range(dim + 1)]
        if rng.random() < 0.3:
            d[rng.randrange(dim + 1)] = F(0)
        if G.minkF(d, d) > F(1, 10):
            return d


# ================================================================== correspondence
def gen_reflect(rng, n):
    for _ in range(n):
        dim = rng.choice([2, 2, 3, 4])
        yield {"dim": dim, "d": G.qv(rat_spacelike(rng, dim))}


def null_kernel(d):
    """does the indefinite Gram-Schmidt that find_isometry runs on the SVD kernel basis of the normal meet a
    (numerically) lightlike vector at some step?  (replayed here on the same LAPACK output)"""
    from geometry_tools.utils import numerical
    dim = len(d) - 1
    dn = d / math.sqrt(abs(G.mink(d, d)))
    ker = np.array(numerical.svd_kernel((dn @ G.J(dim))[None, :])).T
    res, worst = [], 1.0
    for row in ker:
        row = row.copy()
        for o in res:
            row = row - o * G.mink(row, o) / G.mink(o, o)
        worst = min(worst, abs(G.mink(row, row)) / max(np.dot(row, row), 1e-300))
        if worst < 1e-6:
            return True
        res.append(row)
    return False


def run_reflect(inp):
    d = G.fv(inp["d"])
    nk = null_kernel(d)
    try:
        Hp = H.Hyperplane(d.copy())
        D = np.array(Hp.proj_data, dtype=float).copy()
        R = np.array(Hp.reflection_across().proj_data, dtype=float)
    except Exception as e:
        return {"exc": type(e).__name__, "msg": str(e)[:200], "null_kernel": nk}
    return {"R": R.tolist(), "D": D.tolist(), "null_kernel": nk}


def lean_reflect(inp, obs):
    ops = [{"op": "c15.reflect", "d": inp["d"]}]
    if "D" in obs:
        D = [[F(x) for x in row] for row in obs["D"]]
        try:
            Dinv = G.invF(D)
            ops.append({"op": "c15.reflect_literal", "n": inp["dim"] + 1, "D": [G.qv(r) for r in D], "Dinv": [G.qv(r) for r in Dinv]})
        except StopIteration:
            pass
    return ops


def judge_reflect(inp, obs, lr):
    if "exc" in obs:
        return exc(obs, "reflection", {"call_site": "utils.find_isometry", "null_kernel_vector": obs.get("null_kernel")})
    e = drv_err(lr)
    if e:
        return e
    mv = Q.decf(lr[0]["ok"])
    ktags = {"call_site": "utils.find_isometry", "null_kernel_vector": obs["null_kernel"]}
    if obs["null_kernel"]:
        ib = np.array(obs["D"])[1:]
        if np.abs(G.mink(ib, ib)).max() > 1e-6 * np.abs(ib).max() ** 2 or np.abs(ib).max() > 1e6:
            return {"expected": "ideal basis of the wall lightlike, well conditioned", "observed": ib.tolist(), "tags": ktags, "property_failure": True}
    if not close(obs["R"], mv, TOL):
        return {"expected": {"R": mv.tolist()}, "observed": obs["R"], "tags": dict(ktags, what="closed form")}
    if len(lr) > 1:
        m = lr[1]["ok"]
        if not m["inv_ok"]:
            return {"expected": "harness inverse exact", "observed": m, "tags": {"harness": True}}
        # literal inv(D) J D on the implementation's D, exactly, vs closed form on D's first row; and vs the implementation
        if float(F(m["diff"])) > 1e-9 or float(F(m["orth"])) > 1e-9:
            return {"expected": "literal = closed form up to the orthogonality residual of D", "observed": {"diff": float(F(m["diff"])), "orth": float(F(m["orth"]))},
                    "tags": {"what": "literal"}}
        if not close(obs["R"], Q.decf(m["literal"]), TOL):
            return {"expected": {"literal": Q.decf(m["literal"]).tolist()}, "observed": obs["R"], "tags": {"what": "literal vs implementation"}}
    return None


def gen_hyper(rng, n):
    for _ in range(n):
        dim = rng.choice([2, 2, 3, 4])
        yield {"dim": dim, "d": G.qv(rat_spacelike(rng, dim))}


def run_hyper(inp):
    d = G.fv(inp["d"])
    nk = null_kernel(d)
    try:
        T = np.array(H.spacelike_to(d.copy()).proj_data, dtype=float)
        Hp = H.Hyperplane(d.copy())
    except Exception as e:
        return {"exc": type(e).__name__, "msg": str(e)[:200], "null_kernel": nk}
    return {"T": T.tolist(), "data": np.array(Hp.proj_data, dtype=float).tolist(), "null_kernel": nk}


def lean_hyper(inp, obs):
    if "T" not in obs:
        return []
    return [{"op": "c15.hyperplane", "n": inp["dim"] + 1, "T": [G.qv(r) for r in obs["T"]], "normal": G.qv(obs["data"][0])}]


def judge_hyper(inp, obs, lr):
    if "exc" in obs:
        return exc(obs, "hyperplane", {"call_site": "utils.find_isometry", "null_kernel_vector": obs.get("null_kernel")})
    e = drv_err(lr)
    if e:
        return e
    dim = inp["dim"]
    T = np.array(obs["T"])
    Jm = G.J(dim)
    d = G.fv(inp["d"])
    dn = d / math.sqrt(G.mink(d, d))
    # the contract of spacelike_to
    if np.abs(T @ Jm @ T.T - Jm).max() > 1e-9 or np.abs(T[1] - dn).max() > 1e-9:
        return {"expected": "spacelike_to: form preserving, row 1 the normalised normal", "observed": [float(np.abs(T @ Jm @ T.T - Jm).max()), T[1].tolist()],
                "tags": {"what": "contract", "call_site": "utils.find_isometry", "null_kernel_vector": obs["null_kernel"]}, "property_failure": True}
    mv = Q.decf(lr[0]["ok"])
    if not close(obs["data"], mv, 1e-12):
        return {"expected": {"data": mv.tolist()}, "observed": obs["data"], "tags": {"what": "hyperplane data"}}
    return None


def std_iso(rng, dim, kind):
    """exact standard isometry (row convention) and the data describing it"""
    n = dim + 1
    L = G.identF(n)
    if kind == "rot":
        while True:
            c, s = Q.rrot(rng, 6)
            if abs(s) > F(1, 4):
                break
        L[1][1], L[1][2], L[2][1], L[2][2] = c, s, -s, c
    elif kind == "lox":
        while True:
            ch, sh, u = Q.rboost(rng, 6)
            if abs(sh) > F(1, 4):
                break
        L[0][0], L[0][1], L[1][0], L[1][1] = ch, sh, sh, ch
    elif kind == "par":
        t = F(rng.randint(1, 6), rng.randint(1, 4))
        N = [[F(0)] * n for _ in range(n)]
        N[0][2], N[1][2], N[2][0], N[2][1] = t, t, t, -t
        N2 = G.matmulF(N, N)
        L = [[L[i][j] + N[i][j] + N2[i][j] / 2 for j in range(n)] for i in range(n)]
    elif kind == "refl":
        L[1][1] = F(-1)
    elif kind == "refl_lox":      # reflection composed with a translation along its wall
        while True:
            ch, sh, u = Q.rboost(rng, 6)
            if abs(sh) > F(1, 4):
                break
        L[0][0], L[0][2], L[2][0], L[2][2] = ch, sh, sh, ch
        L[1][1] = F(-1)
    elif kind == "two_refl":
        L[1][1] = F(-1)
        L[2][2] = F(-1)
    elif kind == "point_refl_neg":
        L[0][0] = F(-1)
    elif kind == "neg_refl":
        L = [[-x for x in r] for r in L]
        L[1][1] = F(1)
    elif kind == "neg_id":
        L = [[-x for x in r] for r in L]
    elif kind == "id":
        pass
    return L


def gen_spectrum(rng, n):
    for _ in range(n):
        dim = rng.choice([2, 2, 3, 4])
        kind = rng.choice(["refl", "refl", "refl", "rot", "lox", "par", "refl_lox", "two_refl", "id", "point_refl_neg", "neg_refl", "neg_id"])
        g = G.rat_iso(rng, dim)
        L = std_iso(rng, dim, kind)
        M = G.matmulF(G.matmulF(G.invF(g), L), g)
        yield {"dim": dim, "kind": kind, "M": [G.qv(r) for r in M]}


def run_spectrum(inp):
    M = G.fm(inp["M"])
    out = {}
    try:
        Hp = H.Hyperplane.from_reflection(H.Isometry(M.copy()))
        out["accepted"] = True
        out["normal"] = np.array(Hp.spacelike_vector, dtype=float).tolist()
        # the documented bare-array input is read like Isometry(array)
        Hq = H.Hyperplane.from_reflection(M.copy())
        out["array_normal"] = np.array(Hq.spacelike_vector, dtype=float).tolist()
    except GeometryError:
        out["accepted"] = False
    return out


def lean_spectrum(inp, obs):
    # the model decides on the exact matrix: representative of non-negative trace, normal read off the largest row of M - 1,
    # comparison with the closed-form reflection in it, spacelike test
    return [{"op": "c15.refl_accept", "n": inp["dim"], "M": inp["M"], "eps": EPS}]


def judge_spectrum(inp, obs, lr):
    tags = {"kind": inp["kind"], "dim": inp["dim"]}
    if "exc" in obs:
        return exc(obs, "hyperplane or GeometryError", tags)
    e = drv_err(lr)
    if e:
        return e
    isrefl = inp["kind"] in ("refl", "neg_refl")      # R and -R are the same reflection
    if obs["accepted"] != isrefl:
        # a parabolic-times-reflection has the spectrum of a reflection; it is not generated here
        return {"expected": "accepted iff reflection", "observed": obs["accepted"], "tags": tags, "property_failure": True}
    model = lr[0]["ok"]
    if model["accept"] != obs["accepted"]:
        return {"expected": {"model accept": model["accept"]}, "observed": obs["accepted"], "tags": tags}
    if obs["accepted"]:
        # the recovered normal is negated by the reflection, and is projectively the normal the model reads off
        M = G.fm(inp["M"])
        v = np.array(obs["normal"])
        sg = -1.0 if inp["kind"] == "neg_refl" else 1.0
        if np.abs(v @ M + sg * v).max() > 1e-8:
            return {"expected": "normal is a (-1)-eigenvector of the reflection", "observed": v.tolist(), "tags": tags, "property_failure": True}
        mv = Q.decf(model["normal"])
        if not G.proj_equal(v, mv, 1e-8):
            return {"expected": {"projectively the model's normal": mv.tolist()}, "observed": v.tolist(), "tags": tags}
        w = np.array(obs["array_normal"])
        if min(np.abs(w - v).max(), np.abs(w + v).max()) > 1e-8:
            return {"expected": {"same wall from the bare array": v.tolist()}, "observed": w.tolist(),
                    "tags": dict(tags, input="ndarray"), "property_failure": True}
    return None


def gen_fix(rng, n):
    for _ in range(n):
        dim = rng.choice([2, 2, 3, 4])
        kind = rng.choice(["rot", "lox", "lox", "par", "refl_lox", "refl", "two_refl", "id"])
        g = G.rat_iso(rng, dim)
        L = std_iso(rng, dim, kind)
        M = G.matmulF(G.matmulF(G.invF(g), L), g)
        if rng.random() < 0.3:
            M = [[-x for x in r] for r in M]          # the other projective representative
        yield {"dim": dim, "kind": kind, "M": [G.qv(r) for r in M], "g": [G.qv(r) for r in g]}


def _eigen_directions(M, n):
    """The harness's own list of eigen-directions of the isometry (row convention: v M = lambda v), as the data the
    ordering model is evaluated on: numpy's eigenvectors, with the eigenvectors of each real eigenvalue +-1 replaced by
    a Minkowski-orthogonal basis of its eigenspace (svd kernel + eigh of the restricted form).  Nothing of the
    implementation is called here."""
    ev, evec = np.linalg.eig(M.T)
    ev, evec = np.array(ev, dtype=complex), np.array(evec, dtype=complex)
    Jn = G.J(n - 1)
    for sgn in (1.0, -1.0):
        u, sv, vt = np.linalg.svd(M.T - sgn * np.eye(n))
        k = int(np.sum(sv < 1e-8 * max(1.0, sv[0])))
        if k == 0:
            continue
        K = vt[n - k:].T
        _, co = np.linalg.eigh(K.T @ Jn @ K)
        idx = np.argsort(np.abs(ev - sgn))[:k]
        evec[:, idx] = K @ co
        ev[idx] = sgn
    return ev, evec


def _multiplier(v, M):
    """(lambda, residual) with v M ~ lambda v"""
    w = v @ M
    lam = float(w @ v) / float(v @ v)
    return lam, float(np.abs(w - lam * v).max() / (np.abs(v).max() * max(1.0, np.abs(M).max())))


def run_fix(inp):
    M = G.fm(inp["M"])
    n = M.shape[0]
    Jn = G.J(inp["dim"])
    ev, evec = _eigen_directions(M, n)
    norms = np.einsum("ki,ij,kj->k", evec.T, Jn, evec.T)
    # for every real eigen-direction: is it the only point of the closed ball fixed with that multiplier?  (the
    # eigenspace is a line, or the form on it is positive semidefinite with a one-dimensional radical)
    unique = []
    for k in range(n):
        if abs(ev[k].imag) > 1e-9:
            unique.append(False)
            continue
        sv = np.linalg.svd(M.T - ev[k].real * np.eye(n), compute_uv=False)
        kd = int(np.sum(sv < 1e-6 * max(1.0, sv[0])))
        if kd <= 1:
            unique.append(True)
            continue
        E = np.linalg.svd(M.T - ev[k].real * np.eye(n))[2][n - kd:].T
        gv = np.linalg.eigvalsh(E.T @ Jn @ E)
        unique.append(bool(gv[0] > -1e-7 and gv[1] > 1e-7))
    # PUBLIC interface only: fixed_point, fixed_point_pair, axis
    iso = H.Isometry(M.copy())
    fp = np.array(iso.fixed_point().proj_data, dtype=float)
    pair = np.array(iso.fixed_point_pair().proj_data, dtype=float)
    out = {"abs": np.abs(ev).tolist(), "absim": np.abs(np.imag(ev)).tolist(), "norm_re": np.real(norms).tolist(),
           "norm_im": np.imag(norms).tolist(), "unique": unique,
           "cand": np.real(evec.T).tolist(), "fp": fp.tolist(), "pair": pair.tolist()}
    if inp["kind"] in ("lox", "refl_lox"):
        ax = iso.axis()
        out["axis"] = np.array(ax.ideal_basis, dtype=float).tolist()
    return out


def lean_fix(inp, obs):
    if "abs" not in obs:
        return []
    es = [[Q.qs(a), Q.qs(b), Q.qs(c)] for a, b, c in zip(obs["abs"], obs["absim"], obs["norm_re"])]
    return [{"op": "c15.fix_order", "eps": EPS, "es": es}]


def judge_fix(inp, obs, lr):
    """the points returned by the public interface are, projectively, the eigen-directions the ordering model puts first
    (GT.C15.fixOrder_head_max: in the closed ball before outside, real before complex, larger modulus first).  Where the
    model's choice is not a single point of the closed ball (a rotation of H^n, n >= 3, fixes a whole subspace) only its
    key is compared: a fixed point of the closed ball with the same multiplier."""
    tags = {"kind": inp["kind"], "dim": inp["dim"]}
    if "exc" in obs:
        return exc(obs, "fixed points", tags)
    e = drv_err(lr)
    if e:
        return e
    M = G.fm(inp["M"])
    model = lr[0]["ok"]
    cand = np.array(obs["cand"])
    sc = 1 + np.abs(M).max() ** 2
    # a defective eigenvalue (parabolic) is only resolved to the square root of the rounding unit
    ptol = (2e-4 if inp["kind"] == "par" else 1e-7) * sc

    def inball(k):
        return not (obs["norm_re"][k] > 1e-8 or obs["absim"][k] > 1e-8)

    def compare(v, k, what):
        v = np.array(v)
        if not inball(k):
            return None          # the model's choice is not a point of the closed ball: nothing is promised
        lam, res = _multiplier(v, M)
        nv = G.mink(v, v) / float(v @ v)
        if res > ptol or abs(abs(lam) - obs["abs"][k]) > ptol * max(1.0, obs["abs"][k]) or nv > ptol:
            return {"expected": {"fixed point of the closed ball with multiplier of modulus": obs["abs"][k]},
                    "observed": {"point": v.tolist(), "multiplier": lam, "residual": res, "norm": nv},
                    "tags": dict(tags, what=what), "property_failure": True}
        if obs["unique"][k] and not G.proj_equal(v, cand[k], ptol):
            return {"expected": {"projectively the model's choice (eigen-direction %d)" % k: cand[k].tolist()},
                    "observed": v.tolist(), "tags": dict(tags, what=what)}
        return None

    r = compare(obs["fp"], model[0], "fixed_point") or compare(obs["pair"][0], model[0], "fixed_point_pair[0]") \
        or compare(obs["pair"][1], model[1], "fixed_point_pair[1]")
    if r:
        return r
    if not inball(model[0]):
        # every isometry fixes a point of the closed ball
        return {"expected": "the first eigen-direction lies in the closed ball", "observed": obs["norm_re"],
                "tags": dict(tags, what="in ball"), "property_failure": True}
    if "axis" in obs:
        ax = np.array(obs["axis"])
        if not (G.proj_equal(ax[0], obs["pair"][0], 1e-7) and G.proj_equal(ax[1], obs["pair"][1], 1e-7)):
            return {"expected": {"axis through the fixed point pair": obs["pair"]}, "observed": ax.tolist(), "tags": dict(tags, what="axis")}
    return None


# ================================================================== oracles
def gen_o_reflect(rng, n):
    for _ in range(n):
        dim = rng.choice([2, 2, 3, 4])
        shape = rng.choice([[], [], [], [2], [3], [5], [2, 2]])
        cnt = int(np.prod(shape)) if shape else 1
        ds = []
        for _ in range(cnt):
            while True:
                d = np.array([rng.gauss(0, 1) for _ in range(dim + 1)])
                d[0] *= 0.4
                if G.mink(d, d) > 0.3:
                    break
            ds.append((d * rng.choice([-1, 1]) * rng.uniform(0.3, 3)).tolist())
        if rng.random() < 0.3:
            shape = [dim + 1]          # exactly n+1 normals: needs the explicit keyword
            ds = (ds * (dim + 1))[:dim + 1] if len(ds) < dim + 1 else ds[:dim + 1]
            ds = [(np.array(x) * rng.uniform(0.5, 2) + np.array([0.0] + [rng.gauss(0, 0.2) for _ in range(dim)])).tolist() for x in ds]
            ds = [x for x in ds if G.mink(np.array(x), np.array(x)) > 0.2]
            if len(ds) < dim + 1:
                shape, ds = [], [[0.1, 1.0, 0.3] + [0.0] * (dim - 2)]
        if rng.random() < 0.15:
            # G12: the normal is a homogeneous vector: any overall size
            ds = [(np.array(x) * 10 ** rng.uniform(-9, 9)).tolist() for x in ds]
        rho = None
        if rng.random() < 0.25:
            # G12: walls at hyperbolic distance rho from the centre: normal (sinh rho, cosh rho u); the reflection matrix has
            # entries of size e^(2 rho) / 2.  (The eigenvalue test of the pinned from_reflection rejected its own reflection
            # from rho = 4.7 on; repaired.  Beyond rho = 9 reflection_across itself is only accurate to 1e-8 |R|.)
            rho = rng.uniform(2.0, 4.4) if rng.random() < 0.5 else rng.uniform(4.7, 8.5)
            ds = []
            for _ in range(int(np.prod(shape)) if shape else 1):
                u = np.array([rng.gauss(0, 1) for _ in range(dim)])
                u = u / np.linalg.norm(u)
                ds.append(([math.sinh(rho)] + (math.cosh(rho) * u).tolist()))
        ipack = None
        if rho is None and rng.random() < 0.25:
            # integral normals in every packaging of the data (integer arrays, nested lists of ints, float32)
            ds = [[float(x) for x in G.int_spacelike(rng, dim)] for _ in ds]
            ipack = rng.choice(G.DATA_PACKS)
        # G13: the normals handed over as OBJECTS (DualPoint, Point, HyperbolicObject, Hyperplane, lists of objects, the
        # spacelike complement of a Subspace) or as nested tuples / lists, single and composite
        opack = None
        if ipack is None and rng.random() < 0.4:
            opack = rng.choice(["DualPoint", "list_DualPoint", "Hyperplane", "list_Hyperplane", "Point", "HyperbolicObject",
                                "complement", "tuple", "list"])
            if opack.startswith("list_") and len(shape) != 1:
                opack = opack[5:]
        yield {"dim": dim, "shape": shape, "d": ds, "w": [rng.gauss(0, 1) for _ in range(dim + 1)],
               "normals_only": rng.random() < 0.7, "ipack": ipack, "opack": opack, "rho": rho}


def run_o_reflect(inp):
    dim, shape = inp["dim"], tuple(inp["shape"])
    d = np.array(inp["d"]).reshape(shape + (dim + 1,))
    arg = G.pack_data(d, inp["ipack"]) if inp.get("ipack") else d.copy()
    op = inp.get("opack")
    kw = {"normals_only": True} if inp.get("normals_only") else {}
    if op == "DualPoint":
        arg = H.DualPoint(d.copy())
    elif op == "list_DualPoint":
        arg = [H.DualPoint(x.copy()) for x in d]
    elif op in ("Hyperplane", "list_Hyperplane"):
        # an existing hyperplane (array of hyperplanes) is its own data: no keyword
        arg = H.Hyperplane(d.copy(), normals_only=True) if op == "Hyperplane" else [H.Hyperplane(x.copy()) for x in d]
        kw = {}
    elif op == "Point":
        arg = H.Point(d.copy())
    elif op == "HyperbolicObject":
        arg = H.HyperbolicObject(d.copy())
    elif op == "complement":
        arg = H.Subspace(np.array(H.Hyperplane(d.copy(), normals_only=True).ideal_basis, dtype=float).copy()).spacelike_complement()
    elif op == "tuple":
        arg = tuple(map(tuple, d.tolist())) if d.ndim == 2 else (tuple(d.tolist()) if d.ndim == 1 else d.tolist())
    elif op == "list":
        arg = d.tolist()
    Hp = H.Hyperplane(arg, **kw)
    out = {"shape_ok": list(Hp.shape) == list(shape)}
    if not out["shape_ok"]:
        out["shape"] = list(Hp.proj_data.shape)
        return out
    R = np.array(Hp.reflection_across().proj_data, dtype=float)
    Jm = G.J(dim)
    eye = np.eye(dim + 1)
    sc = max(1.0, float(np.abs(R).max())) ** 2      # residuals relative to the size of the products formed
    out["invol"] = float(np.abs(R @ R - eye).max()) / sc
    out["form"] = float(np.abs(R @ Jm @ np.swapaxes(R, -1, -2) - Jm).max()) / sc
    out["det"] = np.linalg.det(R).reshape(-1).tolist()
    out["det_tol"] = min(0.5, 1e-9 * sc ** ((dim + 1) / 2))       # a determinant is a sum of products of dim+1 entries
    dn = d / np.sqrt(G.mink(d, d))[..., None]
    out["normal"] = float(np.abs(np.einsum("...i,...ij->...j", dn, R) + dn).max() / (np.abs(dn).max() * math.sqrt(sc)))
    ib = np.array(Hp.ideal_basis, dtype=float)
    out["ideal_null"] = float((np.abs(np.einsum("...ki,ij,...kj->...k", ib, Jm, ib)) / np.maximum(1.0, np.einsum("...ki,...ki->...k", ib, ib))).max())
    out["ideal_fixed"] = float(np.abs(ib @ R - ib).max() / (max(1.0, np.abs(ib).max()) * math.sqrt(sc)))
    # a random point of the wall: project w off the normal
    w = np.array(inp["w"])
    wp = w - G.mink(np.broadcast_to(w, dn.shape), dn)[..., None] * dn
    out["wall_fixed"] = float(np.abs(np.einsum("...i,...ij->...j", wp, R) - wp).max() / (max(1.0, np.abs(wp).max()) * math.sqrt(sc)))
    try:
        H2 = H.Hyperplane.from_reflection(H.Isometry(R.copy()))
    except GeometryError as e:
        out["rt_rejected"] = str(e)[:80]
        return out
    n2 = np.array(H2.spacelike_vector, dtype=float)
    out["rt_shape"] = list(n2.shape) == list(dn.shape)
    if out["rt_shape"]:
        out["rt_normal"] = float((np.minimum(np.abs(n2 - dn).max(-1), np.abs(n2 + dn).max(-1)) / np.maximum(1.0, np.abs(dn).max(-1))).max())
        ib2 = np.array(H2.ideal_basis, dtype=float)
        nb2 = np.maximum(1.0, np.einsum("...ki,...ki->...k", ib2, ib2))
        out["rt_ideal"] = float(max((np.abs(np.einsum("...ki,ij,...kj->...k", ib2, Jm, ib2)) / nb2).max(),
                                    (np.abs(np.einsum("...ki,ij,...j->...k", ib2, Jm, dn)) / np.sqrt(nb2) / np.linalg.norm(dn, axis=-1)[..., None]).max()))
        R2 = np.array(H2.reflection_across().proj_data, dtype=float)
        out["rt_refl"] = float(np.abs(R2 - R).max() / math.sqrt(sc))
        if dim == 2:
            g = H.Geodesic.from_reflection(H.Isometry(R.copy()))
            e = np.array(g.endpoints, dtype=float)
            ne = np.maximum(1.0, np.einsum("...ki,...ki->...k", e, e))
            out["geo"] = float(max((np.abs(np.einsum("...ki,ij,...kj->...k", e, Jm, e)) / ne).max(),
                                   (np.abs(np.einsum("...ki,ij,...j->...k", e, Jm, dn)) / np.sqrt(ne) / np.linalg.norm(dn, axis=-1)[..., None]).max()))
    return out


def judge_o_reflect(inp, obs, lr):
    cnt = int(np.prod(inp["shape"])) if inp["shape"] else 1
    # without the keyword an array of exactly n+1 normals is (documented) read as one hyperplane's data
    square = bool(inp["shape"]) and inp["shape"][-1] == inp["dim"] + 1 and not inp.get("normals_only") \
        and inp.get("opack") not in ("Hyperplane", "list_Hyperplane")
    tags = {"composite": bool(inp["shape"]), "dim": inp["dim"], "square_shape": square, "call_site": "Hyperplane.__init__",
            "normals_only": bool(inp.get("normals_only")), "data_pack": inp.get("opack") or inp.get("ipack") or "float64",
            "far_wall": bool(inp.get("rho") and inp["rho"] > 4.6)}
    if "exc" in obs:
        return {"expected": "hyperplane(s) and reflection(s)", "observed": obs, "tags": dict(tags, exc=obs["exc"])}
    if not obs["shape_ok"]:
        return {"expected": {"one hyperplane per normal, shape": inp["shape"]}, "observed": obs.get("shape"), "tags": dict(tags, what="shape")}
    f = 1e4 if inp.get("ipack") == "float32" else 1.0       # float32 data carries 6e-8 relative error
    t = 1e-8 * f
    if not (obs["invol"] <= t and obs["form"] <= t):
        return {"expected": "involutive isometry", "observed": obs, "tags": dict(tags, what="involution")}
    if not all(abs(x + 1) <= max(1e-8 * f, obs.get("det_tol", 0.0)) for x in obs["det"]):
        return {"expected": "orientation reversing (det -1)", "observed": obs["det"], "tags": dict(tags, what="det")}
    if not obs["normal"] <= t:
        return {"expected": "normal negated", "observed": obs["normal"], "tags": dict(tags, what="normal")}
    if not (obs["ideal_null"] <= 1e-7 * f and obs["ideal_fixed"] <= 1e-7 * f and obs["wall_fixed"] <= 1e-7 * f):
        return {"expected": "wall fixed pointwise", "observed": obs, "tags": dict(tags, what="wall")}
    if "rt_rejected" in obs:
        return {"expected": "from_reflection(reflection_across(H)) = H", "observed": {"GeometryError": obs["rt_rejected"]},
                "tags": dict(tags, what="roundtrip rejected", call_site="Hyperplane.from_reflection")}
    if not (obs["rt_shape"] and obs["rt_normal"] <= 1e-7 * f and obs["rt_ideal"] <= 1e-7 * f and obs["rt_refl"] <= 1e-7 * f and obs.get("geo", 0) <= 1e-7 * f):
        return {"expected": "from_reflection(reflection_across(H)) = H", "observed": obs, "tags": dict(tags, what="roundtrip", call_site="Hyperplane.from_reflection")}
    return None


def gen_o_nonrefl(rng, n):
    for _ in range(n):
        # every dimension up to 6: which involutions are reflections depends on the parity and size of the dimension
        dim = rng.choice([2, 2, 3, 4, 5, 6])
        kind = rng.choice(["rot", "lox", "par", "refl_lox", "two_refl", "id", "refl_rot", "refl", "refl",
                           "point_refl_neg", "neg_refl", "neg_id", "half_turn", "three_refl", "neg_three_refl"])
        if kind == "refl_rot" and dim < 3:
            kind = "rot"
        if kind in ("three_refl", "neg_three_refl") and dim < 3:
            kind = "two_refl"
        a, t = rng.uniform(0.3, 2.8), rng.uniform(0.3, 3.0) * rng.choice([-1, 1])
        if rng.random() < 0.2:
            # near-reflections (wave 6): a reflection composed with a rotation of its wall / a translation along its wall by
            # 1e-6 .. 1e-3 is a non-reflection at 100 .. 1e5 times the library's own ERROR_THRESHOLD (1e-8, relative to the
            # size of the matrix) and nine to six orders of magnitude above float noise; nothing is claimed below 1e-6
            kind = "refl_rot" if dim >= 3 and rng.random() < 0.5 else "refl_lox"
            eps = 10 ** rng.uniform(-6, -3)
            a, t = eps, eps * rng.choice([-1, 1])
        yield {"dim": dim, "kind": kind, "g": G.float_iso(rng, dim).tolist(), "a": a, "t": t}


def float_std(dim, kind, a, t):
    n = dim + 1
    L = np.eye(n)
    if kind in ("rot",):
        L[1, 1], L[1, 2], L[2, 1], L[2, 2] = math.cos(a), math.sin(a), -math.sin(a), math.cos(a)
    elif kind == "refl_rot":       # reflection in x1 times a rotation in the (x2,x3)-plane of its wall
        L[1, 1] = -1
        L[2, 2], L[2, 3], L[3, 2], L[3, 3] = math.cos(a), math.sin(a), -math.sin(a), math.cos(a)
    elif kind == "lox":
        L[0, 0], L[0, 1], L[1, 0], L[1, 1] = math.cosh(t), math.sinh(t), math.sinh(t), math.cosh(t)
    elif kind == "par":
        N = np.zeros((n, n))
        N[0, 2], N[1, 2], N[2, 0], N[2, 1] = t, t, t, -t
        L = L + N + N @ N / 2
    elif kind == "refl":
        L[1, 1] = -1
    elif kind == "refl_lox":
        L[0, 0], L[0, 2], L[2, 0], L[2, 2] = math.cosh(t), math.sinh(t), math.sinh(t), math.cosh(t)
        L[1, 1] = -1
    elif kind == "two_refl":
        L[1, 1] = -1
        L[2, 2] = -1
    elif kind == "point_refl_neg":
        # x -> x - 2<x,p>/<p,p> p with p = e0 timelike: the negatively scaled representative of the point reflection
        # about the origin (a half-turn when dim = 2).  An involution with spectrum (-1,1,..,1) and no wall.
        L[0, 0] = -1
    elif kind == "neg_refl":       # the other representative of a reflection: spectrum (1,-1,..,-1)
        L = -L
        L[1, 1] = 1
    elif kind == "neg_id":
        L = -L
    elif kind == "screw":          # translation along the (x0,x1) axis times a rotation about it (dim >= 3): no eigenvalue 1
        L[0, 0], L[0, 1], L[1, 0], L[1, 1] = math.cosh(t), math.sinh(t), math.sinh(t), math.cosh(t)
        L[2, 2], L[2, 3], L[3, 2], L[3, 3] = math.cos(a), math.sin(a), -math.sin(a), math.cos(a)
    elif kind == "half_turn":      # rotation by pi about a codimension-2 subspace
        L[1, 1] = -1
        L[2, 2] = -1
    elif kind in ("three_refl", "neg_three_refl"):
        # product of three commuting reflections (dim >= 3; neither representative is a reflection):
        # an orientation-reversing involution that is not a reflection
        L[1, 1] = L[2, 2] = L[3, 3] = -1
        if kind == "neg_three_refl":
            L = -L
    return L


def run_o_nonrefl(inp):
    g = np.array(inp["g"])
    L = float_std(inp["dim"], inp["kind"], inp["a"], inp["t"])
    M = np.linalg.inv(g) @ L @ g
    normal = arr_normal = None
    try:
        normal = np.array(H.Hyperplane.from_reflection(H.Isometry(M.copy())).spacelike_vector, dtype=float).tolist()
        acc = True
    except GeometryError:
        acc = False
    try:
        # the documented bare-array input, read like Isometry(array)
        arr_normal = np.array(H.Hyperplane.from_reflection(M.copy()).spacelike_vector, dtype=float).tolist()
        acc_arr = True
    except GeometryError:
        acc_arr = False
    acc_g = None
    geo_ends = geo_ends_arr = None
    acc_g_arr = None
    if inp["dim"] == 2:
        try:
            geo_ends = np.array(H.Geodesic.from_reflection(H.Isometry(M.copy())).endpoints, dtype=float).tolist()
            acc_g = True
        except GeometryError:
            acc_g = False
        try:
            # G13: the twin entry point with the other packaging of the argument (a bare array, read like Isometry(array))
            geo_ends_arr = np.array(H.Geodesic.from_reflection(M.copy()).endpoints, dtype=float).tolist()
            acc_g_arr = True
        except GeometryError:
            acc_g_arr = False
    wrongdim = None
    if inp["dim"] != 2:
        try:
            H.Geodesic.from_reflection(H.Isometry(M.copy()))
            wrongdim = "accepted"
        except GeometryError:
            wrongdim = "GeometryError"
    return {"accepted": acc, "accepted_array": acc_arr, "accepted_geodesic": acc_g, "wrongdim": wrongdim,
            "normal": normal, "array_normal": arr_normal, "wall": g[1].tolist(),
            "accepted_geodesic_array": acc_g_arr, "geo_ends": geo_ends, "geo_ends_array": geo_ends_arr}


def judge_o_nonrefl(inp, obs, lr):
    tags = {"kind": inp["kind"], "dim": inp["dim"]}
    if "exc" in obs:
        return {"expected": "hyperplane or GeometryError", "observed": obs, "tags": dict(tags, exc=obs["exc"])}
    want = inp["kind"] in ("refl", "neg_refl")     # both projective representatives +-R of a reflection
    if obs["accepted"] != want or (obs["accepted_geodesic"] is not None and obs["accepted_geodesic"] != want):
        return {"expected": "reflections accepted, non-reflections rejected with GeometryError", "observed": obs, "tags": tags}
    if obs["accepted_array"] != want:
        return {"expected": "the same decision for the bare array", "observed": obs, "tags": dict(tags, input="ndarray")}
    if obs.get("accepted_geodesic_array") is not None and obs["accepted_geodesic_array"] != want:
        return {"expected": "Geodesic.from_reflection: the same decision for the bare array", "observed": obs, "tags": dict(tags, input="ndarray", entry="Geodesic.from_reflection")}
    if want and obs.get("geo_ends") is not None:
        dw = np.array(obs["wall"])
        Jm = G.J(inp["dim"])
        for key in ("geo_ends", "geo_ends_array"):
            for e in np.array(obs[key]):
                e = e / np.linalg.norm(e)
                if abs(e @ Jm @ e) > 1e-6 or abs(e @ Jm @ dw) / np.linalg.norm(dw) > 1e-6 * (1 + np.abs(np.array(inp["g"])).max() ** 2):
                    return {"expected": "Geodesic.from_reflection: ideal endpoints of the wall of the reflection (lightlike, orthogonal to its normal)",
                            "observed": obs[key], "tags": dict(tags, what=key, entry="Geodesic.from_reflection")}
    if want:
        d = np.array(obs["wall"])       # the reflection is g^-1 L g with L the reflection in e1: its wall is (e1 g)^perp
        d = d / np.linalg.norm(d)
        for key in ("normal", "array_normal"):
            v = np.array(obs[key])
            v = v / np.linalg.norm(v)
            if min(np.abs(v - d).max(), np.abs(v + d).max()) > 1e-6 * (1 + np.abs(np.array(inp["g"])).max() ** 2):
                return {"expected": {"normal parallel to": d.tolist()}, "observed": v.tolist(), "tags": dict(tags, what=key)}
    if obs["wrongdim"] == "accepted":
        return {"expected": "Geodesic.from_reflection rejects dimension != 2", "observed": obs, "tags": dict(tags, what="dimension")}
    return None


def gen_o_fixed(rng, n):
    for _ in range(n):
        dim = rng.choice([2, 2, 3, 4])
        # reflections, half-turns and the identity: real spectrum with an exactly repeated eigenvalue, whose eigenspace
        # contains points of the closed ball although a basis returned by eig need not
        kind = rng.choice(["rot", "lox", "lox", "par", "screw", "refl", "refl", "refl_rot", "half_turn", "id"] if dim >= 3
                          else ["rot", "lox", "lox", "par", "refl", "refl", "half_turn", "id"])
        # both projective representatives +-M of the isometry, negative parameters of the standard_* constructors
        yield {"dim": dim, "kind": kind, "g": G.float_iso(rng, dim).tolist(), "a": rng.uniform(0.3, 2.8) * rng.choice([-1, 1]),
               # G12: now and then a long translation (multiplier up to e^12)
               "t": (rng.uniform(3.0, 12.0) if rng.random() < 0.15 else rng.uniform(0.3, 3.0)) * rng.choice([-1, 1]), "col": rng.random() < 0.3,
               "sign": rng.choice([1, 1, -1]), "neg_param": rng.random() < 0.3}


def run_o_fixed(inp):
    dim = inp["dim"]
    g = np.array(inp["g"])
    if inp["kind"] == "rot":
        L = np.array(H.Isometry.standard_rotation(inp["a"], dimension=dim).proj_data, dtype=float)
    elif inp["kind"] == "lox":
        # a negative parameter gives the other projective representative of the same translation
        par = math.exp(inp["t"]) * (-1 if inp.get("neg_param") else 1)
        L = np.array(H.Isometry.standard_loxodromic(dim, par).proj_data, dtype=float)
    else:
        L = float_std(dim, inp["kind"], inp["a"], inp["t"])
    M = inp.get("sign", 1) * (np.linalg.inv(g) @ L @ g)
    iso = H.Isometry(M.T.copy(), column_vectors=True) if inp["col"] else H.Isometry(M.copy())
    fp = np.array(iso.fixed_point().proj_data, dtype=float)
    pair = np.array(iso.fixed_point_pair().proj_data, dtype=float)
    out = {"M": M.tolist(), "fp": fp.tolist(), "pair": pair.tolist()}
    # the documented options: no sorting by eigenvalue modulus (still a fixed point of the closed ball first)
    fp2 = np.array(iso.fixed_point(max_eigval=False).proj_data, dtype=float)
    pair2 = np.array(iso.fixed_point_pair(sort_eigvals=False).proj_data, dtype=float)

    def _res(v):
        v = v / np.linalg.norm(v)
        w = v @ M
        return [float(np.abs(np.outer(w, v) - np.outer(v, w)).max()), float(G.mink(v, v))]
    out["plain"] = {"fp": _res(fp2), "pair0": _res(pair2[0]), "pair1": _res(pair2[1]), "pair_shape": list(pair2.shape)}
    if inp["kind"] in ("lox", "screw"):
        out["axis"] = np.array(iso.axis().proj_data, dtype=float).tolist()
        att = np.array([1.0, 1.0 if inp["t"] > 0 else -1.0] + [0.0] * (dim - 1)) @ g
        rep = np.array([1.0, -1.0 if inp["t"] > 0 else 1.0] + [0.0] * (dim - 1)) @ g
        out["att"], out["rep"] = att.tolist(), rep.tolist()
    if inp["kind"] == "par":
        out["par_fix"] = (np.array([1.0, -1.0] + [0.0] * (dim - 1)) @ g).tolist()
    return out


def lean_o_fixed(inp, obs):
    if "M" not in obs:
        return []
    M = [[Q.qs(x) for x in r] for r in obs["M"]]
    ops = [{"op": "c15.fixed_residual", "M": M, "v": [Q.qs(x) for x in obs["fp"]]}]
    if inp["kind"] in ("lox", "screw"):
        ops += [{"op": "c15.fixed_residual", "M": M, "v": [Q.qs(x) for x in row]} for row in obs["pair"]]
    return ops


def judge_o_fixed(inp, obs, lr):
    dim, kind = inp["dim"], inp["kind"]
    loxlike = kind in ("lox", "screw")
    # eigenvalue 1 has an eigenspace of dimension >= 2 (containing spacelike fixed vectors): known finding
    tags = {"kind": kind, "dim": dim, "call_site": "Isometry.fixed_point", "eigenspace_one_dim_ge_2": kind in ("rot", "par") and dim >= 3,
            "sign": inp.get("sign", 1), "neg_param": bool(inp.get("neg_param"))}
    if "exc" in obs:
        return {"expected": "fixed point", "observed": obs, "tags": dict(tags, exc=obs["exc"])}
    e = drv_err(lr)
    if e:
        return e
    r = lr[0]["ok"]
    cross, norm = float(F(r["cross"])), float(F(r["norm"]))
    scale = max(1.0, float(np.abs(np.array(obs["M"])).max()))
    if not cross <= 1e-6 * scale:
        return {"expected": "reported point fixed by the isometry", "observed": {"cross": cross, "fp": obs["fp"]}, "tags": dict(tags, what="fixed")}
    if not norm <= 1e-6:
        return {"expected": "reported point in the closed ball", "observed": {"norm": norm, "fp": obs["fp"]}, "tags": dict(tags, what="ball")}
    if kind == "rot" and not norm < -1e-9:
        return {"expected": "interior point for an elliptic isometry", "observed": {"norm": norm}, "tags": dict(tags, what="interior")}
    pl = obs["plain"]
    if not (pl["fp"][0] <= 1e-6 * scale and pl["fp"][1] <= 1e-6 and pl["pair0"][0] <= 1e-6 * scale and pl["pair0"][1] <= 1e-6
            and (not loxlike or pl["pair1"][0] <= 1e-5 * scale)):
        return {"expected": "fixed_point(max_eigval=False) / fixed_point_pair(sort_eigvals=False): fixed points, the first in the closed ball",
                "observed": pl, "tags": dict(tags, what="unsorted option")}
    if loxlike and not (abs(pl["pair1"][1]) <= 1e-6):
        return {"expected": "loxodromic, unsorted option: both reported points are the ideal endpoints", "observed": pl, "tags": dict(tags, what="unsorted pair")}
    if kind == "par" and not G.proj_equal(obs["fp"], obs["par_fix"], 1e-4):
        return {"expected": {"the ideal fixed point": obs["par_fix"]}, "observed": obs["fp"], "tags": dict(tags, what="parabolic")}
    if loxlike:
        for k, rr in enumerate(lr[1:]):
            q = rr["ok"]
            if not (float(F(q["cross"])) <= 1e-6 * scale and abs(float(F(q["norm"]))) <= 1e-6):
                return {"expected": "both reported points fixed and ideal", "observed": {"k": k, "cross": float(F(q["cross"])), "norm": float(F(q["norm"]))},
                        "tags": dict(tags, what="pair")}
        if not (G.proj_equal(obs["pair"][0], obs["att"], 1e-6) and G.proj_equal(obs["pair"][1], obs["rep"], 1e-6)):
            return {"expected": {"attracting first": [obs["att"], obs["rep"]]}, "observed": obs["pair"], "tags": dict(tags, what="order")}
        if not G.proj_equal(obs["fp"], obs["att"], 1e-6):
            return {"expected": {"fixed_point = attracting": obs["att"]}, "observed": obs["fp"], "tags": dict(tags, what="fixed_point order")}
        ax = np.array(obs["axis"])
        if not (G.proj_equal(ax[0], obs["att"], 1e-6) and G.proj_equal(ax[1], obs["rep"], 1e-6)):
            return {"expected": "axis() spanned by the two endpoints", "observed": ax.tolist(), "tags": dict(tags, what="axis")}
    return None


# ---- composite (array-valued) isometries --------------------------------------------------------------------------
def _conj(g, L):
    return np.linalg.inv(g) @ L @ g


def gen_o_batch(rng, n):
    for _ in range(n):
        dim = rng.choice([2, 2, 3, 4])
        what = rng.choice(["reflections", "reflections", "fixed", "fixed", "mixed_reject"])
        k = rng.choice([1, 2, 3, dim + 1, 5, 8])
        units = []
        for j in range(k):
            # unconjugated standard elements, elements turned about the origin and arbitrary conjugates: eig orders
            # the eigenvectors differently for these
            gk = rng.choice(["id", "turn", "any"])
            if gk == "id":
                g = np.eye(dim + 1)
            elif gk == "turn":
                a = rng.uniform(0, 2 * math.pi)
                g = np.eye(dim + 1)
                g[1, 1], g[1, 2], g[2, 1], g[2, 2] = math.cos(a), math.sin(a), -math.sin(a), math.cos(a)
            else:
                g = G.float_iso(rng, dim)
            if what == "reflections":
                kind = "refl"
            elif what == "mixed_reject":
                kind = rng.choice(["refl", "refl", "rot", "lox", "id", "two_refl", "point_refl_neg"])
            else:
                # heterogeneous batches: elliptic, parabolic, loxodromic, screw motions (no eigenvalue 1), either representative +-M
                kind = rng.choice(["lox", "lox", "rot", "par", "screw"] if dim >= 3 else ["lox", "lox", "lox", "rot", "par"])
            units.append({"kind": kind, "g": g.tolist(), "a": rng.uniform(0.3, 2.8) * rng.choice([-1, 1]), "t": rng.uniform(0.3, 2.5) * rng.choice([-1, 1]),
                          "sign": rng.choice([1, 1, -1]) if what == "fixed" else 1})
        if what == "mixed_reject" and all(u["kind"] == "refl" for u in units):
            units[rng.randrange(k)]["kind"] = "rot"
        yield {"dim": dim, "what": what, "units": units}


def run_o_batch(inp):
    dim = inp["dim"]
    mats = np.array([u.get("sign", 1) * _conj(np.array(u["g"]), float_std(dim, u["kind"], u["a"], u["t"])) for u in inp["units"]])
    iso = H.Isometry(mats.copy())
    k = len(mats)
    out = {"k": k}
    if inp["what"] in ("reflections", "mixed_reject"):
        try:
            Hp = H.Hyperplane.from_reflection(iso)
            out["accepted"] = True
            nv = np.array(Hp.spacelike_vector, dtype=float)
            out["shape"] = list(nv.shape)
            if list(nv.shape) == [k, dim + 1]:
                out["neg_eig"] = float(np.max(np.abs(np.einsum("ki,kij->kj", nv, mats) + nv)))
                ib = np.array(Hp.ideal_basis, dtype=float)
                Jm = G.J(dim)
                out["ideal"] = float(max(np.abs(np.einsum("kai,ij,kaj->ka", ib, Jm, ib)).max(),
                                         np.abs(np.einsum("kai,kij->kaj", ib, mats) - ib).max()))
                out["refl_rt"] = float(np.abs(np.array(Hp.reflection_across().proj_data, dtype=float) - mats).max())
            if dim == 2:
                g = H.Geodesic.from_reflection(H.Isometry(mats.copy()))
                e = np.array(g.endpoints, dtype=float)
                out["geo_shape"] = list(e.shape)
                if list(e.shape) == [k, 2, 3]:
                    out["geo_fixed"] = float(np.abs(np.einsum("kai,kij->kaj", e, mats) - e).max())
        except GeometryError:
            out["accepted"] = False
        return out
    fp = np.array(iso.fixed_point().proj_data, dtype=float)
    pair = np.array(iso.fixed_point_pair().proj_data, dtype=float)
    out["fp_shape"], out["pair_shape"] = list(fp.shape), list(pair.shape)
    res = []
    if list(fp.shape) == [k, dim + 1] and list(pair.shape) == [k, 2, dim + 1]:
        for j, u in enumerate(inp["units"]):
            M, g = mats[j], np.array(u["g"])

            def resid(v):
                v = v / np.linalg.norm(v)
                w = v @ M
                return float(np.abs(np.outer(w, v) - np.outer(v, w)).max()), float(G.mink(v, v))
            rec = {"j": j, "kind": u["kind"], "fp": resid(fp[j])}
            # the member on its own (a single Isometry with the same matrix) must give the same answer
            single = H.Isometry(M.copy())
            sfp = np.real(np.array(single.fixed_point().proj_data, dtype=complex)).astype(float)
            spair = np.real(np.array(single.fixed_point_pair().proj_data, dtype=complex)).astype(float)
            rec["same_as_single"] = bool(G.proj_equal(fp[j], sfp, 1e-6) and G.proj_equal(pair[j, 0], spair[0], 1e-6)
                                         and (u["kind"] not in ("lox", "screw") or G.proj_equal(pair[j, 1], spair[1], 1e-6)))
            if u["kind"] in ("lox", "screw"):
                sgn = 1.0 if u["t"] > 0 else -1.0
                att = np.array([1.0, sgn] + [0.0] * (dim - 1)) @ g
                rep = np.array([1.0, -sgn] + [0.0] * (dim - 1)) @ g
                rec["order"] = bool(G.proj_equal(pair[j, 0], att, 1e-6) and G.proj_equal(pair[j, 1], rep, 1e-6) and G.proj_equal(fp[j], att, 1e-6))
            res.append(rec)
    out["units"] = res
    return out


def judge_o_batch(inp, obs, lr):
    dim, k = inp["dim"], len(inp["units"])
    kinds = [u["kind"] for u in inp["units"]]
    tags = {"what": inp["what"], "dim": dim, "k": k, "composite": True, "square": k == dim + 1}
    if "exc" in obs:
        return {"expected": "composite result or GeometryError", "observed": obs, "tags": dict(tags, exc=obs["exc"])}
    if inp["what"] == "mixed_reject":
        if obs["accepted"]:
            return {"expected": "a batch containing a non-reflection is rejected", "observed": kinds, "tags": tags}
        return None
    if inp["what"] == "reflections":
        if not obs["accepted"]:
            return {"expected": "a batch of reflections is accepted", "observed": "GeometryError", "tags": tags}
        if obs["shape"] != [k, dim + 1] or not (obs["neg_eig"] <= 1e-7 and obs["ideal"] <= 1e-6 and obs["refl_rt"] <= 1e-6):
            return {"expected": "one hyperplane per reflection: normal a (-1)-eigenvector, ideal basis lightlike and fixed, reflection_across gives the reflection back",
                    "observed": obs, "tags": dict(tags, check="from_reflection")}
        if dim == 2 and (obs.get("geo_shape") != [k, 2, 3] or not obs["geo_fixed"] <= 1e-6):
            return {"expected": "one geodesic per reflection, endpoints fixed", "observed": obs, "tags": dict(tags, check="geodesic")}
        return None
    if obs["fp_shape"] != [k, dim + 1] or obs["pair_shape"] != [k, 2, dim + 1]:
        return {"expected": "one fixed point / pair per isometry", "observed": [obs["fp_shape"], obs["pair_shape"]], "tags": dict(tags, check="shape")}
    for rec in obs["units"]:
        cross, norm = rec["fp"]
        if not (cross <= 1e-5 and norm <= 1e-6):
            return {"expected": "every unit: reported point fixed by its own isometry, in the closed ball", "observed": rec, "tags": dict(tags, check="fixed", kind=rec["kind"])}
        if rec["kind"] == "rot" and not norm < -1e-9:
            return {"expected": "elliptic unit: interior point", "observed": rec, "tags": dict(tags, check="interior")}
        if not rec.get("same_as_single", True):
            return {"expected": "every member of the array answers like the same isometry on its own", "observed": rec, "tags": dict(tags, check="member vs single", kinds=kinds)}
        if rec["kind"] in ("lox", "screw") and not rec["order"]:
            return {"expected": "loxodromic unit: its own two ideal endpoints, attracting first", "observed": rec, "tags": dict(tags, check="order")}
    return None


# ---- reflections across subspaces given by an ideal basis (Subspace / Geodesic, not Hyperplane) --------------------
def gen_o_subrefl(rng, n):
    for _ in range(n):
        dim = rng.choice([2, 2, 3, 4])
        shape = rng.choice([[], [], [2], [3]])
        cnt = int(np.prod(shape)) if shape else 1
        units = []
        for _ in range(cnt):
            if rng.random() < 0.25:
                # a wall through the origin of the ball (for a geodesic: antipodal endpoints)
                nu = np.array(G.fsphere(rng, dim))
                while True:
                    ks = []
                    for _ in range(dim):
                        x = np.array(G.fsphere(rng, dim))
                        x = x - np.dot(x, nu) * nu
                        ks.append(x / np.linalg.norm(x))
                    ks = np.array(ks)
                    if dim == 2:
                        ks[1] = -ks[0]
                    if np.linalg.svd(np.vstack([ks, nu]), compute_uv=False)[-1] > 0.2 or dim == 2:
                        break
                units.append(ks.tolist())
                continue
            while True:
                ks = np.array([G.fsphere(rng, dim) for _ in range(dim)])
                T = ks[1:] - ks[0]
                if np.linalg.svd(T, compute_uv=False)[-1] > 0.3:
                    foot = ks[0] - ks[0] @ np.linalg.pinv(T) @ T
                    if 0.15 < np.linalg.norm(foot) < 0.95:
                        break
            units.append(ks.tolist())
        yield {"dim": dim, "shape": shape, "units": units, "kind": rng.choice(["subspace", "geodesic"]) if dim == 2 else "subspace",
               "s": [rng.uniform(0.4, 2.5) for _ in range(dim)], "lowdim": rng.random() < 0.15 and dim >= 3}


def run_o_subrefl(inp):
    dim, shape = inp["dim"], tuple(inp["shape"])
    K = np.array(inp["units"]).reshape(shape + (dim, dim))
    data = np.concatenate([np.ones(shape + (dim, 1)), K], axis=-1) * np.array(inp["s"]).reshape((dim, 1))
    if inp["lowdim"]:
        try:
            H.Subspace(data[..., :-1, :].copy()).reflection_across()
            return {"lowdim": "accepted"}
        except GeometryError:
            return {"lowdim": "GeometryError"}
    if inp["kind"] == "geodesic":
        obj = H.Geodesic(H.IdealPoint(data[..., 0, :].copy()), H.IdealPoint(data[..., 1, :].copy()))
    else:
        obj = H.Subspace(data.copy())
    R = np.array(obj.reflection_across().proj_data, dtype=float)
    Jm = G.J(dim)
    out = {"shape_ok": list(R.shape) == list(shape + (dim + 1, dim + 1))}
    if not out["shape_ok"]:
        out["shape"] = list(R.shape)
        return out
    out["invol"] = float(np.abs(R @ R - np.eye(dim + 1)).max())
    out["form"] = float(np.abs(R @ Jm @ np.swapaxes(R, -1, -2) - Jm).max())
    out["det"] = float(np.max(np.abs(np.linalg.det(R) + 1)))
    out["wall"] = float(np.abs(data @ R - data).max())
    d = np.array(obj.spacelike_complement().proj_data, dtype=float)
    dn = d / np.linalg.norm(d, axis=-1, keepdims=True)
    out["normal_spacelike"] = float(np.min(G.mink(dn, dn)))
    out["normal_orth"] = float(np.abs(np.einsum("...ki,ij,...j->...k", data, Jm, dn)).max())
    out["normal_neg"] = float(np.abs(np.einsum("...i,...ij->...j", dn, R) + dn).max())
    return out


def judge_o_subrefl(inp, obs, lr):
    tags = {"dim": inp["dim"], "kind": inp["kind"], "composite": bool(inp["shape"]), "call_site": "Subspace.reflection_across"}
    if "exc" in obs:
        return {"expected": "reflection across the subspace", "observed": obs, "tags": dict(tags, exc=obs["exc"])}
    if "lowdim" in obs:
        if obs["lowdim"] != "GeometryError":
            return {"expected": "no reflection across a subspace of codimension > 1 (GeometryError)", "observed": obs, "tags": dict(tags, what="lowdim")}
        return None
    if not obs["shape_ok"]:
        return {"expected": "one reflection per subspace", "observed": obs.get("shape"), "tags": dict(tags, what="shape")}
    if not (obs["invol"] <= 1e-7 and obs["form"] <= 1e-7 and obs["det"] <= 1e-7 and obs["wall"] <= 1e-7):
        return {"expected": "involutive, orientation-reversing isometry fixing the ideal basis of the wall", "observed": obs, "tags": dict(tags, what="reflection")}
    if not (obs["normal_spacelike"] > 1e-6 and obs["normal_orth"] <= 1e-7 and obs["normal_neg"] <= 1e-7):
        return {"expected": "spacelike_complement: spacelike, orthogonal to the subspace, negated by the reflection", "observed": obs, "tags": dict(tags, what="normal")}
    return None


# ---- histories on isometries and hyperplanes: query, derive / overwrite, query again --------------------------------
HI_OPS = ["query", "query", "left", "right", "setitem", "set", "flatten", "inv", "getitem"]


def _hi_unit(rng, dim):
    kind = rng.choice(["lox", "lox", "rot", "par", "screw"] if dim >= 3 else ["lox", "lox", "lox", "rot", "par"])
    return {"kind": kind, "g": G.float_iso(rng, dim).tolist(), "a": rng.uniform(0.4, 2.7) * rng.choice([-1, 1]),
            "t": rng.uniform(0.4, 2.0) * rng.choice([-1, 1]), "sign": rng.choice([1, 1, 1, -1])}


def _hi_mat(dim, u):
    return u.get("sign", 1) * _conj(np.array(u["g"]), float_std(dim, u["kind"], u["a"], u["t"]))


def gen_o_hist_iso(rng, n):
    for _ in range(n):
        dim = rng.choice([2, 2, 3])
        cnt = rng.choice([0, 0, 2, 3])
        steps = [{"op": "query"}]
        for _ in range(rng.randint(3, 6)):
            op = rng.choice(HI_OPS)
            st = {"op": op}
            if op in ("left", "right", "setitem", "set"):
                st["u"] = _hi_unit(rng, dim)
                st["i"] = rng.randrange(max(cnt, 1))
            elif op == "getitem":
                st["i"] = rng.randrange(max(cnt, 1))
            steps.append(st)
        steps.append({"op": "query"})
        for st in steps:
            if rng.random() < 0.35:
                st["other"] = dict(_hi_unit(rng, dim), by=_hi_unit(rng, dim))
        yield {"dim": dim, "cnt": cnt, "units": [_hi_unit(rng, dim) for _ in range(max(cnt, 1))], "steps": steps,
               "what": rng.choice(["isometry", "isometry", "hyperplane"])}


def _fix_arrays(iso, spoil=False):
    """the arrays behind fixed_point / fixed_point_pair / axis; with spoil the returned arrays are overwritten (G2)"""
    n = np.array(iso.proj_data).shape[-1]
    outs = []
    for obj in (iso.fixed_point(), iso.fixed_point_pair(), iso.axis()):
        a = obj.proj_data
        outs.append(np.real(np.array(a)).astype(float).copy())
        if spoil and isinstance(a, np.ndarray) and a.flags.writeable:
            a[...] = np.nan
    return outs[0].reshape((-1, n)), outs[1].reshape((-1, 2, n)), outs[2].reshape((-1, 2, n))


def _rays_equal(a, b, tol=1e-6):
    a, b = a.reshape((-1, a.shape[-1])), b.reshape((-1, b.shape[-1]))
    return a.shape == b.shape and all(G.proj_equal(x, y, tol) for x, y in zip(a, b))


def _fix_report(iso, arrays=None):
    """what the library reports for every unit of a (possibly composite) isometry, judged against the CURRENT matrices"""
    mats = np.array(iso.proj_data, dtype=float)
    n = mats.shape[-1]
    flat = mats.reshape((-1, n, n))
    fp, pair, ax = arrays if arrays is not None else _fix_arrays(iso)
    out = []
    for j, M in enumerate(flat):
        ev = np.linalg.eigvals(M)
        amax = float(np.max(np.abs(ev)))
        lox = bool(amax > 1.05)
        unclear = bool(1 + 1e-4 < amax <= 1.05)

        def res(v):
            v = v / np.linalg.norm(v)
            w = v @ M
            mu = float(w @ v)
            return float(np.abs(w - mu * v).max()), float(G.mink(v, v)), mu
        r0 = res(fp[j])
        rec = {"j": j, "lox": lox, "unclear": unclear, "fp_res": r0[0], "fp_norm": r0[1], "scale": float(np.abs(M).max())}
        if lox:
            ra, rb = res(pair[j, 0]), res(pair[j, 1])
            rec.update({"pair_res": max(ra[0], rb[0]), "pair_norm": max(abs(ra[1]), abs(rb[1])), "mu": [abs(ra[2]), abs(rb[2])], "fp_mu": abs(r0[2]),
                        "axis_same": bool(G.proj_equal(ax[j, 0], pair[j, 0], 1e-9) and G.proj_equal(ax[j, 1], pair[j, 1], 1e-9))})
        out.append(rec)
    return out


def run_o_hist_iso(inp):
    dim, cnt = inp["dim"], inp["cnt"]
    mats = np.array([_hi_mat(dim, u) for u in inp["units"]])
    log = []
    if inp["what"] == "hyperplane":
        # a wall, its reflection and the recovered wall along a history of moves
        d = np.array([0.2, 1.0, 0.3] + [0.1] * (dim - 2))
        Hp = H.Hyperplane(d.copy())
        for k, st in enumerate(inp["steps"]):
            if st["op"] in ("left", "right", "set", "setitem"):
                g = H.Isometry(_hi_mat(dim, st["u"]))
                Hp = g @ Hp if st["op"] != "set" else Hp
                if st["op"] == "set":
                    Hp.set(np.array((g @ Hp).proj_data, dtype=float).copy())
            elif st["op"] == "query":
                Robj = Hp.reflection_across()
                R = np.array(Robj.proj_data, dtype=float).copy()
                if isinstance(Robj.proj_data, np.ndarray) and Robj.proj_data.flags.writeable:
                    Robj.proj_data[...] = np.nan          # G2: overwrite what was handed out, then ask again
                R_again = np.array(Hp.reflection_across().proj_data, dtype=float)
                R_fresh = np.array(H.Hyperplane(np.array(Hp.proj_data, dtype=float).copy()).reflection_across().proj_data, dtype=float)   # G1
                data = np.array(Hp.proj_data, dtype=float)
                sc = float(max(1.0, np.abs(R).max()))
                try:
                    H2 = H.Hyperplane.from_reflection(H.Isometry(R.copy()))
                    rt = bool(G.proj_equal(np.array(H2.spacelike_vector, dtype=float), data[0], 1e-7 * sc))
                except GeometryError:
                    # the acceptance threshold 1e-8 is absolute: a wall far from the origin has a reflection with large entries
                    rt = sc > 20
                log.append({"k": k, "op": "query", "wall_fixed": float(np.abs(data[1:] @ R - data[1:]).max() / (sc * max(1.0, np.abs(data).max()))),
                            "normal_neg": float(np.abs(data[0] @ R + data[0]).max() / sc), "roundtrip": rt, "scale": sc,
                            "stable": bool(np.array_equal(R, R_again)), "fresh_same": bool(np.abs(R - R_fresh).max() <= 1e-7 * sc * sc)})
        return {"log": log}
    iso = H.Isometry(mats.copy() if cnt else mats[0].copy())
    for k, st in enumerate(inp["steps"]):
        op = st["op"]
        oth = st.get("other")
        if oth is not None:
            # G3: an unrelated isometry queried, moved and queried again in between
            B = H.Isometry(_hi_mat(dim, oth))
            B.fixed_point_pair()
            B2 = H.Isometry(_hi_mat(dim, oth["by"])) @ B
            log.append({"k": k, "op": "other", "units": _fix_report(B2), "fresh_same": True, "stable": True})
        if op == "query":
            arr1 = _fix_arrays(iso, spoil=True)                                   # G2: returned arrays overwritten ...
            arr2 = _fix_arrays(iso)                                               # ... and the query repeated
            arr3 = _fix_arrays(H.Isometry(np.array(iso.proj_data, dtype=float).copy()))   # G1: fresh object, same data
            mats_now = np.array(iso.proj_data, dtype=float)
            clear = all(not (1 + 1e-4 < np.max(np.abs(np.linalg.eigvals(M))) <= 1.05) for M in mats_now.reshape((-1,) + mats_now.shape[-2:]))
            log.append({"k": k, "op": op, "units": _fix_report(iso, arr1),
                        "fresh_same": bool((not clear) or (_rays_equal(arr1[0], arr3[0]) and _rays_equal(arr1[1][:, 0], arr3[1][:, 0]))),
                        "stable": bool(all(np.array_equal(x, y) for x, y in zip(arr1, arr2)))})
        elif op == "left":
            iso = H.Isometry(_hi_mat(dim, st["u"])) @ iso
        elif op == "right":
            iso = iso @ H.Isometry(_hi_mat(dim, st["u"]))
        elif op == "inv":
            iso = iso.inv()
        elif op == "flatten":
            iso = iso.flatten_to_unit()
        elif op == "getitem":
            if len(iso.shape) >= 1:
                iso = iso[st["i"] % iso.shape[0]:][:2]
        elif op == "setitem":
            if len(iso.shape) >= 1:
                iso[st["i"] % iso.shape[0]] = H.Isometry(_hi_mat(dim, st["u"]))
        elif op == "set":
            if len(iso.shape) == 0:
                iso.set(_hi_mat(dim, st["u"]))
    return {"log": log}


def judge_o_hist_iso(inp, obs, lr):
    ops = [st["op"] for st in inp["steps"]]
    tags = {"dim": inp["dim"], "composite": bool(inp["cnt"]), "what": inp["what"]}
    if "exc" in obs:
        return {"expected": "history runs", "observed": obs, "tags": dict(tags, exc=obs["exc"], ops=ops[:7])}
    for e in obs["log"]:
        before = [o for o in ops[:e["k"]] if o != "query"][-2:]
        t = dict(tags, after=before, queried_before=ops[:e["k"]].count("query") > 0)
        if inp["what"] == "hyperplane":
            if not (e["wall_fixed"] <= 1e-6 and e["normal_neg"] <= 1e-6 and e["roundtrip"] and e["stable"] and e["fresh_same"]):
                return {"expected": "reflection across the CURRENT wall; from_reflection gives it back", "observed": e, "tags": t}
            continue
        if not (e.get("fresh_same", True) and e.get("stable", True)):
            return {"expected": "same fixed points as a fresh isometry with the same matrix; overwriting returned arrays changes nothing",
                    "observed": {"fresh_same": e.get("fresh_same"), "stable": e.get("stable")}, "tags": dict(t, check="fresh/stable")}
        for u in e["units"]:
            # products of random elements are almost surely loxodromic or elliptic; the degenerate-eigenspace cases need dim >= 3 rotations
            if u["unclear"] or u["scale"] > 1e4:
                continue        # translation length below 0.05 or huge entries: classification / conditioning not reliable
            if not (u["fp_res"] <= 1e-5 and u["fp_norm"] <= 1e-5):
                return {"expected": "reported fixed point fixed by the CURRENT isometry, in the closed ball", "observed": u, "tags": dict(t, check="fixed_point")}
            if u["lox"] and not (u["pair_res"] <= 1e-5 and u["pair_norm"] <= 1e-5 and u["mu"][0] > 1 + 1e-7 and u["mu"][1] < 1 - 1e-7
                                 and u["fp_mu"] > 1 + 1e-7 and u["axis_same"]):
                return {"expected": "loxodromic: the CURRENT isometry's two ideal endpoints, attracting first; axis() spanned by them", "observed": u,
                        "tags": dict(t, check="pair")}
    return None


TRIANGLES = [(2, 3, 7), (2, 4, 5), (3, 3, 4), (2, 3, 8), (4, 4, 4), (2, 5, 5), (3, 4, 5), (2, 3, 12)]


def gen_o_coxeter(rng, n):
    for i in range(n):
        tri = TRIANGLES[i % len(TRIANGLES)]
        word = "".join(rng.choice("abc") for _ in range(rng.randint(0, 5)))
        yield {"tri": list(tri), "gen": rng.choice("abc"), "word": word, "gen2": rng.choice(["ab", "bc", "ac", "ba", "ca", "cb"]),
               "word2": "".join(rng.choice("abc") for _ in range(rng.randint(1, 7)))}


def run_o_coxeter(inp):
    grp = coxeter.TriangleGroup(tuple(inp["tri"]))
    rep = grp.hyperbolic_rep()
    w = inp["word"]
    conj = w + inp["gen"] + w[::-1]            # generators are involutions: inverse of a word is its reverse
    R = rep.isometries([conj])[0] if hasattr(rep, "isometries") else rep[conj]
    M = np.array(R.proj_data, dtype=float)
    Jm = G.J(2)
    out = {"form": float(np.abs(M @ Jm @ M.T - Jm).max()), "invol": float(np.abs(M @ M - np.eye(3)).max()), "det": float(np.linalg.det(M))}
    Hp = H.Hyperplane.from_reflection(H.Isometry(M.copy()))
    R2 = np.array(Hp.reflection_across().proj_data, dtype=float)
    out["rt"] = float(np.abs(R2 - M).max())
    out["scale"] = float(np.abs(M).max())
    g = H.Geodesic.from_reflection(H.Isometry(M.copy()))
    e = np.array(g.endpoints, dtype=float)
    out["wall"] = float(np.abs(e @ M - e).max() / max(1.0, np.abs(e).max()))
    # fixed points of group elements: the conjugated generator (a reflection: eigenvalue 1 exactly repeated), a conjugated
    # product of two generators (a rotation of exact finite order, or a half-turn with eigenvalue -1 repeated) and a word;
    # every isometry fixes a point of the closed ball, and fixed_point() must return one.  Then the three together as ONE
    # composite isometry of mixed kinds (G16): member i answers like the single isometry.
    g2 = inp.get("gen2") or "ab"
    words = [conj, w + g2 + w[::-1], inp.get("word2") or (w + g2 + inp["gen"])]
    fps = []
    for wd in words:
        Mi = np.array(rep.isometries([wd]).proj_data, dtype=float)[0]
        v = np.array(H.Isometry(Mi.copy()).fixed_point().proj_data, dtype=float)
        v = v / np.linalg.norm(v)
        wv = v @ Mi
        fps.append({"word": wd, "cross": float(np.abs(np.outer(wv, v) - np.outer(v, wv)).max()), "norm": float(G.mink(v, v)),
                    "scale": float(np.abs(Mi).max()), "v": v.tolist()})
    out["fps"] = fps
    comp = np.array(rep.isometries(words).fixed_point().proj_data, dtype=float)
    out["comp_shape"] = list(comp.shape)
    if list(comp.shape) == [3, 3]:
        res = []
        for v, wd in zip(comp, words):
            Mi = np.array(rep.isometries([wd]).proj_data, dtype=float)[0]
            v = v / np.linalg.norm(v)
            wv = v @ Mi
            res.append([float(np.abs(np.outer(wv, v) - np.outer(v, wv)).max()), float(G.mink(v, v))])
        out["comp"] = res
    # all generators taken together (a composite of exactly dim+1 reflections)
    gens = rep.isometries(["a", "b", "c"])
    Gm = np.array(gens.proj_data, dtype=float)
    Hg = H.Hyperplane.from_reflection(gens)
    nv = np.array(Hg.spacelike_vector, dtype=float)
    out["gens_shape"] = list(nv.shape)
    if list(nv.shape) == [3, 3]:
        out["gens_rt"] = float(np.abs(np.array(Hg.reflection_across().proj_data, dtype=float) - Gm).max())
    return out


def judge_o_coxeter(inp, obs, lr):
    tags = {"tri": inp["tri"], "len": len(inp["word"])}
    if "exc" in obs:
        return {"expected": "reflection of a Coxeter representation accepted", "observed": obs, "tags": dict(tags, exc=obs["exc"])}
    s = obs["scale"] ** 2
    if not (obs["form"] <= 1e-8 * s and obs["invol"] <= 1e-8 * s and abs(obs["det"] + 1) <= 1e-7 * s):
        return {"expected": "involutive orientation-reversing isometry", "observed": obs, "tags": dict(tags, what="reflection")}
    if not (obs["rt"] <= 1e-6 * s and obs["wall"] <= 1e-6 * s):
        return {"expected": "reflection_across(from_reflection(R)) = R, wall fixed", "observed": obs, "tags": dict(tags, what="roundtrip")}
    for k, fpi in enumerate(obs["fps"]):
        s2 = max(1.0, fpi["scale"]) ** 2
        if not (fpi["cross"] <= 1e-7 * s2 and fpi["norm"] <= 1e-7 * s2):
            return {"expected": "fixed_point() of a group element: fixed, in the closed ball", "observed": fpi,
                    "tags": dict(tags, what="fixed point", element=["reflection", "product of two generators", "word"][k])}
        if obs["comp_shape"] != [3, 3] or not (obs["comp"][k][0] <= 1e-7 * s2 and obs["comp"][k][1] <= 1e-7 * s2):
            return {"expected": "the same for the three elements as one composite isometry", "observed": [obs["comp_shape"], obs.get("comp")],
                    "tags": dict(tags, what="composite fixed points", member=k)}
    if obs["gens_shape"] != [3, 3] or not obs["gens_rt"] <= 1e-6:
        return {"expected": "the three generators together: three hyperplanes, round trip", "observed": obs, "tags": dict(tags, what="generators together")}
    return None


CLAUSES = [
    Clause("reflect_corr", "corr", gen_reflect, run_reflect, judge_reflect, lean=lean_reflect, site="hyperbolic.Subspace.reflection_across",
           budget={"quick": 120, "thorough": 3000},
           what="Hyperplane(d).reflection_across() vs Lean reflMat d over Q; literal inv(D) J D evaluated exactly on the implementation's D (exact inverse) vs closed form"),
    Clause("hyperplane_corr", "corr", gen_hyper, run_hyper, judge_hyper, lean=lean_hyper, site="hyperbolic.Hyperplane._compute_ideal_basis",
           budget={"quick": 100, "thorough": 2000},
           what="Hyperplane(d).proj_data vs Lean hyperplaneData on the implementation's own spacelike_to matrix (sent exactly); spacelike_to contract residual"),
    Clause("spectrum_corr", "corr", gen_spectrum, run_spectrum, judge_spectrum, lean=lean_spectrum, site="hyperbolic.Hyperplane.from_reflection",
           budget={"quick": 150, "thorough": 3000},
           what="from_reflection accept/reject and the recovered normal on exact conjugates (reflection and -reflection, rotation, loxodromic, parabolic, glide reflection, two reflections, identity, point reflection) vs Lean fromReflectionAccepts / reflNormal evaluated on the exact matrix"),
    Clause("fixorder_corr", "corr", gen_fix, run_fix, judge_fix, lean=lean_fix, site="hyperbolic.Isometry.fixed_point",
           budget={"quick": 150, "thorough": 3000},
           what="fixed_point / fixed_point_pair / axis (public interface only) are projectively the eigen-directions Lean fixOrder puts first on the harness's own spectral data; key-level comparison where the choice is not a single point"),
    Clause("reflection_oracle", "oracle", gen_o_reflect, run_o_reflect, judge_o_reflect, site="hyperbolic.Subspace.reflection_across",
           budget={"quick": 200, "thorough": 6000},
           what="single and composite spacelike normals dims 2-4: involutive, form preserving, det -1, wall fixed pointwise, normal negated, from_reflection round trip (Hyperplane; Geodesic in dim 2)"),
    Clause("nonreflection_oracle", "oracle", gen_o_nonrefl, run_o_nonrefl, judge_o_nonrefl, site="hyperbolic.Hyperplane.from_reflection",
           budget={"quick": 800, "thorough": 8000}, what="conjugates of non-reflections (incl. near-reflections: a reflection times a rotation / translation of its wall by 1e-6..1e-3) raise GeometryError, reflections accepted; Geodesic.from_reflection only in dimension 2"),
    Clause("fixed_oracle", "oracle", gen_o_fixed, run_o_fixed, judge_o_fixed, lean=lean_o_fixed, site="hyperbolic.Isometry.fixed_point",
           budget={"quick": 250, "thorough": 8000},
           what="conjugates of standard rotations / loxodromics / parabolics: fixed (residual evaluated exactly in Lean), closed ball, interior for elliptic, two ideal endpoints attracting first, axis"),
    Clause("batch_oracle", "oracle", gen_o_batch, run_o_batch, judge_o_batch, site="hyperbolic.Isometry._fixpoint_data",
           budget={"quick": 150, "thorough": 5000},
           what="array-valued isometries (1-8 units incl. exactly dim+1; standard, turned and arbitrarily conjugated members, both signs of the translation): "
                "from_reflection / Geodesic.from_reflection per unit, batches containing a non-reflection rejected, fixed_point / fixed_point_pair per unit"),
    Clause("subspace_reflection_oracle", "oracle", gen_o_subrefl, run_o_subrefl, judge_o_subrefl, site="hyperbolic.Subspace.reflection_across",
           budget={"quick": 120, "thorough": 4000},
           what="Subspace(ideal basis of n points) / Geodesic (dim 2), single and composite: reflection_across involutive, form preserving, det -1, fixes the ideal basis; "
                "spacelike_complement spacelike, orthogonal, negated; lower-dimensional subspaces refused"),
    Clause("history_oracle", "oracle", gen_o_hist_iso, run_o_hist_iso, judge_o_hist_iso, site="hyperbolic.Isometry._fixpoint_data",
           budget={"quick": 150, "thorough": 5000},
           what="histories on single and composite isometries: fixed_point / fixed_point_pair / axis, then L @ A, A @ L, inv, isos[i] = other, set, flatten_to_unit, "
                "slicing, then the queries again, judged against the current matrices; the same for a hyperplane moved by isometries (reflection_across, from_reflection)"),
    Clause("coxeter_oracle", "oracle", gen_o_coxeter, run_o_coxeter, judge_o_coxeter, site="hyperbolic.Hyperplane.from_reflection",
           budget={"quick": 40, "thorough": 400}, what="reflections w a w^-1 of hyperbolic triangle-group representations: accepted, round trip, wall fixed"),
]
