"""C20 — CP^1 points, disks and Moebius maps are consistent on the Riemann sphere (DESIGN §4 C20)."""
import math, cmath
from fractions import Fraction as F
import numpy as np
from vlib.runner import Clause
from vlib import q as Q
from vlib.canon import close, err, proj_close, finite
from geometry_tools import complex_projective as CP, projective as P, utils

import builtins as _bi


def max(*args, **kw):      # noqa: A001 - a NaN anywhere is a failure, never silently dropped by the comparison order
    vals = list(args[0]) if len(args) == 1 else list(args)
    if any(isinstance(v, (float, np.floating)) and v != v for v in vals):
        return float("inf")
    return _bi.max(vals, **kw)


LEVEL = "proof"
EXPLANATION = (
    "Lean (complex numbers as pairs over any ordered field, executed over Q(i)): spherical<->homogeneous coordinates are inverse "
    "in both charts incl. infinity and agree with stereographic projection; circle_through returns the circle through three points, "
    "so a disk built from (centre, r) reports (centre, r) (repaired) resp. centre/|centre| (pinned, proved); cross-ratio is "
    "GL2-invariant and its imaginary part is -det*(|z-c|^2-R)/positive, so Moebius maps send the boundary circle to the circle "
    "through the image triple and preserve sides; inversion is an involution independent of the square root, negates the "
    "cross-ratio (complement lies on the other side, complement twice is the identity); the mask plumbing of contains/intersects "
    "gives every pair its case-table answer (elementwise with NumPy's mask-assignment semantics, pairwise), with the pinned "
    "intersects proved wrong; the case table is proved to be the set-theoretic answer for circles in general position "
    "(contains_logic / intersects_logic).  Fubini-Study constructions are oracle-tested only.  Exact Q(i) correspondence of every formula + float oracles.")
ASSUMPTIONS = [
    "Fubini-Study constructions (QR factorisation, cos/sin/arctan/tan) are oracle-tested only",
    "general position: margins >= 0.1 between circles in the containment/intersection reference",
    "IEEE rounding within tolerance on centres |c| <= 4, radii in [0.1, 4], |det M| >= 0.2",
]


# ------------------------------------------------------------------------------------------------
# helpers: Gaussian rationals
# ------------------------------------------------------------------------------------------------
def qc(z):
    return [Q.qs(z[0]), Q.qs(z[1])]


def fc(z):
    return complex(float(z[0]), float(z[1]))


def rqi(rng, num=6, den=3, nonzero=False):
    while True:
        z = (F(rng.randint(-num, num), rng.randint(1, den)), F(rng.randint(-num, num), rng.randint(1, den)))
        if not nonzero or z != (0, 0):
            return z


def cmulq(a, b):
    return (a[0] * b[0] - a[1] * b[1], a[0] * b[1] + a[1] * b[0])


def csubq(a, b):
    return (a[0] - b[0], a[1] - b[1])


def decc(j):
    return complex(float(F(j[0])), float(F(j[1])))


def decpt(j):
    return np.array([decc(j[0]), decc(j[1])])


PYTH = [(3, 4, 5), (5, 12, 13), (8, 15, 17), (7, 24, 25), (20, 21, 29)]


def rcentre(rng):
    """rational centre whose modulus is rational (so the unit direction is rational)"""
    k = rng.random()
    if k < 0.12:
        return (F(0), F(0))
    a, b, c = rng.choice(PYTH)
    s = F(rng.randint(1, 12), rng.randint(1, 4) * c)
    x, y = a * s * rng.choice([-1, 1]), b * s * rng.choice([-1, 1])
    if rng.random() < 0.5:
        x, y = y, x
    if rng.random() < 0.15:
        x, y = F(rng.randint(1, 6), rng.randint(1, 3)) * rng.choice([-1, 1]), F(0)
    return (x, y)


def rgl2(rng):
    while True:
        M = [[rqi(rng, 4, 2), rqi(rng, 4, 2)], [rqi(rng, 4, 2), rqi(rng, 4, 2)]]
        det = csubq(cmulq(M[0][0], M[1][1]), cmulq(M[0][1], M[1][0]))
        if det[0] * det[0] + det[1] * det[1] >= F(1, 20):
            return M


# ------------------------------------------------------------------------------------------------
# S2a: spherical <-> projective
# ------------------------------------------------------------------------------------------------
def gen_sph(rng, n):
    for i in range(n):
        k = rng.choice([1, 1, 2, 3])
        pts = []
        for _ in range(k):
            c = rng.random()
            if c < 0.1:
                pts.append(((F(0), F(0)), rqi(rng, nonzero=True)))        # infinity
            elif c < 0.2:
                pts.append((rqi(rng, nonzero=True), (F(0), F(0))))        # origin
            else:
                z0, z1 = rqi(rng), rqi(rng)
                if z0 == (0, 0) and z1 == (0, 0):
                    z1 = (F(1), F(0))
                pts.append((z0, z1))
        sph = []
        for _ in range(k):
            c = rng.random()
            if c < 0.1:
                sph.append([F(0), F(0), F(1)])
            elif c < 0.2:
                sph.append([F(0), F(0), F(-1)])
            elif c < 0.3:
                c_, s_ = Q.rrot(rng)
                sph.append([c_, s_, F(0)])                                  # the equator: boundary between the charts
            else:
                sph.append(Q.rsphere(rng, 3))
        yield {"pts": [[qc(a), qc(b)] for a, b in pts], "sph": [[Q.qs(x) for x in s] for s in sph], "scalar": k == 1 and rng.random() < 0.5}


def run_sph(inp):
    pa = np.array([[decc(a), decc(b)] for a, b in inp["pts"]])
    sa = np.array([[float(F(x)) for x in s] for s in inp["sph"]])
    if inp["scalar"]:
        pa, sa = pa[0], sa[0]
    s_out = CP.CP1Point(pa).spherical_coords()
    p_out = CP.CP1Point(sa, coords="spherical").proj_data
    return {"p2s": np.asarray(s_out, float).reshape(-1, 3).tolist(),
            "s2p": [[[z.real, z.imag] for z in row] for row in np.asarray(p_out).reshape(-1, 2)]}


def lean_sph(inp, obs):
    return ([{"op": "c20.p2s", "z0": a, "z1": b} for a, b in inp["pts"]] +
            [{"op": "c20.s2p", "s": s} for s in inp["sph"]])


def judge_sph(inp, obs, lr):
    if "exc" in obs:
        return {"expected": "coordinates", "observed": obs, "tags": {"exc": obs["exc"]}, "property_failure": True}
    k = len(inp["pts"])
    for i in range(k):
        if "err" in lr[i]:
            return {"expected": "model answer", "observed": lr[i], "tags": {"driver_err": lr[i]["err"], "what": "p2s"}}
        if not close(obs["p2s"][i], Q.decf(lr[i]["ok"]), 1e-9):
            return {"expected": {"model": lr[i]["ok"]}, "observed": obs["p2s"][i], "tags": {"what": "p2s"}}
    for i in range(len(inp["sph"])):
        r = lr[k + i]
        if "err" in r:
            return {"expected": "model answer", "observed": r, "tags": {"driver_err": r["err"], "what": "s2p"}}
        mv = decpt(r["ok"])
        iv = np.array([complex(*z) for z in obs["s2p"][i]])
        if not proj_close(iv, mv, 1e-9):       # the public contract is the projective point, not the representative
            return {"expected": {"model": r["ok"]}, "observed": obs["s2p"][i], "tags": {"what": "s2p"}}
    return None


# ------------------------------------------------------------------------------------------------
# S2b: disk from (centre, radius), Moebius image, complement — exact over Q(i)
# ------------------------------------------------------------------------------------------------
def gen_disk(rng, n):
    for _ in range(n):
        k = rng.choice([1, 1, 2, 3])
        cs = [rcentre(rng) for _ in range(k)]
        rs = [F(rng.randint(1, 12), rng.randint(1, 4)) for _ in range(k)]
        yield {"c": [[Q.qs(c[0]), Q.qs(c[1])] for c in cs], "r": [Q.qs(r) for r in rs],
               "scalar": k == 1 and rng.random() < 0.5, "M": [[qc(z) for z in row] for row in rgl2(rng)]}


def run_disk(inp):
    cs = np.array([complex(float(F(c[0])), float(F(c[1]))) for c in inp["c"]])
    rs = np.array([float(F(r)) for r in inp["r"]])
    keep = cs.copy()
    if inp["scalar"]:
        d = CP.CP1Disk(cs[0], rs[0])
    else:
        d = CP.CP1Disk(cs, rs)
    ctr, rad = d.circle_parameters()
    aff = np.asarray(d.real_affine_coords(), float).reshape(-1, 4, 2)
    M = np.array([[decc(z) for z in row] for row in inp["M"]])
    img = P.Transformation(M) @ d
    comp = d.complement()
    comp2 = comp.complement()
    return {"pts": aff.tolist(), "centre": np.asarray(ctr, float).reshape(-1, 2).tolist(),
            "radius": np.asarray(rad, float).reshape(-1).tolist(),
            "inside": np.asarray(d.center_inside()).reshape(-1).tolist(),
            "caller_centre_kept": bool(np.all(cs == keep)),
            "img": _cpts(img.proj_data), "comp_int": _cpts(comp.interior_point().proj_data),
            "comp_bdry_same": close(_ri(comp.proj_data[..., :3, :]), _ri(d.proj_data[..., :3, :]), 1e-12),
            "comp2": _cpts(comp2.proj_data), "orig": _cpts(d.proj_data),
            "comp_inside": np.asarray(comp.center_inside()).reshape(-1).tolist()}


def _ri(a):
    a = np.asarray(a, complex)
    return np.stack([a.real, a.imag], axis=-1)


def _cpts(a):
    a = np.asarray(a, complex).reshape(-1, 2)
    return [[[z.real, z.imag] for z in row] for row in a]


def _hom(p):
    return [["1", "0"], [Q.qs(p[0]), Q.qs(p[1])]]


def lean_disk(inp, obs):
    ops = []
    for c, r in zip(inp["c"], inp["r"]):
        ops.append({"op": "c20.disk", "c": c, "r": r})
    return ops


def _qhom(pt):
    """a homogeneous point of the implementation ([[re, im], [re, im]] floats) sent exactly"""
    return [[Q.qs(pt[0][0]), Q.qs(pt[0][1])], [Q.qs(pt[1][0]), Q.qs(pt[1][1])]]


def lean_disk2(inp, obs):
    # the model's Moebius action / complement are applied to the implementation's OWN four homogeneous points (any boundary
    # triple and any representatives are valid); the model's disk is only compared through centre, radius and center_inside
    ops = []
    for i, (c, r) in enumerate(zip(inp["c"], inp["r"])):
        ops.append({"op": "c20.disk", "c": c, "r": r})
        if "exc" in obs:
            ops += [{"op": "c20.mobius", "m": inp["M"], "pts": []}, {"op": "c20.complement", "pts": []}, {"op": "c20.circle", "p1": ["0", "0"], "p2": ["1", "0"], "p3": ["0", "1"]}]
            continue
        hp = [_qhom(pt) for pt in obs["orig"][4 * i: 4 * i + 4]]
        ops.append({"op": "c20.mobius", "m": inp["M"], "pts": hp})
        ops.append({"op": "c20.complement", "pts": hp})
        b = obs["pts"][i]
        ops.append({"op": "c20.circle", "p1": [Q.qs(b[0][0]), Q.qs(b[0][1])], "p2": [Q.qs(b[1][0]), Q.qs(b[1][1])], "p3": [Q.qs(b[2][0]), Q.qs(b[2][1])]})
    return ops


def _isqrt_q(x):
    n, d = x.numerator, x.denominator
    rn, rd = math.isqrt(n), math.isqrt(d)
    assert rn * rn == n and rd * rd == d
    return F(rn, rd)


def _exact_disk_points(c, r):
    n2 = c[0] * c[0] + c[1] * c[1]
    if n2 == 0:
        u = (F(1), F(0))
    else:
        s = _isqrt_q(n2)
        u = (c[0] / s, c[1] / s)
    return [(c[0] + r * u[0], c[1] + r * u[1]), (c[0] - r * u[0], c[1] - r * u[1]), (c[0] - r * u[1], c[1] + r * u[0]), c]


def judge_disk(inp, obs, lr):
    if "exc" in obs:
        return {"expected": "disk", "observed": obs, "tags": {"exc": obs["exc"]}, "property_failure": True}
    if not obs["caller_centre_kept"]:
        return {"expected": "caller's centre array untouched", "observed": "modified", "tags": {"what": "aliasing"}, "property_failure": True}
    for i, (c, r) in enumerate(zip(inp["c"], inp["r"])):
        d, mob, comp, circ = lr[4 * i: 4 * i + 4]
        for nm, res in (("disk", d), ("mobius", mob), ("complement", comp), ("circle", circ)):
            if "err" in res:
                return {"expected": "model answer", "observed": res, "tags": {"driver_err": res["err"], "what": nm}}
        m = d["ok"]
        cf = [float(F(c[0])), float(F(c[1]))]
        if not close(obs["centre"][i], Q.decf(m["centre"]), 1e-9) or not close(obs["radius"][i], math.sqrt(float(F(m["radius2"]))), 1e-9):
            pf = not close(obs["centre"][i], cf, 1e-9) or not close(obs["radius"][i], float(F(r)), 1e-9)
            return {"expected": {"centre": m["centre"], "radius2": m["radius2"]}, "observed": {"centre": obs["centre"][i], "radius": obs["radius"][i]},
                    "tags": {"what": "circle_parameters", "reports_requested": not pf}, "property_failure": pf}
        # the stored boundary triple is any three points of the circle: the model's circle_through on the implementation's
        # own triple (exact arithmetic) must be the requested circle, and the interior point must be the centre's side
        cq = circ["ok"]
        if not close(Q.decf(cq["centre"]), cf, 1e-8) or not close(float(F(cq["radius2"])), float(F(r)) ** 2, 1e-8):
            return {"expected": {"circle through the stored boundary triple": [cf, float(F(r))]}, "observed": cq, "tags": {"what": "boundary triple"},
                    "property_failure": True}
        ip = obs["pts"][i][3]
        if not ((ip[0] - cf[0]) ** 2 + (ip[1] - cf[1]) ** 2 < float(F(r)) ** 2):
            return {"expected": "interior point inside the circle", "observed": ip, "tags": {"what": "interior point"}, "property_failure": True}
        if obs["inside"][i] != m["inside"]:
            return {"expected": m["inside"], "observed": obs["inside"][i], "tags": {"what": "center_inside"}}
        for j in range(4):
            iv = np.array([complex(*z) for z in obs["img"][4 * i + j]])
            if not proj_close(iv, decpt(mob["ok"][j]), 1e-9):
                return {"expected": {"image": mob["ok"][j]}, "observed": obs["img"][4 * i + j], "tags": {"what": "mobius image", "j": j}}
        iv = np.array([complex(*z) for z in obs["comp_int"][i]])
        if not proj_close(iv, decpt(comp["ok"]), 1e-8):
            return {"expected": {"complement interior": comp["ok"]}, "observed": obs["comp_int"][i], "tags": {"what": "complement"}}
    if not obs["comp_bdry_same"]:
        return {"expected": "complement keeps the boundary triple", "observed": "changed", "tags": {"what": "complement boundary"}}
    for a, b in zip(obs["comp2"], obs["orig"]):
        if not proj_close(np.array([complex(*z) for z in a]), np.array([complex(*z) for z in b]), 1e-8):
            return {"expected": "complement twice = original", "observed": [a, b], "tags": {"what": "complement twice"}, "property_failure": True}
    return None


# ------------------------------------------------------------------------------------------------
# S2c: contains / intersects mask plumbing
# ------------------------------------------------------------------------------------------------
SPECIAL_C = [0j, 1 + 0j, -1 + 0j, 1j, -1j, 2 + 0j, 0.5j, -0.5 + 0j]


def fdisk(rng, bounded=None):
    c = complex(rng.uniform(-3, 3), rng.uniform(-3, 3))
    r = rng.uniform(0.2, 3.0)
    if rng.random() < 0.2:       # exact special loci mixed with generic ones: origin-centred, on the axes, unit radius
        c = rng.choice(SPECIAL_C)
    if rng.random() < 0.1:
        r = rng.choice([1.0, 0.5, 2.0])
    b = (rng.random() < 0.5) if bounded is None else bounded
    return {"c": [c.real, c.imag], "r": r, "bounded": b}


def general_position(a, b, margin=0.1):
    d = math.hypot(a["c"][0] - b["c"][0], a["c"][1] - b["c"][1])
    return all(abs(d - x) > margin for x in (a["r"] + b["r"], abs(a["r"] - b["r"]))) and abs(a["r"] - b["r"]) > margin


def gen_rel(rng, n):
    for _ in range(n):
        mode = rng.choice(["elementwise", "pairwise"])
        ns = rng.choice([1, 2, 3, 4])
        no = ns if mode == "elementwise" else rng.choice([1, 2, 3])
        structured = rng.random() < 0.5
        while True:
            S = [fdisk(rng) for _ in range(ns)]
            O = [fdisk(rng) for _ in range(no)]
            if structured:
                # every bounded/unbounded combination x nested (o in s) / nested (s in o) / disjoint / crossing circles, with the
                # flags of each array all bounded, all unbounded or mixed
                fs_, fo_ = rng.choice(["all_b", "all_u", "mixed"]), rng.choice(["all_b", "all_u", "mixed"])
                for j_, o_ in enumerate(O):
                    s_ = S[j_ % ns]
                    cfg = rng.choice(["o_in_s", "s_in_o", "disjoint", "crossing"])
                    t_ = rng.uniform(0, 2 * math.pi)
                    if cfg == "o_in_s":
                        o_["r"] = s_["r"] * rng.uniform(0.2, 0.5); dd_ = (s_["r"] - o_["r"]) * rng.uniform(0.0, 0.6)
                    elif cfg == "s_in_o":
                        o_["r"] = s_["r"] * rng.uniform(2.0, 3.0); dd_ = (o_["r"] - s_["r"]) * rng.uniform(0.0, 0.6)
                    elif cfg == "disjoint":
                        o_["r"] = s_["r"] * rng.uniform(0.5, 1.5); dd_ = (s_["r"] + o_["r"]) * rng.uniform(1.3, 2.0)
                    else:
                        o_["r"] = s_["r"] * rng.uniform(0.7, 1.3); dd_ = max(s_["r"], o_["r"]) * rng.uniform(0.6, 0.9) + abs(s_["r"] - o_["r"]) * 0.5
                    o_["c"] = [s_["c"][0] + dd_ * math.cos(t_), s_["c"][1] + dd_ * math.sin(t_)]
                for arr_, fl_ in ((S, fs_), (O, fo_)):
                    for d_ in arr_:
                        d_["bounded"] = True if fl_ == "all_b" else (False if fl_ == "all_u" else d_["bounded"])
            pairs = zip(S, O) if mode == "elementwise" else ((s, o) for s in S for o in O)
            if all(general_position(s, o) for s, o in pairs):
                break
        # G12: the image of the configuration under z -> s z (s = 10^k, k in -12..12) has the same answers
        yield {"mode": mode, "S": S, "O": O, "zoom": (10.0 ** rng.choice([rng.randint(-12, 12), rng.randint(-12, -9), rng.randint(9, 12)])) if rng.random() < 0.5 else 1.0}


def build_disks(ds, zoom=1.0):
    c = np.array([complex(*d["c"]) for d in ds]) * zoom
    r = np.array([d["r"] for d in ds]) * zoom
    base = CP.CP1Disk(c, r)
    comp = base.complement()
    data = np.array([base.proj_data[i] if d["bounded"] else comp.proj_data[i] for i, d in enumerate(ds)])
    return CP.CP1Disk(data)


def run_rel(inp):
    S, O = build_disks(inp["S"], inp.get("zoom", 1.0)), build_disks(inp["O"], inp.get("zoom", 1.0))
    s_aff, o_aff = S.center_inside(), O.center_inside()
    sc, sr = S.circle_parameters()
    oc, orad = O.circle_parameters()
    t = utils.disk_interactions(sc, sr, oc, orad, broadcast=inp["mode"])
    out = {"s_aff": s_aff.tolist(), "o_aff": o_aff.tolist(),
           "tables": [np.asarray(x).reshape(-1).tolist() for x in t]}
    for nm in ("contains", "intersects"):
        try:
            out[nm] = np.asarray(getattr(S, nm)(O, broadcast=inp["mode"])).reshape(-1).tolist()
        except Exception as ex:  # noqa: BLE001
            out[nm] = {"exc": type(ex).__name__}
    return out


def lean_rel(inp, obs):
    if "exc" in obs:
        return []
    base = {"mode": inp["mode"], "s_aff": obs["s_aff"], "o_aff": obs["o_aff"], "contain": obs["tables"][0],
            "contained": obs["tables"][1], "intersect": obs["tables"][2]}
    return [dict(base, op="c20.contains"), dict(base, op="c20.intersects")]


def judge_rel(inp, obs, lr):
    if "exc" in obs:
        return {"expected": "relations", "observed": obs, "tags": {"exc": obs["exc"]}, "property_failure": True}
    if obs["s_aff"] != [d["bounded"] for d in inp["S"]] or obs["o_aff"] != [d["bounded"] for d in inp["O"]]:
        return {"expected": "center_inside = bounded flag", "observed": [obs["s_aff"], obs["o_aff"]], "tags": {"what": "center_inside"},
                "property_failure": True}
    for nm, res in zip(("contains", "intersects"), lr):
        m = res.get("ok", res.get("err"))
        i = obs[nm]["exc"] if isinstance(obs[nm], dict) else obs[nm]
        if m != i:
            combos = sorted({(s["bounded"], o["bounded"]) for s in inp["S"] for o in inp["O"]})
            return {"expected": {"model": m}, "observed": {"implementation": i},
                    "tags": {"what": nm, "mode": inp["mode"], "raises": isinstance(obs[nm], dict)},
                    "property_failure": isinstance(obs[nm], dict)}
    return None


# ------------------------------------------------------------------------------------------------
# S3a: points — inverse coordinates and stereographic projection (floats)
# ------------------------------------------------------------------------------------------------
def gen_pt(rng, n):
    for _ in range(n):
        k = rng.choice([1, 3, 5])
        zs = []
        for _ in range(k):
            t = rng.random()
            if t < 0.1:
                zs.append([[0.0, 0.0], [rng.gauss(0, 1), rng.gauss(0, 1)]])
            elif t < 0.2:
                zs.append([[rng.gauss(0, 1), rng.gauss(0, 1)], [0.0, 0.0]])
            elif t < 0.6:
                s = math.exp(rng.uniform(-3, 3))
                zs.append([[rng.gauss(0, 1), rng.gauss(0, 1)], [rng.gauss(0, s), rng.gauss(0, s)]])
            else:
                # G12: |w| = 10^k, k in -9..9, and overall sizes 10^m of the homogeneous pair
                w = 10.0 ** rng.randint(-9, 9) * cmath.exp(1j * rng.uniform(0, 2 * math.pi)) * rng.uniform(1, 9)
                g = 10.0 ** rng.randint(-9, 9) * cmath.exp(1j * rng.uniform(0, 2 * math.pi))
                zs.append([[g.real, g.imag], [(g * w).real, (g * w).imag]])
        yield {"pts": zs, "int_affine": [[rng.randint(-5, 5), rng.randint(-5, 5)] for _ in range(3)]}


def run_pt(inp):
    p = np.array([[complex(*a), complex(*b)] for a, b in inp["pts"]])
    pt = CP.CP1Point(p)
    s = np.asarray(pt.spherical_coords(), float)
    back = CP.CP1Point(s, coords="spherical")
    s2 = np.asarray(back.spherical_coords(), float)
    res = {"on_sphere": err((s * s).sum(-1), np.ones(len(p))), "p2s_s2p": 0.0 if proj_close(back.proj_data, p, 1e-9) else 1.0,
           "s2p_p2s": err(s2, s)}
    # stereographic projection: affine z = z1/z0 <-> (2 Re z, 2 Im z, |z|^2 - 1)/(|z|^2 + 1); infinity <-> (0,0,1)
    ref = []
    for a, b in p:
        if a == 0:
            ref.append([0.0, 0.0, 1.0])
        else:
            z = b / a
            n = abs(z) ** 2
            ref.append([2 * z.real / (n + 1), 2 * z.imag / (n + 1), (n - 1) / (n + 1)])
    res["stereo"] = err(s, np.array(ref))
    # non-default option: column vectors
    res["p2s_column_vectors"] = err(np.asarray(CP.projective_to_spherical(p.T, column_vectors=True), float), s.T)
    res["s2p_column_vectors"] = 0.0 if proj_close(np.asarray(CP.spherical_to_projective(s.T, column_vectors=True)).T, p, 1e-9) else 1.0
    # coordinates of every dtype and container: integer-valued real_affine pairs, the six axis points of the sphere
    ia = np.array(inp.get("int_affine", [[2, -3]]))
    want_i = np.array([[2 * x / (x * x + y * y + 1), 2 * y / (x * x + y * y + 1), (x * x + y * y - 1) / (x * x + y * y + 1)] for x, y in ia.astype(float)])
    axes_ = np.array([[0, 0, 1], [0, 0, -1], [1, 0, 0], [-1, 0, 0], [0, 1, 0], [0, -1, 0]])
    for lab, conv in (("int64", lambda a: np.asarray(a, np.int64)), ("int32", lambda a: np.asarray(a, np.int32)), ("float32", lambda a: np.asarray(a, np.float32)),
                      ("float64", lambda a: np.asarray(a, np.float64)), ("list", lambda a: np.asarray(a).tolist()),
                      ("fortran", lambda a: np.asfortranarray(np.asarray(a, np.float64))), ("view", lambda a: np.repeat(np.asarray(a, np.float64), 2, axis=1)[:, ::2])):
        try:
            q_ = CP.CP1Point(conv(ia), coords="real_affine")
            res["real_affine_" + lab] = err(np.asarray(q_.spherical_coords(), float), want_i) / (1e4 if lab == "float32" else 1.0)
            q2_ = CP.CP1Point(conv(axes_), coords="spherical")
            res["spherical_" + lab] = err(np.asarray(q2_.spherical_coords(), float), axes_.astype(float))
        except Exception as ex:  # noqa: BLE001
            res["real_affine_" + lab] = float("inf")
    fin = np.array([a != 0 for a, b in p])
    if fin.any():
        aff = (p[fin, 1] / p[fin, 0])
        q = CP.CP1Point(aff, coords="cx_affine")
        res["affine_ctor"] = err(np.asarray(q.spherical_coords(), float), np.array(ref)[fin])
        q2 = CP.CP1Point(np.stack([aff.real, aff.imag], -1), coords="real_affine")
        res["real_affine_ctor"] = err(np.asarray(q2.spherical_coords(), float), np.array(ref)[fin])
    return res


def judge_pt(inp, obs, lr):
    if "exc" in obs:
        return {"expected": "coordinates", "observed": obs, "tags": {"exc": obs["exc"]}}
    for k, v in obs.items():
        if not (v <= 1e-8):
            return {"expected": "%s residual <= 1e-8" % k, "observed": v, "tags": {"what": k}}
    return None


# ------------------------------------------------------------------------------------------------
# S3b: disks report centre and radius in both metrics; Moebius images; complement; relations
# ------------------------------------------------------------------------------------------------
def fs_dist(z, w):
    """Fubini-Study distance with diam(CP^1) = pi/2 (the library's `fs` radius), affine coordinates; inf allowed"""
    if z is None and w is None:
        return 0.0
    if z is None:
        return math.atan2(1.0, abs(w))
    if w is None:
        return math.atan2(1.0, abs(z))
    return math.atan2(abs(z - w), abs(1 + z.conjugate() * w))


def gen_dsk(rng, n):
    for _ in range(n):
        k = rng.choice([1, 2, 4])
        def spc():
            t = rng.random()
            if t < 0.12:
                return [0.0, 0.0]
            if t < 0.24:
                z = rng.choice(SPECIAL_C)
                return [z.real, z.imag]
            return [rng.uniform(-4, 4), rng.uniform(-4, 4)]
        cs_ = [spc() for _ in range(k)]
        # exact special centres come with exact (dyadic) radii half of the time: the circle is then EXACTLY origin-centred / axis-centred
        rs_ = [rng.choice([1.0, 0.5, 2.0, 0.25]) if (rng.random() < (0.5 if (c_[0] == 0.0 or c_[1] == 0.0) else 0.1)) else rng.uniform(0.1, 4) for c_ in cs_]
        yield {"c": cs_,
               "r": rs_,
               "shape": rng.choice([[], [3], [2, 3], [2, 2], [3, 3], [2, 1, 3], [1], [1, 1]]), "fs_r": [rng.uniform(0.05, 0.7) for _ in range(k)],
               "scalar": k == 1 and rng.random() < 0.4,
               "M": [[rng.gauss(0, 1), rng.gauss(0, 1)] for _ in range(4)],
               "samples": [[rng.gauss(0, 3), rng.gauss(0, 3)] for _ in range(40)]}


def member(z, c, r, bounded):
    """reference membership of an affine point (None = infinity) in the open disk / open complement"""
    if z is None:
        return not bounded
    return (abs(z - c) < r) == bounded


def run_dsk(inp):
    c = np.array([complex(*x) for x in inp["c"]])
    r = np.array(inp["r"])
    fr = np.array(inp["fs_r"])
    res = {}
    d = CP.CP1Disk(c[0], r[0]) if inp["scalar"] else CP.CP1Disk(c, r)
    ctr, rad = d.circle_parameters()
    res["affine_centre"] = err(np.asarray(ctr, float).reshape(-1, 2), np.stack([c.real, c.imag], -1)[:len(np.asarray(rad).reshape(-1))])
    res["affine_radius"] = err(np.asarray(rad, float).reshape(-1), r[:len(np.asarray(rad).reshape(-1))])
    res["inside"] = 0.0 if np.all(d.center_inside()) else 1.0
    if not inp["scalar"]:
        # Fubini-Study metric: the disk of FS radius fr about c
        dfs = CP.CP1Disk(c, fr, radius_metric="fs")
        fsc = np.asarray(dfs.fs_center().affine_coords(), complex).reshape(-1)
        res["fs_centre"] = max(fs_dist(a, b) for a, b in zip(fsc, c))
        res["fs_diameter"] = err(np.asarray(dfs.fs_diameter(), float), 2 * fr)
        bd = np.asarray(dfs.boundary_points().affine_coords(), complex).reshape(len(c), 3)
        res["fs_boundary"] = max(abs(fs_dist(b, cc) - f) for row, cc, f in zip(bd, c, fr) for b in row)
        # an affine disk also reports its Fubini-Study centre and diameter: boundary points are FS-equidistant from fs_center
        fc2 = np.asarray(d.fs_center().affine_coords(), complex).reshape(-1)
        fd2 = np.asarray(d.fs_diameter(), float)
        bd2 = np.asarray(d.boundary_points().affine_coords(), complex).reshape(len(c), 3)
        res["affine_fs"] = max(abs(fs_dist(b, cc) - f / 2) for row, cc, f in zip(bd2, fc2, fd2) for b in row)
        # Moebius image: bounded by the image circle, on the side of the image interior point
        M = np.array([[complex(*inp["M"][0]), complex(*inp["M"][1])], [complex(*inp["M"][2]), complex(*inp["M"][3])]])
        if abs(np.linalg.det(M)) > 0.2:
            T_ = P.Transformation(M)
            for tag, src, bounded in (("mobius", d, True), ("mobius_complement", d.complement(), False)):
                img = T_ @ src
                ic, ir = img.circle_parameters()
                ib = img.center_inside()
                worst = 0.0
                bdi = np.asarray(img.boundary_points().real_affine_coords(), float).reshape(len(c), 3, 2)
                for i in range(len(c)):
                    for pt in bdi[i]:
                        worst = max(worst, abs(math.hypot(pt[0] - ic[i][0], pt[1] - ic[i][1]) - ir[i]) / (1 + ir[i]))
                bad = 0
                for s in inp["samples"]:
                    z = complex(*s)
                    w = np.array([1, z]) @ M
                    for i in range(len(c)):
                        if abs(abs(z - c[i]) - r[i]) < 1e-3 * (1 + r[i]):
                            continue
                        zi = None if abs(w[0]) < 1e-12 else w[1] / w[0]
                        if zi is not None and abs(abs(zi - complex(*ic[i])) - ir[i]) < 1e-6 * (1 + ir[i]):
                            continue
                        if member(z, c[i], r[i], bounded) != member(zi, complex(*ic[i]), ir[i], bool(ib[i])):
                            bad += 1
                res[tag + "_circle"] = worst
                res[tag + "_side"] = float(bad)
        # complement: membership flips, twice = identity
        comp = d.complement()
        cc, cr = comp.circle_parameters()
        res["complement_circle"] = max(err(np.asarray(cc, float), np.stack([c.real, c.imag], -1)), err(np.asarray(cr, float), r))
        res["complement_unbounded"] = 0.0 if not np.any(comp.center_inside()) else 1.0
        # the complement reports its own Fubini-Study centre (boundary FS-equidistant from it) and diameter (pi - the disk's)
        cfc = np.asarray(comp.fs_center().proj_data, complex).reshape(len(c), 2)
        cfd = np.asarray(comp.fs_diameter(), float)
        res["complement_fs_diameter"] = err(cfd, math.pi - fd2)
        def _aff(pz):
            if not np.all(np.isfinite(pz)):
                return complex("nan")
            return None if abs(pz[0]) < 1e-12 * _bi.max(1.0, abs(pz[1])) else pz[1] / pz[0]
        res["complement_fs_centre"] = max(abs(fs_dist(b, _aff(cc)) - f / 2) for row, cc, f in zip(bd2, cfc, cfd) for b in row)
        # the same disk from other centre coordinates
        sph = np.asarray(CP.CP1Point(c, coords="cx_affine").spherical_coords(), float)
        for cname, cdat in (("spherical", sph), ("real_affine", np.stack([c.real, c.imag], -1))):
            dd = CP.CP1Disk(cdat, r, center_coords=cname)
            cc_, rr_ = dd.circle_parameters()
            res["centre_coords_" + cname] = max(err(np.asarray(cc_, float), np.stack([c.real, c.imag], -1)), err(np.asarray(rr_, float), r))
        # composite shapes with 0, 1, 2, 3 batch axes, square and non-square: every query equals the flat one, reshaped
        shp = tuple(inp.get("shape", [3]))
        n_ = int(np.prod(shp)) if shp else 1
        rs_ = np.random.default_rng(len(inp["samples"]) + n_)
        cs = (np.resize(c, n_) + np.arange(n_) * 0.125).reshape(shp) if shp else (c[0] + 0j)
        rr = (np.resize(r, n_) + np.arange(n_) * 0.0625).reshape(shp) if shp else float(r[0])
        dsh = CP.CP1Disk(cs, rr)
        dfl = CP.CP1Disk(np.asarray(cs).reshape(-1), np.asarray(rr, float).reshape(-1))
        def _cmp(fa, fb):
            a_, b_ = fa(), fb()
            return err(np.asarray(a_, float).reshape(-1), np.asarray(b_, float).reshape(-1)) if np.asarray(a_).size == np.asarray(b_).size else float("inf")
        res["shape_ok"] = 0.0 if tuple(dsh.shape) == shp else 1.0
        res["shape_circle_centre"] = _cmp(lambda: dsh.circle_parameters()[0], lambda: dfl.circle_parameters()[0])
        res["shape_circle_radius"] = _cmp(lambda: dsh.circle_parameters()[1], lambda: dfl.circle_parameters()[1])
        res["shape_circle_shapes"] = 0.0 if (np.asarray(dsh.circle_parameters()[0]).shape == shp + (2,) and np.asarray(dsh.circle_parameters()[1]).shape == shp) else 1.0
        res["shape_inside"] = _cmp(lambda: dsh.center_inside(), lambda: dfl.center_inside())
        if shp:
            res["shape_fs_diameter"] = _cmp(lambda: dsh.fs_diameter(), lambda: dfl.fs_diameter())
            res["shape_complement_inside"] = _cmp(lambda: dsh.complement().center_inside(), lambda: dfl.complement().center_inside())
            res["shape_contains"] = _cmp(lambda: dsh.contains(CP.CP1Disk(cs, np.asarray(rr) * 0.5)), lambda: dfl.contains(CP.CP1Disk(np.asarray(cs).reshape(-1), np.asarray(rr).reshape(-1) * 0.5)))
        # utils.cp1 helpers against an exact spherical-cap reference: Fubini-Study disks containing 0, containing infinity,
        # both, neither
        from geometry_tools.utils import cp1 as _cp1
        def _cap_circle(cz, R):
            """Euclidean centre / radius of the boundary circle of the FS disk (centre cz affine, FS radius R), via three cap points"""
            n2 = abs(cz) ** 2
            nvec = np.array([2 * cz.real, 2 * cz.imag, n2 - 1]) / (n2 + 1)
            a_ = np.array([1.0, 0, 0]) if abs(nvec[0]) < 0.9 else np.array([0, 1.0, 0])
            u_ = np.cross(nvec, a_); u_ /= np.linalg.norm(u_); v_ = np.cross(nvec, u_)
            pts_ = []
            for t_ in (0.3, 2.4, 4.5):
                p_ = math.cos(2 * R) * nvec + math.sin(2 * R) * (math.cos(t_) * u_ + math.sin(t_) * v_)
                pts_.append(complex(p_[0], p_[1]) / (1 - p_[2]))
            (x1, y1), (x2, y2), (x3, y3) = [(z_.real, z_.imag) for z_ in pts_]
            A_ = np.array([[x2 - x1, y2 - y1], [x3 - x1, y3 - y1]])
            b_ = 0.5 * np.array([x2 * x2 + y2 * y2 - x1 * x1 - y1 * y1, x3 * x3 + y3 * y3 - x1 * x1 - y1 * y1])
            cc_ = np.linalg.solve(A_, b_)
            return complex(cc_[0], cc_[1]), math.hypot(x1 - cc_[0], y1 - cc_[1])
        worst_ = 0.0
        rs2 = np.random.default_rng(int(1e6 * fr[0]))
        for cz in list(c[:2]) + [0.3 + 0.2j, 2.5 - 1j]:
            if abs(cz) == 0:
                continue
            t0 = math.atan(abs(cz))
            for R in (0.5 * t0, min(1.4, t0 + 0.2), max(0.05, (math.pi / 2 - t0) * 0.5), min(1.45, (math.pi / 2 - t0) + 0.15), float(rs2.uniform(0.05, 1.4))):
                if abs(R - t0) < 0.02 or abs(R - (math.pi / 2 - t0)) < 0.02 or R <= 0:
                    continue
                cref, rref = _cap_circle(cz, R)
                got = complex(_cp1.fs_ctr_to_aff_ctr(cz, R))
                worst_ = max(worst_, abs(got - cref) / (1 + abs(cref)))
                # and back: the Fubini-Study centre (modulus) of the Euclidean disk / its complement
                back = float(_cp1.aff_ctr_to_fs_ctr(cref, rref))
                contains_inf = t0 + R > math.pi / 2
                want_back = abs(cz) if not contains_inf else None
                if want_back is not None:
                    worst_ = max(worst_, abs(back - want_back) / (1 + want_back))
        res["cp1_helpers_vs_cap"] = worst_
        c2 = comp.complement()
        res["complement_twice"] = 0.0 if proj_close(c2.proj_data, d.proj_data, 1e-8) and np.all(c2.center_inside()) else 1.0
    return res


def judge_dsk(inp, obs, lr):
    if "exc" in obs:
        return {"expected": "disk outputs", "observed": obs, "tags": {"exc": obs["exc"]}}
    for k, v in obs.items():
        if not (v <= 1e-6):
            return {"expected": "%s residual <= 1e-6" % k, "observed": v, "tags": {"what": k}}
    return None


def sample_points(rng_seed, S, O):
    """reference sample of the sphere: infinity, uniform points, the line of centres and both circles +- margin"""
    rs = np.random.default_rng(rng_seed)
    v = rs.normal(size=(1500, 3))
    v /= np.linalg.norm(v, axis=1, keepdims=True)
    pts = [None] + [complex(x / (1 - z), y / (1 - z)) for x, y, z in v if z < 1 - 1e-9]
    for a in S + O:
        ca = complex(*a["c"])
        for th in np.linspace(0, 2 * math.pi, 36, endpoint=False):
            for f in (0.97, 1.03, 0.5, 1.5):
                pts.append(ca + f * a["r"] * cmath.exp(1j * th))
    for a in S:
        for b in O:
            ca, cb = complex(*a["c"]), complex(*b["c"])
            d = abs(cb - ca) or 1.0
            u = (cb - ca) / d if abs(cb - ca) > 0 else 1.0
            for t in np.linspace(-(a["r"] + b["r"] + d + 1), a["r"] + b["r"] + 2 * d + 1, 300):
                pts.append(ca + t * u)
    return pts


def ref_relations(S, O, mode, seed):
    pts = sample_points(seed, S, O)
    def mem(z, dsk):
        return member(z, complex(*dsk["c"]), dsk["r"], dsk["bounded"])
    def near(z, dsk):
        return z is not None and abs(abs(z - complex(*dsk["c"])) - dsk["r"]) < 0.02
    def rel(s, o):
        inter = any(mem(z, s) and mem(z, o) for z in pts if not near(z, s) and not near(z, o))
        cont = not any(mem(z, o) and not mem(z, s) for z in pts if not near(z, s) and not near(z, o))
        return cont, inter
    pairs = list(zip(S, O)) if mode == "elementwise" else [(s, o) for s in S for o in O]
    r = [rel(s, o) for s, o in pairs]
    return [a for a, _ in r], [b for _, b in r]


def gen_rel_oracle(rng, n):
    for x in gen_rel(rng, n):
        x["seed"] = rng.randrange(10 ** 6)
        yield x


def run_rel_oracle(inp):
    S, O = build_disks(inp["S"], inp.get("zoom", 1.0)), build_disks(inp["O"], inp.get("zoom", 1.0))
    out = {}
    for nm in ("contains", "intersects"):
        try:
            out[nm] = np.asarray(getattr(S, nm)(O, broadcast=inp["mode"])).reshape(-1).tolist()
        except Exception as ex:  # noqa: BLE001
            out[nm] = {"exc": type(ex).__name__ + ": " + str(ex)[:100]}
    return out


def judge_rel_oracle(inp, obs, lr):
    if "exc" in obs:
        return {"expected": "relations", "observed": obs, "tags": {"exc": obs["exc"]}}
    cont, inter = ref_relations(inp["S"], inp["O"], inp["mode"], inp["seed"])
    combos = sorted({"%s-%s" % ("b" if s["bounded"] else "u", "b" if o["bounded"] else "u") for s in inp["S"] for o in inp["O"]})
    for nm, ref in (("contains", cont), ("intersects", inter)):
        if isinstance(obs[nm], dict):
            return {"expected": {nm: ref}, "observed": obs[nm], "tags": {"what": nm, "mode": inp["mode"], "raises": True}}
        if obs[nm] != ref:
            k = next(i for i, (a, b) in enumerate(zip(obs[nm], ref)) if a != b)
            pairs = list(zip(inp["S"], inp["O"])) if inp["mode"] == "elementwise" else [(s, o) for s in inp["S"] for o in inp["O"]]
            s, o = pairs[k]
            return {"expected": {nm: ref, "set-theoretic reference of pair": k}, "observed": obs[nm],
                    "tags": {"what": nm, "mode": inp["mode"], "raises": False,
                             "combo": "%s-%s" % ("b" if s["bounded"] else "u", "b" if o["bounded"] else "u")}}
    return None


# ------------------------------------------------------------------------------------------------
# S2d: the Fubini-Study constructor, QR factors observed (numpy.linalg.qr wrapped inside this process only)
# ------------------------------------------------------------------------------------------------
def gen_fs(rng, n):
    for _ in range(n):
        yield {"c": [rng.uniform(-3, 3), rng.uniform(-3, 3)] if rng.random() > 0.1 else [0.0, 0.0], "rad": rng.uniform(0.05, 0.7)}


def run_fs(inp):
    seen = {}
    orig = np.linalg.qr
    def spy(a, *args, **kw):
        q, r = orig(a, *args, **kw)
        seen["q"], seen["r"] = np.array(q), np.array(r)
        return q, r
    np.linalg.qr = spy
    try:
        d = CP.CP1Disk(np.array([complex(*inp["c"])]), np.array([inp["rad"]]), radius_metric="fs")
    finally:
        np.linalg.qr = orig
    sph = np.asarray(d.boundary_points().spherical_coords(), float).reshape(3, 3)
    ctr = np.asarray(CP.CP1Point(np.array([complex(*inp["c"])]), coords="cx_affine").spherical_coords(), float).reshape(3)
    out = {"c2": float(np.cos(2 * inp["rad"])), "s2": float(np.sin(2 * inp["rad"])), "sph": sph.tolist(), "ctr": ctr.tolist(),
           "distinct": float(min(np.linalg.norm(sph[i] - sph[j]) for i in range(3) for j in range(i))),
           "interior": np.asarray(d.interior_point().spherical_coords(), float).reshape(3).tolist()}
    if "q" in seen and seen["q"].size == 9:
        # (only when the implementation factorises the centre with numpy.linalg.qr: the model's construction on those factors)
        q, r = seen["q"].reshape(3, 3), seen["r"].reshape(3, 1)
        out.update({"q": q.tolist(), "r00": float(r[0, 0]), "contract": max(err(q.T @ q, np.eye(3)), err(q[:, 0] * r[0, 0], ctr))})
    return out


def lean_fs(inp, obs):
    if "exc" in obs:
        return []
    ops = [{"op": "c20.fs_residual", "pts": [[Q.qs(x) for x in p_] for p_ in obs["sph"]], "ctr": [Q.qs(x) for x in obs["ctr"]], "c2": Q.qs(obs["c2"])}]
    if "q" in obs:
        q = np.array(obs["q"])
        ops.append({"op": "c20.fs_boundary", "q0": [Q.qs(x) for x in q[:, 0]], "q1": [Q.qs(x) for x in q[:, 1]], "q2": [Q.qs(x) for x in q[:, 2]],
                    "r00": Q.qs(obs["r00"]), "c2": Q.qs(obs["c2"]), "s2": Q.qs(obs["s2"])})
    return ops


def judge_fs(inp, obs, lr):
    if "exc" in obs:
        return {"expected": "fs disk", "observed": obs, "tags": {"exc": obs["exc"]}, "property_failure": True}
    if "err" in lr[0]:
        return {"expected": "model answer", "observed": lr[0], "tags": {"driver_err": lr[0]["err"]}}
    # public contract (conclusion of fs_disk_boundary), evaluated by the model on the implementation's boundary points:
    # three DISTINCT points of the unit sphere at spherical angle 2*rad from the requested centre, interior point = the centre
    resid = max(abs(float(F(x))) for pr in lr[0]["ok"] for x in pr)
    if not (resid <= 1e-9) or not (obs["distinct"] > 1e-3 * abs(obs["s2"])):
        return {"expected": "three distinct boundary points at Fubini-Study distance rad from the centre", "observed": {"residual": resid, "sph": obs["sph"]},
                "tags": {"what": "fs boundary"}, "property_failure": True}
    if not close(obs["interior"], obs["ctr"], 1e-9):
        return {"expected": {"interior point": obs["ctr"]}, "observed": obs["interior"], "tags": {"what": "fs interior"}, "property_failure": True}
    if "q" in obs and len(lr) > 1:
        if not (obs["contract"] <= 1e-9):
            return {"expected": "QR contract (q orthogonal, q0*r00 = centre)", "observed": obs["contract"], "tags": {"what": "qr contract"}}
        if "ok" in lr[1]:
            # the model's construction on the observed factors satisfies the same contract (no comparison of the particular triple)
            mv = Q.decf(lr[1]["ok"])
            ctr = np.array(obs["ctr"])
            if not close((mv * mv).sum(-1), np.ones(3), 1e-9) or not close(mv @ ctr, np.full(3, obs["c2"]), 1e-9):
                return {"expected": "model boundary points satisfy the contract", "observed": mv.tolist(), "tags": {"what": "fs model"}}
    return None


# ------------------------------------------------------------------------------------------------
# S3e: query / edit histories, tiny and huge overall scales, every way of specifying the centre
# ------------------------------------------------------------------------------------------------
def gen_hist(rng, n):
    for _ in range(n):
        k = rng.choice([2, 3, 4])
        def mk():
            z = rng.choice(SPECIAL_C) if rng.random() < 0.2 else complex(rng.uniform(-3, 3), rng.uniform(-3, 3))
            return {"c": [z.real, z.imag], "r": rng.uniform(0.2, 3.0) if rng.random() > 0.1 else 1.0}
        disks = [mk() for _ in range(k)]
        other = [mk() for _ in range(k)]
        steps = []
        for _s in range(rng.choice([3, 5, 7])):
            c = rng.random()
            if c < 0.55:
                steps.append({"op": "query", "what": rng.choice(["circle", "contains", "intersects", "fs", "inside"])})
            elif c < 0.7:
                steps.append({"op": "setitem", "i": rng.randrange(k), "disk": mk(), "complement": rng.random() < 0.3})
            elif c < 0.78:
                steps.append({"op": "inplace", "i": rng.randrange(k), "disk": mk()})
            else:
                steps.append({"op": rng.choice(["transform", "copy", "flatten", "complement", "mutate_returned", "other", "set", "inv_then_product"]),
                              "M": [[rng.gauss(0, 1), rng.gauss(0, 1)] for _ in range(4)]})
        steps.append({"op": "query", "what": "circle"})
        steps.append({"op": "query", "what": rng.choice(["contains", "intersects", "fs"])})
        yield {"disks": disks, "other": other, "unrelated": [mk() for _ in range(k)], "order": rng.choice(["AB", "BA"]),
               "dtypes": [rng.choice(["complex128", "complex64", "float64", "int"]) for _ in range(2)],
               "steps": steps, "scale": [math.exp(rng.uniform(-28, 28)), rng.uniform(0, 2 * math.pi)],
               "M": [[rng.gauss(0, 1), rng.gauss(0, 1)] for _ in range(4)], "fs_r": rng.uniform(0.05, 0.7),
               "hom": [rng.gauss(0, 1) or 1.0, rng.gauss(0, 1)]}


def _arr_disk(ds):
    return CP.CP1Disk(np.array([complex(*d["c"]) for d in ds]), np.array([d["r"] for d in ds]))


def _query(D_, O_, what):
    """answers of the (possibly stale) object D_"""
    if what == "circle":
        c, r = D_.circle_parameters()
        return np.concatenate([np.asarray(c, float).reshape(-1), np.asarray(r, float).reshape(-1)])
    if what == "inside":
        return np.asarray(D_.center_inside(), float)
    if what == "contains":
        return np.asarray(D_.contains(O_, broadcast="pairwise"), float).reshape(-1)
    if what == "intersects":
        return np.asarray(D_.intersects(O_, broadcast="pairwise"), float).reshape(-1)
    if what == "fs":
        return np.concatenate([np.asarray(D_.fs_diameter(), float).reshape(-1),
                               np.abs(np.asarray(D_.fs_center().spherical_coords(), float)).reshape(-1) * 0 +
                               np.asarray(D_.fs_center().spherical_coords(), float).reshape(-1)])


def run_hist(inp):
    res = {}
    cin = np.array([complex(*d["c"]) for d in inp["disks"]])
    rin = np.array([d["r"] for d in inp["disks"]])
    snap = (cin.copy(), rin.copy())
    if inp.get("order", "AB") == "AB":
        D_ = CP.CP1Disk(cin, rin)
        U_ = _arr_disk(inp.get("unrelated", inp["other"]))      # an unrelated object of the same class (G3)
    else:
        U_ = _arr_disk(inp.get("unrelated", inp["other"]))
        D_ = CP.CP1Disk(cin, rin)
    res["inputs_kept"] = 0.0 if (np.array_equal(cin, snap[0]) and np.array_equal(rin, snap[1])) else 1.0
    O_ = _arr_disk(inp["other"])
    worst = 0.0
    where = None
    for n_, st in enumerate(inp["steps"]):
        if st["op"] == "query":
            got = _query(D_, O_, st["what"])
            fresh = CP.CP1Disk(np.array(D_.proj_data, copy=True))          # the same data in a brand-new object
            want = _query(fresh, _arr_disk(inp["other"]), st["what"])
            e = err(got, want)
            if e > worst:
                worst, where = e, [n_, st["what"]]
        elif st["op"] == "setitem":
            nd = CP.CP1Disk(np.array([complex(*st["disk"]["c"])]), np.array([st["disk"]["r"]]))
            if st["complement"]:
                nd = nd.complement()
            D_[st["i"]] = nd[0]
        elif st["op"] == "inplace":
            nd = CP.CP1Disk(np.array([complex(*st["disk"]["c"])]), np.array([st["disk"]["r"]]))
            D_.proj_data[st["i"]] = nd.proj_data[0]
        elif st["op"] == "transform":
            Mh = np.array([[complex(*st["M"][0]), complex(*st["M"][1])], [complex(*st["M"][2]), complex(*st["M"][3])]])
            if abs(np.linalg.det(Mh)) > 0.3:
                keep = Mh.copy()
                D_ = P.Transformation(Mh) @ D_                    # continue with the IMAGE
                if not np.array_equal(keep, Mh):
                    res["matrix_kept"] = 1.0
        elif st["op"] == "inv_then_product":
            Ma = np.array([[complex(*st["M"][0]), complex(*st["M"][1])], [complex(*st["M"][2]), complex(*st["M"][3])]])
            Mb = np.array([[1.0, 0.5j], [0.25, 1.5]]) + 0.1 * Ma
            if abs(np.linalg.det(Ma)) > 0.3 and abs(np.linalg.det(Mb)) > 0.3:
                A_, B_ = P.Transformation(Ma), P.Transformation(Mb)
                B_.inv(); A_.inv(); (B_ @ D_).circle_parameters()       # inverses / queries on the factors first
                for C_ in (A_ @ B_, B_ @ A_):
                    Cf = P.Transformation(np.array(C_.proj_data, copy=True))
                    e = max(err(_ri(C_.inv().proj_data), _ri(Cf.inv().proj_data)),
                            err(_ri((C_.inv() @ C_).proj_data / (C_.inv() @ C_).proj_data[..., :1, :1]), _ri(np.eye(2))))
                    if e > worst:
                        worst, where = e, [n_, "inv_then_product"]
                D_ = (A_ @ B_).inv() @ ((A_ @ B_) @ D_)
        elif st["op"] == "copy":
            from copy import copy as _copy
            D_ = _copy(D_)
        elif st["op"] == "flatten":
            D_ = D_.flatten_to_unit()
        elif st["op"] == "complement":
            D_ = D_.complement()
        elif st["op"] == "set":
            D_.set(np.array(U_.proj_data, copy=True)) if D_.proj_data.shape == U_.proj_data.shape else None
        elif st["op"] == "mutate_returned":
            c_, r_ = D_.circle_parameters()
            for v_ in (c_, r_, D_.center_inside(), D_.fs_diameter()):
                if isinstance(v_, np.ndarray) and v_.flags.writeable:
                    v_[...] = 7
        elif st["op"] == "other":
            for w_ in ("circle", "inside", "contains", "fs"):
                _query(U_, O_, w_)
        if st["op"] != "query":
            got = _query(D_, O_, "circle")
            want = _query(CP.CP1Disk(np.array(D_.proj_data, copy=True)), _arr_disk(inp["other"]), "circle")
            e = err(got, want)
            if e > worst:
                worst, where = e, [n_, st["op"]]
    res["history"] = worst
    eU = max(err(_query(U_, O_, w_), _query(_arr_disk(inp.get("unrelated", inp["other"])), _arr_disk(inp["other"]), w_)) for w_ in ("circle", "inside", "fs"))
    res["unrelated_object"] = eU if not any(s_["op"] == "set" for s_ in inp["steps"]) or True else 0.0
    # G2: tuples / lists / non-contiguous views for centre and radius
    big_ = np.zeros(2 * len(cin), dtype=complex); big_[::2] = snap[0]
    for nm, (cc_, rr_) in (("list", (list(snap[0]), list(snap[1]))), ("tuple", (tuple(snap[0]), tuple(snap[1]))), ("view", (big_[::2], snap[1][::-1][::-1]))):
        dd = CP.CP1Disk(cc_, np.asarray(rr_) if nm != "view" else rr_)
        c1, r1 = dd.circle_parameters()
        res["container_" + nm] = max(err(np.asarray(c1, float), np.stack([snap[0].real, snap[0].imag], -1)), err(np.asarray(r1, float), snap[1]))
    # G4: centres / radii of other dtypes (rounded to representable values), both orders of combination
    d1, d2 = inp.get("dtypes", ["complex128", "complex128"])
    cq = np.round(snap[0] * 4) / 4
    rq = np.round(snap[1] * 4) / 4 + 0.25
    def castc(a, d):
        return (np.round(a.real).astype(int) if d == "int" else (a.real.astype(d) if d.startswith("float") else a.astype(d)))
    ref_c = lambda d: (np.round(cq.real) + 0j) if d == "int" else ((cq.real + 0j) if d.startswith("float") else cq)
    for nm, dd_ in (("dtype_centre_1", d1), ("dtype_centre_2", d2)):
        dk = CP.CP1Disk(castc(cq, dd_), rq.astype("float32") if nm.endswith("1") else rq)
        c1, r1 = dk.circle_parameters()
        rc = ref_c(dd_)
        res[nm] = max(err(np.asarray(c1, float), np.stack([rc.real, rc.imag], -1)), err(np.asarray(r1, float), rq)) / 1e2
    pa = CP.CP1Point(castc(cq[:1], d1), coords="cx_affine")
    pb = CP.CP1Point(castc(cq[1:2], d2), coords="cx_affine")
    for nm, pair in (("dtype_order_12", [pa, pb]), ("dtype_order_21", [pb, pa])):
        try:
            comb = CP.CP1Point(pair)
            want = np.concatenate([np.asarray(q_.spherical_coords(), float).reshape(-1, 3) for q_ in pair])
            res[nm] = err(np.asarray(comb.spherical_coords(), float).reshape(-1, 3), want) / 1e2
        except Exception as ex:  # noqa: BLE001
            res[nm] = float("inf")
    res["history_where"] = where
    # overall scales: points, disks and matrices multiplied by tiny / huge complex scalars describe the same objects
    sc = inp["scale"][0] * cmath.exp(1j * inp["scale"][1])
    D0 = _arr_disk(inp["disks"])
    M = np.array([[complex(*inp["M"][0]), complex(*inp["M"][1])], [complex(*inp["M"][2]), complex(*inp["M"][3])]])
    if abs(np.linalg.det(M)) > 0.2:
        a = P.Transformation(M) @ D0
        b = P.Transformation(M * sc) @ D0
        c_ = CP.CP1Disk(np.array(D0.proj_data) * sc)
        pa, pb = a.circle_parameters(), b.circle_parameters()
        res["scale_matrix_circle"] = max(err(np.asarray(pb[0], float), np.asarray(pa[0], float)), err(np.asarray(pb[1], float), np.asarray(pa[1], float)))
        res["scale_matrix_inside"] = float(np.sum(a.center_inside() != b.center_inside()))
        pc = c_.circle_parameters()
        p0 = D0.circle_parameters()
        res["scale_data_circle"] = max(err(np.asarray(pc[0], float), np.asarray(p0[0], float)), err(np.asarray(pc[1], float), np.asarray(p0[1], float)))
        res["scale_data_inside"] = float(np.sum(c_.center_inside() != D0.center_inside()))
        pts = CP.CP1Point(np.array([complex(*d["c"]) for d in inp["disks"]]), coords="cx_affine")
        res["scale_point_spherical"] = err(np.asarray(CP.CP1Point(pts.proj_data * sc).spherical_coords(), float), np.asarray(pts.spherical_coords(), float))
        res["scale_point_chart"] = float(np.sum(CP.CP1Point(pts.proj_data * sc).in_affine_chart(0) != pts.in_affine_chart(0)))
    # every way of specifying the centre x both radius metrics
    c = np.array([complex(*d["c"]) for d in inp["disks"]])
    r = np.array([d["r"] for d in inp["disks"]])
    fr = np.full(len(c), inp["fs_r"])
    h = complex(*inp["hom"])
    cpt = CP.CP1Point(c, coords="cx_affine")
    moved = P.Transformation(M) @ cpt if abs(np.linalg.det(M)) > 0.2 else cpt
    moved_aff = np.asarray(moved.affine_coords(), complex).reshape(-1)
    variants = {
        "cx_affine": (c, "cx_affine", c),
        "real_affine": (np.stack([c.real, c.imag], -1), "real_affine", c),
        "spherical": (np.asarray(cpt.spherical_coords(), float), "spherical", c),
        "projective": (np.stack([np.full(len(c), h), h * c], -1), "projective", c),
        "CP1Point": (cpt, "projective", c),
        "CP1Point_moved": (moved, "projective", moved_aff),
    }
    for nm, (data, cc, centre) in variants.items():
        d1 = CP.CP1Disk(data, r, center_coords=cc)
        c1, r1 = d1.circle_parameters()
        res["centre_%s_affine" % nm] = max(err(np.asarray(c1, float), np.stack([centre.real, centre.imag], -1)), err(np.asarray(r1, float), r))
        d2 = CP.CP1Disk(data, fr, center_coords=cc, radius_metric="fs")
        fc = np.asarray(d2.fs_center().affine_coords(), complex).reshape(-1)
        res["centre_%s_fs" % nm] = max(max(fs_dist(x, y) for x, y in zip(fc, centre)), err(np.asarray(d2.fs_diameter(), float), 2 * fr))
    return res


def judge_hist(inp, obs, lr):
    if "exc" in obs:
        return {"expected": "history runs", "observed": obs, "tags": {"exc": obs["exc"]}}
    for k, v in obs.items():
        if k == "history_where":
            continue
        if not (v <= 1e-6):
            return {"expected": "%s residual <= 1e-6" % k, "observed": {"residual": v, "where": obs.get("history_where") if k == "history" else None},
                    "tags": {"what": k}}
    return None


CLAUSES = [
    Clause("spherical_corr", "corr", gen_sph, run_sph, judge_sph, lean=lean_sph, site="complex_projective.projective_to_spherical / spherical_to_projective",
           budget={"quick": 150, "thorough": 3000},
           what="Q(i) points incl. [0:1], [1:0], both poles and the equator, scalar and composite: spherical_coords and CP1Point(.., 'spherical') vs p2s / s2p"),
    Clause("disk_corr", "corr", gen_disk, run_disk, judge_disk, lean=lean_disk2, site="complex_projective.CP1Disk",
           budget={"quick": 120, "thorough": 2500},
           what="CP1Disk(centre, r): four points, circle_parameters, center_inside; Moebius image by a GL2(Q(i)) matrix; complement interior point; complement twice"),
    Clause("relations_corr", "corr", gen_rel, run_rel, judge_rel, lean=lean_rel, site="complex_projective.CP1Disk.contains / intersects",
           budget={"quick": 150, "thorough": 3000},
           what="contains/intersects, elementwise and pairwise, all bounded/unbounded combinations, vs the model's mask plumbing fed with the implementation's center_inside and disk_interactions tables"),
    Clause("fs_corr", "corr", gen_fs, run_fs, judge_fs, lean=lean_fs, site="complex_projective.CP1Disk(radius_metric='fs')",
           budget={"quick": 60, "thorough": 1500},
           what="the three spherical boundary points of CP1Disk(c, rad, 'fs') vs fsBoundary fed with the observed QR factors (numpy.linalg.qr wrapped in-process) and cos/sin(2 rad); QR contract residual"),
    Clause("points_oracle", "oracle", gen_pt, run_pt, judge_pt, site="complex_projective.CP1Point",
           budget={"quick": 200, "thorough": 5000},
           what="float points incl. 0 and infinity: |s|=1, p2s∘s2p, s2p∘p2s (projectively), agreement with stereographic projection, cx_affine / real_affine constructors"),
    Clause("disk_oracle", "oracle", gen_dsk, run_dsk, judge_dsk, site="complex_projective.CP1Disk",
           budget={"quick": 80, "thorough": 2000},
           what="disk reports centre and radius (affine and Fubini-Study); Moebius image bounded by the image circle on the side of the image interior point (40 sample points, disk and complement); complement flips membership, twice = identity"),
    Clause("history_oracle", "oracle", gen_hist, run_hist, judge_hist, site="complex_projective.CP1Disk (queries, edits, scales, centre specifications)",
           budget={"quick": 60, "thorough": 1500},
           what="histories: circle_parameters / center_inside / contains / intersects / fs_* queried between item assignments (disks[i] = ...) and in-place writes, each answer vs a fresh object on the same data; overall complex scales 1e-12..1e12 of matrices, disk data and points; centre given as cx_affine / real_affine / spherical / non-normalised projective / CP1Point / Moebius image of a CP1Point x affine and Fubini-Study radius"),
    Clause("relations_oracle", "oracle", gen_rel_oracle, run_rel_oracle, judge_rel_oracle, site="complex_projective.CP1Disk.contains / intersects",
           budget={"quick": 60, "thorough": 1500},
           what="contains / intersects vs a sampled set-theoretic reference (infinity, 1500 uniform sphere points, line of centres, both circles +-3%) in all four bounded/unbounded combinations, elementwise and pairwise"),
]
