"""C09 (kbmag clause): gap_parse.parse_record / _from_gap_record vs the character-level Lean model
(lean/GT/Model/GapParse.lean), on grammar-generated record texts with random whitespace, interval
syntax, quoted and bare tokens, nested records/lists; a malformed stream; and the built-in files."""
import os, glob
from vlib.runner import Clause
from geometry_tools.automata import gap_parse, fsa as fsamod

WS = [" ", "\n", "\t", "  ", " \n   ", ""]
BARE = ["a", "A", "b", "B", "x1", "true", "false", "dense", "identifiers", "simple", "_RWS", "t.u", "e", "rr", "re", "rec", "c3", "Z"]
QUOTED = ["DFA", "minimized", "dense deterministic", "a b", "x,y", "p)q", "[z]", "", ":=", "rec("]


def enc(v):
    if isinstance(v, dict):
        return {"rec": [[k, enc(x)] for k, x in v.items()]}
    if isinstance(v, range):
        return {"r": [str(v.start), str(v.stop - 1)]}
    if isinstance(v, list):
        return {"l": [enc(x) for x in v]}
    if isinstance(v, bool):
        return {"s": str(v)}
    if isinstance(v, int):
        return {"i": str(v)}
    if isinstance(v, float):
        return {"f": repr(v)}
    return {"s": v}


def unrange(a):
    """an interval and the list of the same integers are the same value (the container type of `[a..b]` is not documented)"""
    if set(a) == {"r"}:
        lo, hi = int(a["r"][0]), int(a["r"][1])
        return {"l": [{"i": str(x)} for x in range(lo, hi + 1)]}
    return a


def same(a, b):
    """model tree vs implementation tree; floats are compared numerically"""
    a, b = unrange(a), unrange(b)
    if set(a) != set(b):
        return False
    k = next(iter(a))
    if k == "f":
        try:
            return float(a[k]) == float(b[k])
        except ValueError:
            return False
    if k == "l":
        return len(a[k]) == len(b[k]) and all(same(x, y) for x, y in zip(a[k], b[k]))
    if k == "rec":
        return len(a[k]) == len(b[k]) and all(x[0] == y[0] and same(x[1], y[1]) for x, y in zip(a[k], b[k]))
    return a[k] == b[k]


def ws(rng):
    return rng.choice(WS)


def gen_value(rng, depth):
    c = rng.random()
    if depth <= 0 or c < 0.35:
        t = rng.random()
        if t < 0.4:
            return str(rng.randint(0, 40))
        if t < 0.5:
            return f"{rng.randint(0, 9)}.{rng.randint(0, 99)}"
        if t < 0.8:
            return rng.choice(BARE)
        return '"' + rng.choice(QUOTED) + '"'
    if c < 0.45:
        a = rng.randint(-3, 6)
        b = a + rng.randint(-1, 6)
        return f"[{a}..{b}]"
    if c < 0.8:
        items = [ws(rng) + gen_value(rng, depth - 1) + ws(rng) for _ in range(rng.randint(0, 4))]
        return "[" + ",".join(items) + ws(rng) + "]"
    return "rec(" + gen_fields(rng, depth - 1) + ws(rng) + ")"


def gen_fields(rng, depth):
    fs = []
    for _ in range(rng.randint(0, 4)):
        name = rng.choice(["isFSA", "names", "size", "type", "format", "x", "table", "r", "a.b", "initial"])
        fs.append(ws(rng) + name + ws(rng) + ":=" + ws(rng) + gen_value(rng, depth) + ws(rng))
    return ",".join(fs)


def gen_kbmag(rng):
    """a syntactically valid kbmag FSA record with a random table"""
    k = rng.randint(1, 4)
    labels = rng.sample(["a", "A", "b", "B", "c", "C", "x", "y"], k)
    n = rng.randint(1, 6)
    rows = []
    for _ in range(n):
        if k >= 2 and rng.random() < 0.1:
            a = rng.randint(0, n - k + 1) if n - k + 1 >= 0 else 0
            rows.append(f"[{a}..{a + k - 1}]")            # interval syntax for a row
        else:
            rows.append("[" + ",".join(ws(rng) + str(rng.randint(0, n)) + ws(rng) for _ in range(k)) + "]")
    start = rng.randint(1, n)
    w = lambda: ws(rng)
    acc = f"[1..{n}]" if rng.random() < 0.7 else "[" + ",".join(str(i) for i in range(1, n + 1)) + "]"
    return (f"_RWS.wa{w()}:={w()}rec({w()}isFSA{w()}:={w()}true,{w()}alphabet := rec(\n type := \"identifiers\",{w()}size := {k},"
            f"{w()}format := \"dense\",{w()}names{w()}:={w()}[{','.join(w() + l + w() for l in labels)}]{w()}),{w()}"
            f"states := rec( type := \"simple\", size := {n}{w()}),{w()}flags := [\"DFA\",\"minimized\"],{w()}"
            f"initial := [{start}],{w()}accepting := {acc},{w()}table := rec({w()}format := \"dense deterministic\",{w()}"
            f"numTransitions := {n * k},{w()}transitions := [{(',' + w()).join(rows)}{w()}]{w()}){w()});\n")


def builtin_texts():
    d = os.path.join(os.path.dirname(fsamod.__file__), "builtin")
    return [open(f).read() for f in sorted(glob.glob(os.path.join(d, "*")))]


def gen_parse(rng, n):
    for t in builtin_texts():
        yield {"text": t, "kind": "builtin"}
    for i in range(n):
        c = rng.random()
        if c < 0.35:
            yield {"text": gen_kbmag(rng), "kind": "kbmag"}
        elif c < 0.8:
            yield {"text": gen_fields(rng, 3) + rng.choice(["", ";", ";\n", " "]), "kind": "grammar"}
        else:
            t = gen_kbmag(rng) if rng.random() < 0.5 else gen_fields(rng, 3)
            t = list(t)
            for _ in range(rng.randint(1, 3)):      # malformed stream: delete / duplicate / replace a character
                if not t:
                    break
                k = rng.randrange(len(t))
                r = rng.random()
                if r < 0.5:
                    del t[k]
                elif r < 0.75:
                    t.insert(k, t[k])
                else:
                    t[k] = rng.choice('[]",():= ')
            yield {"text": "".join(t), "kind": "malformed"}


def run_parse(inp):
    rec, off = gap_parse.parse_record(inp["text"])
    return {"record": enc(rec), "offset": off}


def lean_parse(inp, obs):
    return [{"op": "c09.gap_parse", "text": inp["text"]}]


def judge_parse(inp, obs, lr):
    r = lr[0]
    if "exc" in obs:
        if "err" in r and r["err"] == obs["exc"]:
            return None
        if "err" in r and r["err"] == "ValueError":
            return None          # outside the model (exotic numeric literal); implementation failed differently
        return {"expected": r, "observed": obs, "tags": {"kind": inp["kind"], "exc": obs["exc"]}}
    if "err" in r:
        if r["err"] == "ValueError":
            return None          # model rejects exotic numeric literals Python's int()/float() accept: not modelled
        return {"expected": r, "observed": obs, "tags": {"kind": inp["kind"], "model_err": r["err"]}}
    m = r["ok"]
    if m["offset"] != obs["offset"] or not same(m["record"], obs["record"]):
        return {"expected": m, "observed": obs, "tags": {"kind": inp["kind"]}}
    return None


# ---- text -> automaton ----------------------------------------------------------------------
def gen_fsa(rng, n):
    for t in builtin_texts():
        yield {"text": t, "kind": "builtin"}
    for _ in range(n):
        yield {"text": gen_kbmag(rng), "kind": "kbmag"}


def run_fsa(inp):
    rec, _ = gap_parse.parse_record(inp["text"])
    A = fsamod._from_gap_record(rec)
    g = {str(v): {l: w for l, w in d.items()} for v, d in A.graph_dict.items()}
    o = sorted((str(v), l, str(w)) for v, d in A.out_dict.items() for w, ls in d.items() for l in ls)
    i = sorted((str(v), l, str(w)) for w, d in A.in_dict.items() for v, ls in d.items() for l in ls)
    return {"graph": g, "out": o, "in": i, "start": [int(s) for s in A.start_vertices]}


def lean_fsa(inp, obs):
    return [{"op": "c09.gap_fsa", "text": inp["text"]}]


def judge_fsa(inp, obs, lr):
    r = lr[0]
    if "exc" in obs:
        if "err" in r:
            return None
        return {"expected": r, "observed": obs, "tags": {"exc": obs["exc"], "kind": inp["kind"]}}
    if "err" in r:
        return {"expected": r, "observed": "automaton", "tags": {"model_err": r["err"], "kind": inp["kind"]}}
    m = r["ok"]
    medges = sorted((str(v), l, str(w)) for v, es in m["graph"] for l, w in es)
    gedges = sorted((v, l, str(w)) for v, d in obs["graph"].items() for l, w in d.items())
    # the text's table (through the model) must be exactly the automaton's edge set in all three views
    bad = None
    if gedges != medges:
        bad = "label view"
    elif [list(e) for e in obs["out"]] != [list(e) for e in medges]:
        bad = "outgoing view"
    elif [list(e) for e in obs["in"]] != [list(e) for e in medges]:
        bad = "incoming view"
    elif sorted(obs["start"]) != sorted(m["start"]):
        bad = "start state"
    if bad:
        return {"expected": {"edges": medges, "start": m["start"]}, "observed": obs, "tags": {"view": bad, "kind": inp["kind"]},
                "property_failure": True}
    return None


CLAUSES_PARSE = [
    Clause("gap_parse_corr", "corr", gen_parse, run_parse, judge_parse, lean=lean_parse,
           site="automata.gap_parse.parse_record", budget={"quick": 250, "thorough": 5000},
           what="parse_record(text) (value tree and consumed offset, or exception kind) vs the character-level Lean parser: kbmag records, random grammar texts with whitespace/intervals/quotes/nesting, malformed texts, all built-in files"),
    Clause("kbmag_table_corr", "corr", gen_fsa, run_fsa, judge_fsa, lean=lean_fsa,
           site="automata.fsa._from_gap_record", budget={"quick": 150, "thorough": 3000},
           what="automaton loaded from a kbmag record text: all three views and the start state equal the transition table written in the text as read by the Lean model (buildDict ∘ parseRecord)"),
]
CLAUSES = CLAUSES_PARSE
