"""C11 — derived data stays coherent with primary data; queries do not move objects (DESIGN §4 C11)."""
import itertools, math, warnings
from fractions import Fraction as F
import numpy as np
from vlib.runner import Clause
from vlib import q as Q
from props import _nd as N
from props import _objs as O
from props import _hist as HI
from geometry_tools import utils, hyperbolic as H, projective as P

LEVEL = "proof"
EXPLANATION = (
    "Lean: object state machine <kind, proj, aux> over ND arrays with construct/copy/apply/reshape/flatten/index/setItem/stack/combine/astype "
    "(setItem and combine as repaired); invariant Inv: stored aux is row-wise projectively equal to computeAux(kind, proj); inv_construct, inv_step "
    "for each operation (apply through C03's equivariance, needing a form-preserving matrix for segments and tangent vectors), inv_history by "
    "induction on the operation list; query_projEq: every in-place write reachable from a query (normalize on Point data, normalize + Gram-Schmidt "
    "on a tangent vector's aux rows) multiplies each stored row by a positive scalar or leaves it alone.  Correspondence: exact-rational histories "
    "on polygons, tangent vectors and segments against the model after every step.  Oracle: random (quick) / exhaustive (thorough) histories on the "
    "real code, all earlier objects kept alive (aliasing), after each step aux vs a fresh recomputation, around every query the rows of every stored "
    "array and of every caller-supplied array compared up to a positive scalar.")
ASSUMPTIONS = [
    "copy.copy / numpy view aliasing is observed by the oracle (all earlier objects re-checked after every step), not modelled in Lean (the model is pure)",
    "astype is the identity on exact values (float64 <-> complex128 conversions of real data)",
    "float tolerance 1e-6 (projective) after <= 8 isometries of translation length <= ~1.4",
]

CLAUSES = HI.clauses()


# =====================================================================================
# oracle: ill-matched inputs of combine / stacking (wave 6, G15): either refused, or the result is coherent
# (the unchanged library refuses them with ValueError; a change that starts accepting them must keep derived data in step)
# =====================================================================================
def gen_mismatch(rng, n):
    for i in range(n):
        yield {"what": ["combine_polygons", "stack_polygon_point", "stack_segment_pair", "stack_tangent_pair", "combine_equal"][i % 5],
               "k": rng.choice([3, 4, 5]), "mult": rng.choice([2, 3]), "seed": rng.randrange(10 ** 9), "order": rng.random() < 0.5}


def _coherent(obj, kind):
    """None, or why the object's derived data is not what a fresh object with the same primary data has"""
    pd = np.asarray(obj.proj_data)
    if obj.aux_data is None:
        return None
    ad = np.asarray(obj.aux_data)
    u, au = obj.unit_ndims, obj.aux_ndims
    if pd.shape[:pd.ndim - u] != ad.shape[:ad.ndim - au]:
        return {"why": "derived data has another composite shape than the primary data", "proj": list(pd.shape), "aux": list(ad.shape)}
    with np.errstate(all="ignore"):
        fr = type(obj)(np.array(pd, copy=True))
    if not O.aux_proj_eq(kind, ad, fr.aux_data, 1e-6):
        return {"why": "stored derived data differs from the recomputation from the primary data", "proj": list(pd.shape)}
    return None


def run_mismatch(inp):
    g = np.random.default_rng(inp["seed"])
    k, what = inp["k"], inp["what"]
    def poly(nv, cnt=None):
        ang = np.sort(g.uniform(0, 2 * np.pi, (cnt or 1, nv)), axis=-1) + np.linspace(0, 1e-3, nv)
        r = g.uniform(0.3, 0.8, (cnt or 1, nv))
        kk = np.stack([r * np.cos(ang), r * np.sin(ang)], axis=-1)
        return H.Polygon(H.Point(kk if cnt else kk[0], model="klein"))
    try:
        if what in ("combine_polygons", "combine_equal"):
            a = poly(k, 2)
            b = poly(k * inp["mult"] if what == "combine_polygons" else k, g.integers(1, 3))
            objs = [a, b] if inp["order"] else [b, a]
            res, kind = H.Polygon.combine(objs), "polygon"
        elif what == "stack_polygon_point":
            a = poly(k)
            b = H.Point(np.array(poly(k).proj_data))
            res, kind = H.Polygon([a, b] if inp["order"] else [b, a, a]), "polygon"
        elif what == "stack_segment_pair":
            mk = lambda: g.uniform(-0.5, 0.5, (2, 2))
            s = lambda: H.Segment(H.Point(mk(), model="klein"))
            pp = H.PointPair(H.Point(mk(), model="klein"))
            res, kind = H.Segment([s(), pp, s()] if inp["order"] else [pp, s()]), "segment"
        else:
            p, q = H.Point(g.uniform(-0.5, 0.5, 2), model="klein"), H.Point(g.uniform(-0.5, 0.5, 2), model="klein")
            tv = p.unit_tangent_towards(q)
            pp = H.PointPair(np.array(tv.proj_data))
            res, kind = H.TangentVector([tv, pp] if inp["order"] else [pp, tv]), "tangent"
    except Exception as e:
        return {"refused": type(e).__name__}
    return {"refused": None, "incoherent": _coherent(res, kind), "equal_case": what == "combine_equal"}


def judge_mismatch(inp, obs, lr):
    tags = {"what": inp["what"], "error_path": True}
    if "exc" in obs:
        return {"expected": "refusal or a coherent object", "observed": obs, "tags": dict(tags, exc=obs["exc"])}
    if obs["refused"]:
        if inp["what"] == "combine_equal":
            return {"expected": "polygons with equal vertex counts combine", "observed": obs, "tags": tags}
        return None
    if obs["incoherent"]:
        return {"expected": "an ill-matched combine / stack is either refused or yields an object whose derived data matches its primary data",
                "observed": obs["incoherent"], "tags": tags}
    return None


CLAUSES = CLAUSES + [
    Clause("mismatch_oracle", "oracle", gen_mismatch, run_mismatch, judge_mismatch, site="projective.ProjectiveObject.combine / _construct_from_object (ill-matched inputs)",
           budget={"quick": 50, "thorough": 1000},
           what="combine of polygons with different vertex counts (k and a multiple of k), stacking lists that mix objects with and without derived data "
                "(Polygon+Point, Segment+PointPair, TangentVector+PointPair, both orders): refused, or the result's derived data has the composite shape "
                "of, and equals the recomputation from, its primary data; equal vertex counts must combine"),
]
