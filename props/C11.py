"""C11 — derived data stays coherent with primary data; queries do not move objects (DESIGN §4 C11)."""
import itertools, math, warnings
from fractions import Fraction as F
import numpy as np
from vlib.runner import Clause
from vlib import q as Q
from props import _nd as N
from props import _objs as O
from props import _hist as HI
from geometry_tools import utils, hyperbolic as H, projective as P

LEVEL = "proof"
EXPLANATION = (
    "Lean: object state machine <kind, proj, aux> over ND arrays with construct/copy/apply/reshape/flatten/index/setItem/stack/combine/astype "
    "(setItem and combine as repaired); invariant Inv: stored aux is row-wise projectively equal to computeAux(kind, proj); inv_construct, inv_step "
    "for each operation (apply through C03's equivariance, needing a form-preserving matrix for segments and tangent vectors), inv_history by "
    "induction on the operation list; query_projEq: every in-place write reachable from a query (normalize on Point data, normalize + Gram-Schmidt "
    "on a tangent vector's aux rows) multiplies each stored row by a positive scalar or leaves it alone.  Correspondence: exact-rational histories "
    "on polygons, tangent vectors and segments against the model after every step.  Oracle: random (quick) / exhaustive (thorough) histories on the "
    "real code, all earlier objects kept alive (aliasing), after each step aux vs a fresh recomputation, around every query the rows of every stored "
    "array and of every caller-supplied array compared up to a positive scalar.")
ASSUMPTIONS = [
    "copy.copy / numpy view aliasing is observed by the oracle (all earlier objects re-checked after every step), not modelled in Lean (the model is pure)",
    "astype is the identity on exact values (float64 <-> complex128 conversions of real data)",
    "float tolerance 1e-6 (projective) after <= 8 isometries of translation length <= ~1.4",
]

CLAUSES = HI.clauses()
