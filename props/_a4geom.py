"""Shared generators / exact helpers for C13, C14, C15 (rational isometries of O(n,1), float samplers)."""
import math
from fractions import Fraction as F
import numpy as np
from vlib import q as Q


# ---------------------------------------------------------------- exact linear algebra over Q
def minkF(x, y):
    return -x[0] * y[0] + sum(a * b for a, b in zip(x[1:], y[1:]))


def dotF(x, y):
    return sum(a * b for a, b in zip(x, y))


def matmulF(A, B):
    return [[sum(A[i][k] * B[k][j] for k in range(len(B))) for j in range(len(B[0]))] for i in range(len(A))]


def vecmatF(v, M):
    return [sum(v[k] * M[k][j] for k in range(len(v))) for j in range(len(M[0]))]


def identF(n):
    return [[F(int(i == j)) for j in range(n)] for i in range(n)]


def transF(M):
    return [list(r) for r in zip(*M)]


def invF(M):
    """exact inverse by Gauss-Jordan"""
    n = len(M)
    A = [list(r) + [F(int(i == j)) for j in range(n)] for i, r in enumerate(M)]
    for c in range(n):
        p = next(r for r in range(c, n) if A[r][c] != 0)
        A[c], A[p] = A[p], A[c]
        d = A[c][c]
        A[c] = [x / d for x in A[c]]
        for r in range(n):
            if r != c and A[r][c] != 0:
                f = A[r][c]
                A[r] = [x - f * y for x, y in zip(A[r], A[c])]
    return [r[n:] for r in A]


def rat_iso(rng, dim, k=None, den=5):
    """random element of O(dim,1)(Q), row convention (rows Minkowski-orthonormal, row 0 timelike):
    product of rational boosts in planes (0,i) and rational rotations in planes (i,j)."""
    n = dim + 1
    M = identF(n)
    for _ in range(k if k is not None else rng.randint(2, 4)):
        E = identF(n)
        if dim >= 2 and rng.random() < 0.5:
            i, j = rng.sample(range(1, n), 2)
            c, s = Q.rrot(rng, den)
            E[i][i], E[i][j], E[j][i], E[j][j] = c, -s, s, c
        else:
            i = rng.randint(1, dim)
            ch, sh, _ = Q.rboost(rng, den)
            if rng.random() < 0.5:
                sh = -sh
            E[0][0], E[0][i], E[i][0], E[i][i] = ch, sh, sh, ch
        M = matmulF(M, E)
    return M


def rscale(rng, both_signs=True):
    while True:
        x = F(rng.randint(-9, 9) if both_signs else rng.randint(1, 9), rng.randint(1, 6))
        if x != 0:
            return x


def qv(v):
    return [Q.qs(x) for x in v]


def fv(v):
    return np.array([float(F(x)) for x in v])


def fm(M):
    return np.array([[float(F(x)) for x in r] for r in M])


# ---------------------------------------------------------------- float samplers
def fball(rng, dim, rmax=0.95):
    v = [rng.gauss(0, 1) for _ in range(dim)]
    nv = math.sqrt(sum(x * x for x in v)) or 1.0
    r = rmax * rng.random() ** (1.0 / dim)
    return [x / nv * r for x in v]


def fsphere(rng, dim):
    while True:
        v = [rng.gauss(0, 1) for _ in range(dim)]
        nv = math.sqrt(sum(x * x for x in v))
        if nv > 1e-3:
            return [x / nv for x in v]


def float_iso(rng, dim, k=3, tmax=1.5):
    """random float element of O(dim,1), row convention"""
    n = dim + 1
    M = np.eye(n)
    for _ in range(k):
        E = np.eye(n)
        if dim >= 2 and rng.random() < 0.5:
            i, j = rng.sample(range(1, n), 2)
            a = rng.uniform(-math.pi, math.pi)
            E[i, i], E[i, j], E[j, i], E[j, j] = math.cos(a), -math.sin(a), math.sin(a), math.cos(a)
        else:
            i = rng.randint(1, dim)
            t = rng.uniform(-tmax, tmax)
            E[0, 0], E[0, i], E[i, 0], E[i, i] = math.cosh(t), math.sinh(t), math.sinh(t), math.cosh(t)
        M = M @ E
    return M


def J(dim):
    return np.diag([-1.0] + [1.0] * dim)


def mink(x, y):
    x, y = np.asarray(x, float), np.asarray(y, float)
    return -x[..., 0] * y[..., 0] + (x[..., 1:] * y[..., 1:]).sum(-1)


def parallel_pos(a, b, tol=1e-8):
    """a is a positive multiple of b (vectors), relative tolerance"""
    a, b = np.asarray(a, float), np.asarray(b, float)
    na, nb = np.linalg.norm(a), np.linalg.norm(b)
    if not (np.isfinite(na) and np.isfinite(nb)) or na == 0 or nb == 0:
        return False
    return bool(np.linalg.norm(a / na - b / nb) <= tol)


def proj_equal(a, b, tol=1e-8):
    a, b = np.asarray(a, float), np.asarray(b, float)
    na, nb = np.linalg.norm(a), np.linalg.norm(b)
    if not (np.isfinite(na) and np.isfinite(nb)) or na == 0 or nb == 0:
        return False
    a, b = a / na, b / nb
    return bool(min(np.linalg.norm(a - b), np.linalg.norm(a + b)) <= tol)


# ---------------------------------------------------------------- number packagings of real parameters
INT_PACKS = ["int", "np.int64", "np.int32", "0d-int", "float", "np.float64", "np.float32", "0d-float"]
FLOAT_PACKS = ["float", "np.float64", "0d-float"]


def pack(v, kind):
    """the same real number in a given packaging (integer packagings only for integral values)"""
    if kind == "int":
        return int(v)
    if kind == "np.int64":
        return np.int64(v)
    if kind == "np.int32":
        return np.int32(v)
    if kind == "0d-int":
        return np.array(int(v))
    if kind == "np.float64":
        return np.float64(v)
    if kind == "np.float32":
        return np.float32(v)
    if kind == "0d-float":
        return np.array(float(v))
    return float(v)


def rand_real(rng, lo, hi, p_int=0.4, ints=None):
    """a real parameter as {"v": value, "pack": packaging}: with probability p_int an integral value in [lo, hi]
    in a random packaging (Python int, NumPy integer scalars, 0-d integer array, or the same value as a float)"""
    cands = ints if ints is not None else [k for k in range(int(math.ceil(lo)), int(math.floor(hi)) + 1) if k != 0]
    if cands and rng.random() < p_int:
        return {"v": rng.choice(cands), "pack": rng.choice(INT_PACKS)}
    return {"v": rng.uniform(lo, hi), "pack": rng.choice(FLOAT_PACKS)}


def unpack(d):
    """packaged value; plain numbers (older corpus entries) are taken as floats"""
    if not isinstance(d, dict):
        return float(d)
    return pack(d["v"], d["pack"])


def val(d):
    return float(d["v"]) if isinstance(d, dict) else float(d)


def is32(d):
    return isinstance(d, dict) and d["pack"] == "np.float32"


def same_tangent(p_img, v_img, p, v, tol=1e-7):
    """(p_img, v_img) is the tangent vector (p, v) up to positive scalings and ONE common sign:
    a tangent vector is the class of (x, v) under (x, v) ~ (-x, -v)"""
    p_img, p = np.asarray(p_img, float), np.asarray(p, float)
    if not proj_equal(p_img, p, tol):
        return False
    sg = 1.0 if float(np.dot(p_img, p)) > 0 else -1.0
    return parallel_pos(sg * np.asarray(v_img, float), v, tol)


# ---------------------------------------------------------------- integer packagings of object data
DATA_PACKS = ["float64", "int64", "int32", "list", "float32"]


def pack_data(a, kind):
    """integral-valued coordinate data in a given packaging (nested lists of Python ints, integer arrays, ...)"""
    a = np.array(a)
    if kind == "int64":
        return np.rint(a).astype(np.int64)
    if kind == "int32":
        return np.rint(a).astype(np.int32)
    if kind == "list":
        return np.rint(a).astype(int).tolist()
    if kind == "float32":
        return a.astype(np.float32)
    return a.astype(np.float64)


def int_timelike(rng, dim):
    while True:
        v = [rng.randint(2, 6)] + [rng.randint(-3, 3) for _ in range(dim)]
        if -v[0] ** 2 + sum(x * x for x in v[1:]) < 0:
            return v


def int_spacelike(rng, dim):
    while True:
        v = [rng.randint(-2, 2)] + [rng.randint(-3, 3) for _ in range(dim)]
        if -v[0] ** 2 + sum(x * x for x in v[1:]) > 0:
            return v


PYTH = [(1, 1, 0), (1, 0, 1), (1, -1, 0), (1, 0, -1), (5, 3, 4), (5, 4, 3), (5, -3, 4), (5, 4, -3), (5, -4, -3), (13, 5, 12), (13, -12, 5), (17, 8, 15), (17, -15, -8)]


def int_lightlike(rng, dim):
    t, a, b = rng.choice(PYTH)
    v = [t, a, b] + [0] * (dim - 2)
    if dim > 2 and rng.random() < 0.5:
        i, j = rng.sample(range(1, dim + 1), 2)
        v[i], v[j] = v[j], v[i]
    return v
