"""C12 — results are independent of number packaging and of homogeneous rescaling (DESIGN §4 C12)."""
import math, re, io, os, glob, textwrap, contextlib, itertools
from fractions import Fraction as F
import numpy as np
from vlib.runner import Clause, REPO
from vlib import q as Q
from vlib.canon import close, err, proj_close, mat_proj_close, finite
from geometry_tools import hyperbolic as H, projective as P, utils, coxeter
from geometry_tools.utils import types as T

LEVEL = "proof"
EXPLANATION = (
    "Lean: a finite decision model of utils/types.py + check_type/array_like/zeros/identity/number and of every listed "
    "entry point's dtype (real_input_floating etc. by `decide +kernel` over the whole packaging table, for every NumPy major; "
    "the negation for the original types.py documents D2), and field-generic rescaling theorems (affine coordinates, cosh d, "
    "segment ideal endpoints as an unordered pair, circle parameters, reflections, origin_to row 0, apply, repaired "
    "unit_tangent_towards / point_along, with the proved negation for the pinned formula).  Python: exhaustive correspondence "
    "of NumPy's casting tables, types.py (repaired and original source), the factories and the entry-point dtype table with "
    "the model; exact-Q correspondence of the rescaling formulas; oracles: every entry point x every packaging of the same "
    "value (dtype kind, allclose to the float64 reference, inverse/eig/trig succeed), every geometric output for X vs lambda.X "
    "with independent per-unit lambda in +-[0.1,10] compared in Klein coordinates, and all README/docstring examples run.")
ASSUMPTIONS = [
    "NumPy >= 2 behaviour is validated against the installed NumPy; the NumPy 1 column of can_cast (value-based casting) is trusted",
    "Sage branches (SAGE_AVAILABLE) and base_ring are not modelled",
    "entry points are exercised at representative shapes (scalars, 2x2 / 3x3 matrices, points of H^2..H^4); the dtype decision does not look at shapes",
    "IEEE rounding within tolerance on Klein radius <= 0.9; float32 packagings are compared at 1e-5",
]
MAJOR = int(np.__version__.split(".")[0])
DTS = ["int64", "float32", "float64", "complex128", "object"]


class Opaque:
    """an object NumPy cannot read as a number (stand-in for a Sage expression)"""
    def __repr__(self):
        return "Opaque()"


# ------------------------------------------------------------------------------------------------
# packagings
# ------------------------------------------------------------------------------------------------
def all_packs():
    ps = [{"k": "py", "t": t} for t in ("int", "float", "complex")]
    ps += [{"k": "scalar", "d": d} for d in DTS if d != "object"]      # NumPy has no object scalar
    ps += [{"k": "arr", "rank": r, "d": d} for r in (0, 1, 2) for d in DTS]
    ps += [{"k": "list", "depth": k, "t": t} for k in (1, 2) for t in ("int", "float", "complex")]
    ps += [{"k": "other"}]
    return ps


def is_real(p):
    if p["k"] == "py" or p["k"] == "list":
        return p["t"] in ("int", "float")
    if p["k"] in ("scalar", "arr"):
        return p["d"] in ("int64", "float32", "float64")
    return False


def is_int(p):
    return (p.get("t") == "int") or (p.get("d") == "int64")


def pyval(t, v):
    return {"int": int, "float": float, "complex": complex}[t](v)


def build(p, v=1, shape=None):
    """the Python object packaging the value v (scalar) or the nested list `v` of shape `shape`"""
    k = p["k"]
    if k == "other":
        return Opaque()
    if shape is None:
        if k == "py":
            return pyval(p["t"], v)
        if k == "scalar":
            return np.dtype(p["d"]).type(v)
        if k == "arr":
            shp = (2,) * p["rank"]
            if p["d"] == "object":
                a = np.empty(shp, dtype=object)
                a[...] = float(v)
                return a
            return np.full(shp, v, dtype=p["d"])
        if k == "list":
            x = pyval(p["t"], v)
            return [x, x] if p["depth"] == 1 else [[x, x], [x, x]]
    else:
        # structured value: v is a nested list of the right shape
        def conv(z, f):
            return [conv(y, f) for y in z] if isinstance(z, list) else f(z)
        if k == "list":
            return conv(v, lambda z: pyval(p["t"], z))
        if k == "arr":
            return np.array(v, dtype=p["d"])
    raise ValueError("packaging %r does not fit" % (p,))


def dtname(x):
    return str(np.asarray(x).dtype) if not hasattr(x, "dtype") else str(x.dtype)


def model_ans(res):
    return res.get("ok", res.get("err"))


def impl_ans(obs):
    return obs["exc"] if "exc" in obs else obs["res"]


def judge_eq(what):
    def judge(inp, obs, lr):
        m, i = model_ans(lr[0]), impl_ans(obs)
        if m != i:
            return {"expected": {"model": m}, "observed": {"implementation": i, "detail": obs},
                    "tags": {"what": what, "case": inp.get("case", "")}}
        return None
    return judge


# ------------------------------------------------------------------------------------------------
# S2a: NumPy's own tables (can_cast, asarray dtype, result_type)
# ------------------------------------------------------------------------------------------------
TARGETS = {"int": int, "float": float, "complex": np.dtype("complex")}


def gen_numpy(rng, n):
    for p in all_packs():
        for t in TARGETS:
            yield {"case": "can_cast", "pack": p, "to": t}
        yield {"case": "probe", "pack": p}
    for d in DTS:
        for t in TARGETS:
            yield {"case": "can_cast_dtype", "d": d, "to": t}
        for e in DTS:
            yield {"case": "promote", "d": d, "e": e}


def run_numpy(inp):
    c = inp["case"]
    if c == "can_cast":
        return {"res": bool(np.can_cast(build(inp["pack"]), TARGETS[inp["to"]]))}
    if c == "can_cast_dtype":
        return {"res": bool(np.can_cast(np.dtype(inp["d"]), TARGETS[inp["to"]]))}
    if c == "probe":
        x = build(inp["pack"])
        return {"res": {"asarray": str(np.asarray(x).dtype), "attr": str(x.dtype) if hasattr(x, "dtype") else None}}
    if c == "promote":
        return {"res": str(np.result_type(np.dtype(inp["d"]), np.dtype(inp["e"])))}


def lean_numpy(inp, obs):
    c = inp["case"]
    if c == "can_cast":
        return [{"op": "c12.can_cast", "major": MAJOR, "from": inp["pack"], "to": inp["to"]}]
    if c == "can_cast_dtype":
        return [{"op": "c12.can_cast", "major": MAJOR, "from": {"dtype": inp["d"]}, "to": inp["to"]}]
    if c == "probe":
        return [{"op": "c12.probe", "pack": inp["pack"]}]
    if c == "promote":
        return [{"op": "c12.promote", "d": inp["d"], "e": inp["e"]}]


def judge_numpy(inp, obs, lr):
    if inp["case"] == "probe":
        m, i = lr[0].get("ok"), obs.get("res")
        if m != i:
            return {"expected": {"model": m}, "observed": {"implementation": i}, "tags": {"what": "probe", "case": "probe"}}
        return None
    return judge_eq("numpy table")(inp, obs, lr)


# ------------------------------------------------------------------------------------------------
# S2b: utils/types.py — repaired (imported) and ORIGINAL (source kept here, executed against NumPy)
# ------------------------------------------------------------------------------------------------
_PINNED_SRC = '''
import numpy as np
def inexact_type(array):
    try:
        return (not np.can_cast(array, int) and
                (np.can_cast(array, np.dtype("complex")) or
                 np.can_cast(array, float)))
    except TypeError:
        return False

def is_linalg_type(array):
    try:
        return (np.can_cast(array, np.dtype("complex")) or
                np.can_cast(array, float))
    except TypeError:
        return False
'''
_PINNED = {}
exec(_PINNED_SRC, _PINNED)


def gen_types(rng, n):
    for p in all_packs():
        for lib in ("repaired", "pinned"):
            yield {"case": lib, "pack": p, "lib": lib}


def run_types(inp):
    x = build(inp["pack"])
    if inp["lib"] == "repaired":
        return {"res": {"is_linalg": bool(T.is_linalg_type(x)), "inexact": bool(T.inexact_type(x))}}
    return {"res": {"is_linalg": bool(_PINNED["is_linalg_type"](x)), "inexact": bool(_PINNED["inexact_type"](x))}}


def lean_types(inp, obs):
    return [{"op": "c12.is_linalg", "major": MAJOR, "lib": inp["lib"], "pack": inp["pack"]}]


# ------------------------------------------------------------------------------------------------
# S2c: check_type / array_like / zeros / identity / number, exhaustively
# ------------------------------------------------------------------------------------------------
def gen_factories(rng, n):
    packs = all_packs()
    opt_dt = [None] + DTS
    for fn in ("check_type", "zeros", "identity"):
        for like in [None] + packs:
            for dt in opt_dt:
                for it in (True, False):
                    yield {"case": fn, "fn": fn, "like": like, "dtype": dt, "integer_type": it}
    for arr in packs:
        for like in [None] + packs:
            for it in (True, False):
                yield {"case": "array_like", "fn": "array_like", "array": arr, "like": like, "dtype": None, "integer_type": it}
        for dt in DTS:
            yield {"case": "array_like", "fn": "array_like", "array": arr, "like": None, "dtype": dt, "integer_type": True}
    for val in packs:
        for dt in opt_dt:
            yield {"case": "number", "fn": "number", "val": val, "dtype": dt}


def _pk(x):
    """packaging class of a returned Python scalar"""
    if isinstance(x, (bool, np.bool_)):
        return "py:bool"
    if isinstance(x, np.generic):
        return "scalar:" + str(x.dtype)
    if isinstance(x, np.ndarray):
        return "arr:" + str(x.dtype)
    if isinstance(x, int):
        return "py:int"
    if isinstance(x, float):
        return "py:float"
    if isinstance(x, complex):
        return "py:complex"
    if isinstance(x, list):
        return "list"
    return "other"


def run_factories(inp):
    fn = inp["fn"]
    like = None if inp.get("like") is None else build(inp["like"])
    dt = None if inp.get("dtype") is None else np.dtype(inp["dtype"])
    if fn == "check_type":
        return {"res": str(np.dtype(utils.check_type(dtype=dt, like=like, integer_type=inp["integer_type"])[1]))}
    if fn == "zeros":
        return {"res": str(utils.zeros((2,), dtype=dt, like=like, integer_type=inp["integer_type"]).dtype)}
    if fn == "identity":
        return {"res": str(utils.identity(2, dtype=dt, like=like, integer_type=inp["integer_type"]).dtype)}
    if fn == "array_like":
        return {"res": str(utils.array_like(build(inp["array"]), like=like, dtype=dt, integer_type=inp["integer_type"]).dtype)}
    if fn == "number":
        return {"res": _pk(utils.number(build(inp["val"]), dtype=dt))}


def lean_factories(inp, obs):
    fn = inp["fn"]
    op = {"op": "c12." + fn, "major": MAJOR}
    for k in ("like", "dtype", "integer_type", "array", "val"):
        if k in inp:
            op[k] = inp[k]
    return [op]


def judge_factories(inp, obs, lr):
    m, i = model_ans(lr[0]), impl_ans(obs)
    if inp["fn"] == "number" and inp["val"]["k"] in ("arr", "list", "other"):
        return None      # number() is only ever called on numeric scalars; .item() of a non-scalar array raises
    if i in ("ValueError",) and m == "TypeError":
        i = "TypeError"   # np.array(complex list, dtype=float) raises TypeError; some NumPy paths raise ValueError
    if m != i:
        return {"expected": {"model": m}, "observed": {"implementation": i}, "tags": {"what": inp["fn"], "case": inp["case"]}}
    return None


# ------------------------------------------------------------------------------------------------
# the listed entry points
# ------------------------------------------------------------------------------------------------
ROT90 = [[0, -1], [1, 0]]
SL2 = [[2, 1], [1, 1]]
PERM = [[1, 0, 0], [0, 0, 1], [0, -1, 0]]
COX = [[1, 3, 2], [3, 1, 7], [2, 7, 1]]
COX_INF = [[1, -1, 3], [-1, 1, 3], [3, 3, 1]]      # an infinite-order label (<= 0)


def _scalar_pack(p):
    return p["k"] in ("py", "scalar") or (p["k"] == "arr" and p["rank"] == 0)


def _matrix_pack(p):
    return (p["k"] == "arr" and p["rank"] == 2) or (p["k"] == "list" and p["depth"] == 2)


def _vector_pack(p):
    return (p["k"] == "arr" and p["rank"] in (1, 2)) or p["k"] == "list"


def _vec_value(p, row):
    rank = p.get("rank", p.get("depth"))
    return row if rank == 1 else [row, row]


# name -> (accepts(pack), build value for pack given a scalar/int parameter, call -> ndarray)
ENTRIES = {
    "rotation_matrix": (_scalar_pack, lambda p, v: build(p, v), lambda o: utils.rotation_matrix(o)),
    "standard_rotation": (_scalar_pack, lambda p, v: build(p, v), lambda o: H.Isometry.standard_rotation(o).proj_data),
    "elliptic": (_matrix_pack, lambda p, v: build(p, ROT90, (2, 2)), lambda o: H.Isometry.elliptic(2, o).proj_data),
    "sl2_iso": (_matrix_pack, lambda p, v: build(p, SL2, (2, 2)), lambda o: H.sl2_iso(o).proj_data),
    "from_angle": (lambda p: p["k"] != "other", lambda p, v: build(p, v), lambda o: H.IdealPoint.from_angle(o).proj_data),
    "regular_polygon": (_scalar_pack, lambda p, v: build(p, v), lambda o: H.Polygon.regular_polygon(5, radius=o).proj_data),
    "standard_loxodromic": (_scalar_pack, lambda p, v: build(p, abs(v)), lambda o: H.Isometry.standard_loxodromic(2, o).proj_data),
    "point_along": (_scalar_pack, lambda p, v: build(p, v),
                    lambda o: H.TangentVector.get_base_tangent(2).normalized().point_along(o).proj_data),
    "regular_polygon_angle": (_scalar_pack, lambda p, v: build(p, v), lambda o: H.Polygon.regular_polygon(5, angle=o).proj_data),
    "coxeter_rep": (_matrix_pack, lambda p, v: build(p, COX_INF if (v is not None and int(abs(v)) % 2 == 0) else COX, (3, 3)),
                    lambda o: np.stack([coxeter.CoxeterGroup(matrix=o).geometric_representation()[g] for g in "abc"])),
    "array_like": (lambda p: True, lambda p, v: build(p, v), lambda o: utils.array_like(o)),
    "zeros_float": (lambda p: True, lambda p, v: build(p, v), lambda o: utils.zeros((2,), like=o, integer_type=False)),
    "identity_float": (lambda p: True, lambda p, v: build(p, v), lambda o: utils.identity(2, like=o, integer_type=False)),
    "point_hyperboloid": (_vector_pack, lambda p, v: build(p, _vec_value(p, [2, 1, 0]), (3,)), lambda o: H.Point(o).hyperboloid_coords()),
    "point_affine_hyperboloid": (_vector_pack, lambda p, v: build(p, _vec_value(p, [0, 0]), (2,)),
                                 lambda o: H.Point(o, model="klein").hyperboloid_coords()),
    "transformation_inv": (_matrix_pack, lambda p, v: build(p, PERM, (3, 3)), lambda o: P.Transformation(o).inv().proj_data),
    "zeros": (lambda p: True, lambda p, v: build(p, v), lambda o: utils.zeros((2,), like=o)),
    "identity": (lambda p: True, lambda p, v: build(p, v), lambda o: utils.identity(2, like=o)),
    "point_ctor": (_vector_pack, lambda p, v: build(p, _vec_value(p, [2, 1, 0]), (3,)), lambda o: H.Point(o).proj_data),
    "point_affine": (_vector_pack, lambda p, v: build(p, _vec_value(p, [0, 0]), (2,)), lambda o: H.Point(o, model="klein").proj_data),
    "transformation_ctor": (_matrix_pack, lambda p, v: build(p, PERM, (3, 3)), lambda o: P.Transformation(o, column_vectors=True).proj_data),
}
FLOATING = {"standard_loxodromic", "point_along", "regular_polygon_angle", "rotation_matrix", "standard_rotation", "elliptic", "sl2_iso", "from_angle", "regular_polygon", "coxeter_rep",
            "array_like", "zeros_float", "identity_float", "point_hyperboloid", "point_affine_hyperboloid", "transformation_inv"}


def gen_entries(rng, n):
    for name, (acc, _, _) in ENTRIES.items():
        for p in all_packs():
            if is_real(p) and acc(p):
                yield {"case": name, "entry": name, "pack": p}


def run_entries(inp):
    acc, mk, call = ENTRIES[inp["entry"]]
    return {"res": str(call(mk(inp["pack"], 1)).dtype)}


def lean_entries(inp, obs):
    return [{"op": "c12.entry_dtype", "major": MAJOR, "entry": inp["entry"], "pack": inp["pack"]}]


def judge_entries(inp, obs, lr):
    m, i = model_ans(lr[0]), impl_ans(obs)
    if m != i:
        f = {"expected": {"model": m}, "observed": {"implementation": i, "detail": obs},
             "tags": {"what": "entry dtype", "entry": inp["entry"], "int_pack": is_int(inp["pack"]), "pack": inp["pack"]["k"]}}
        # the disagreement alone shows the property failing when the implementation raised or produced
        # non-floating data where the property demands floating point
        if "exc" in obs or (inp["entry"] in FLOATING and not i.startswith("float")) or i == "object":
            f["property_failure"] = True
        return f
    return None


# ------------------------------------------------------------------------------------------------
# S3a: every entry point x every packaging of the same value
# ------------------------------------------------------------------------------------------------
def _iso_post(M):
    T_ = H.Isometry(M)
    inv = T_.inv().proj_data
    prod = np.asarray(M, dtype=float) @ np.asarray(inv, dtype=float)
    w = np.linalg.eigvals(np.asarray(M))
    o = T_.apply(H.Point.get_origin(M.shape[-1] - 1)).coords("klein")
    return {"inv_ok": close(prod, np.eye(M.shape[-1]), 1e-5), "eig": finite(w), "origin": np.asarray(o, dtype=float).tolist(),
            "form": close(np.asarray(M, float) @ np.diag([-1.0] + [1.0] * (M.shape[-1] - 1)) @ np.asarray(M, float).T,
                          np.diag([-1.0] + [1.0] * (M.shape[-1] - 1)), 1e-5)}


def _post(entry, out, obj):
    """the library's own inverse / eigenvalue / trigonometric routines on the produced data"""
    if entry in ("standard_rotation", "elliptic", "sl2_iso", "standard_loxodromic"):
        return _iso_post(out)
    if entry == "rotation_matrix":
        return {"inv_ok": close(np.asarray(utils.invert(out), float) @ np.asarray(out, float), np.eye(2), 1e-5),
                "eig": finite(np.linalg.eigvals(out)), "form": close(np.linalg.det(np.asarray(out, float)), 1.0, 1e-5)}
    if entry == "from_angle":
        ip = H.IdealPoint(out)
        k = np.asarray(ip.coords("klein"), dtype=float)
        return {"form": close((k * k).sum(-1), np.ones(k.shape[:-1]), 1e-5)}
    if entry == "regular_polygon":
        pg = H.Polygon(out)
        d = np.asarray(H.Point(out).distance(H.Point.get_origin(2)), dtype=float)
        return {"form": close(d, np.full(d.shape, float(np.asarray(obj).reshape(-1)[0])), 1e-5)}
    if entry == "coxeter_rep":
        labels_before = np.array(np.asarray(obj, dtype=float))
        G = coxeter.CoxeterGroup(matrix=obj)
        sq = [close(np.asarray(m, float) @ np.asarray(m, float), np.eye(3), 1e-6) for m in out]
        # queries that read the labels again after bilinear_form has run
        cm = np.asarray(G.cartan_matrix({(0, 1): -2.5}), float)
        tv = np.asarray(G.tits_vinberg_rep({(0, 1): -2.5})["a"], float)
        again = np.stack([np.asarray(G.geometric_representation()[g], float) for g in "abc"])
        kept = close(np.asarray(G.coxeter_matrix, float), labels_before, 1e-12) and close(np.asarray(np.asarray(obj, dtype=float)), labels_before, 1e-12)
        # the same group from a diagram whose labels carry the packaging's number type (Python / NumPy scalar, 0-d array)
        el = np.asarray(obj).reshape(-1)[0]
        for conv in ((lambda x: type(el.item())(x)), (lambda x: np.asarray(obj).dtype.type(x)), (lambda x: np.array(x, dtype=np.asarray(obj).dtype))):
            lb = labels_before
            Gd = coxeter.CoxeterGroup(diagram=[("a", "b", conv(lb[0][1])), ("b", "c", conv(lb[1][2])), ("a", "c", conv(lb[0][2]))])
            before_d = np.array(np.asarray(Gd.coxeter_matrix, dtype=float))
            cmd_ = np.asarray(Gd.cartan_matrix({(0, 1): -2.5}), float)
            tvd_ = np.asarray(Gd.tits_vinberg_rep({(0, 1): -2.5})["a"], float)
            gd_ = np.stack([np.asarray(Gd.geometric_representation()[g], float) for g in "abc"])
            kept = kept and close(np.asarray(Gd.coxeter_matrix, float), before_d, 1e-12) and close(cmd_, cm, 1e-9) and close(tvd_, tv, 1e-9) \
                and close(gd_, again, 1e-9)
        hr = G.hyperbolic_rep()
        J = np.diag([-1.0, 1.0, 1.0])
        # HyperbolicRepresentation stores column matrices; form preserved either way for reflections
        hm = [np.asarray(hr[g].proj_data, float) for g in "abc"]
        form = all(close(m @ np.diag([-1.0, 1.0, 1.0]) @ m.T, J, 1e-6) for m in hm)
        can = G.canonical_representation()
        return {"inv_ok": all(sq), "form": form, "eig": finite(np.linalg.eigvals(np.asarray(can["a"] @ can["b"]))),
                "inv2": finite(utils.invert(out[0])), "labels_kept": kept, "repeatable": close(again, np.asarray(out, float), 1e-12),
                "cartan": cm.tolist(), "tits_vinberg": tv.tolist()}
    if entry in ("point_hyperboloid", "point_affine_hyperboloid", "point_ctor", "point_affine"):
        model = "klein" if "affine" in entry else "projective"
        pt = H.Point(obj, model=model)
        other = H.Point(np.array([3.0, 1.0, 1.0])) if model == "projective" else H.Point(np.array([0.25, 0.5]), model="klein")
        d = np.asarray(pt.distance(other), dtype=float)
        iso = pt.origin_to()
        back = np.asarray(iso.apply(H.Point.get_origin(2)).coords("klein"), dtype=float)
        return {"dist": d.tolist(), "origin_to": close(back, np.asarray(pt.coords("klein"), float), 1e-6),
                "poincare": np.asarray(pt.coords("poincare"), float).tolist(),
                "halfspace": np.asarray(pt.coords("halfspace"), float).tolist()}
    if entry in ("transformation_inv", "transformation_ctor"):
        Tr = P.Transformation(obj)
        img = np.asarray(Tr.apply(P.Point(np.array([1.0, 0.25, 0.5]))).proj_data, float)
        return {"inv_ok": close(np.asarray(Tr.inv().proj_data, float) @ np.asarray(Tr.proj_data, float), np.eye(3), 1e-6),
                "img": img.tolist(), "eig": finite(np.linalg.eigvals(np.asarray(Tr.proj_data)))}
    return {}


# values: (integer-valued -> every packaging applies) or dyadic (exact in float32 -> floating packagings only)
def gen_packaging(rng, n):
    names = [e for e in ENTRIES]
    for i in range(n):
        e = names[i % len(names)]
        integral = rng.random() < 0.6
        if integral:
            v = rng.choice([1, 2, 3, -1, -2, 5]) if e not in ("regular_polygon", "regular_polygon_angle") else rng.choice([1, 2])
            if e == "regular_polygon_angle":
                v = 1                      # an interior angle of a regular pentagon (< 3 pi / 5)
        else:
            v = rng.choice([0.5, 0.75, 1.25, 2.5, -0.375, 0.625]) if e not in ("regular_polygon", "regular_polygon_angle") else rng.choice([0.5, 0.75, 1.25])
        if e == "coxeter_rep":
            v, integral = 2, True        # the Coxeter matrix with an infinite-order label, in every packaging (int and float)
        yield {"entry": e, "v": v, "integral": integral}


def _value_for(entry, p, v):
    """the parameter value, scaled by v where the entry takes a free real parameter"""
    acc, mk, call = ENTRIES[entry]
    if entry == "coxeter_rep":
        return mk(p, v if float(v).is_integer() else 1)     # two integer-valued Coxeter matrices, one with an infinite label
    if entry in ("elliptic", "transformation_inv", "transformation_ctor"):
        return mk(p, 1)                     # orthogonal matrices: fixed integer-valued data
    if entry == "sl2_iso":
        return build(p, [[v, 1], [v * 2 - 1, 2]] if float(v).is_integer() else [[v, 0], [0, 1 / v]], (2, 2))
    if entry in ("point_hyperboloid", "point_ctor"):
        return build(p, _vec_value(p, [abs(v) + 2, 1, v / 2 if not float(v).is_integer() else 0]), (3,))
    if entry in ("point_affine_hyperboloid", "point_affine"):
        return build(p, _vec_value(p, [0, 0] if float(v).is_integer() else [v / 4, 0.25]), (2,))
    return mk(p, v)


def run_packaging(inp):
    e, v = inp["entry"], inp["v"]
    acc, mk, call = ENTRIES[e]
    outs = []
    for p in all_packs():
        if not (is_real(p) and acc(p)):
            continue
        if not inp["integral"] and is_int(p):
            continue
        rec = {"pack": p}
        try:
            obj = _value_for(e, p, v)
            out = call(obj)
            rec["dtype"] = str(out.dtype)
            a = np.asarray(out)
            if p["k"] in ("arr", "list") and e in ("rotation_matrix", "standard_rotation", "from_angle", "array_like",
                                                     "zeros_float", "identity_float", "zeros", "identity", "regular_polygon", "regular_polygon_angle", "standard_loxodromic", "point_along"):
                # array-valued parameter: keep one unit so every packaging is compared on the same value
                if e in ("from_angle", "array_like"):
                    a = a.reshape((-1,) + a.shape[a.ndim - (1 if e == "from_angle" else 0):])[0] if a.ndim > (1 if e == "from_angle" else 0) else a
            rec["val"] = np.asarray(a, dtype=float).tolist() if a.dtype != object else None
            rec["post"] = _post(e, out, obj)
        except Exception as ex:      # noqa: BLE001 - an exception is an observation
            rec["exc"] = "%s: %s" % (type(ex).__name__, str(ex)[:120])
        outs.append(rec)
    return {"outs": outs}


def judge_packaging(inp, obs, lr):
    e = inp["entry"]
    if "exc" in obs:
        return {"expected": "entry point runs", "observed": obs, "tags": {"entry": e, "exc": obs["exc"]}}
    ref = None
    for rec in obs["outs"]:
        p = rec["pack"]
        tags = {"entry": e, "pack": p["k"], "int_pack": is_int(p), "integral": inp["integral"]}
        if "exc" in rec:
            return {"expected": "%s accepts the packaging %s of the value %r" % (e, p, inp["v"]), "observed": rec["exc"],
                    "tags": dict(tags, exc=rec["exc"].split(":")[0])}
        dt = rec["dtype"]
        if dt == "object" or dt.startswith("complex"):
            return {"expected": "floating-point data", "observed": dt, "tags": dict(tags, dtype=dt)}
        if not dt.startswith("float") and (e in FLOATING or not is_int(p)):
            return {"expected": "floating-point data", "observed": dt, "tags": dict(tags, dtype=dt)}
        for k, ok in rec["post"].items():
            if isinstance(ok, bool) and not ok:
                return {"expected": "the library's own routine succeeds on the produced data (%s)" % k, "observed": rec["post"],
                        "tags": dict(tags, post=k)}
        if e in ("zeros", "identity", "zeros_float", "identity_float"):
            continue
        cur = {"val": rec["val"], "post": {k: x for k, x in rec["post"].items() if not isinstance(x, bool)}}
        if ref is None:
            ref = (p, cur)
            continue
        tol = 1e-5 if ("float32" in (p.get("d"), ref[0].get("d"))) else 1e-9
        a, b = np.asarray(cur["val"], float), np.asarray(ref[1]["val"], float)
        if a.shape != b.shape:
            # array-shaped packagings of a scalar parameter broadcast the same unit
            a, b = np.unique(a.round(9)), np.unique(b.round(9))
        if a.shape != b.shape or not close(a, b, tol):
            return {"expected": {"pack": ref[0], "value": ref[1]["val"]}, "observed": {"pack": p, "value": cur["val"]},
                    "tags": dict(tags, differs="value")}
        for k in cur["post"]:
            pa, pb = np.asarray(cur["post"][k], float), np.asarray(ref[1]["post"][k], float)
            if pa.shape != pb.shape:
                pa, pb = np.unique(pa.round(9)), np.unique(pb.round(9))
            if pa.shape != pb.shape or not close(pa, pb, max(tol, 1e-7)):
                return {"expected": {"pack": ref[0], k: ref[1]["post"][k]}, "observed": {"pack": p, k: cur["post"][k]},
                        "tags": dict(tags, differs=k)}
    return None


# ------------------------------------------------------------------------------------------------
# S3b: README / docstring examples run
# ------------------------------------------------------------------------------------------------
def _example_files():
    pk = os.path.join(REPO, "geometry_tools")
    return [os.path.join(pk, "frontpage_doc.md")] + sorted(glob.glob(os.path.join(pk, "*.py")) + glob.glob(os.path.join(pk, "*", "*.py")))


def gen_examples(rng, n):
    for f in _example_files():
        if re.search(r"```python\n", open(f).read()):
            # quick tier (n = 1): the two large tiling examples at the end of the front page (~8 s each) are left to the thorough tier
            yield {"file": os.path.relpath(f, REPO), "max_seconds": 3.0 if n <= 1 else None}


def run_examples(inp):
    import matplotlib
    matplotlib.use("Agg")
    import matplotlib.pyplot as plt
    show = plt.show
    plt.show = lambda *a, **k: None
    res = []
    try:
        src = open(os.path.join(REPO, inp["file"])).read()
        ns = {}
        import time as _time
        spent = 0.0
        for i, b in enumerate(re.findall(r"```python\n(.*?)```", src, flags=re.S)):
            if inp.get("max_seconds") is not None and spent > inp["max_seconds"]:
                res.append([i, "ok"])          # time budget of the quick tier used up: remaining blocks run in the thorough tier
                continue
            t0_ = _time.time()
            try:
                with contextlib.redirect_stdout(io.StringIO()):
                    exec(textwrap.dedent(b), ns)
                res.append([i, "ok"])
            except FileNotFoundError as ex:
                res.append([i, "needs-file"])     # examples naming a placeholder file
            except Exception as ex:  # noqa: BLE001
                res.append([i, "%s: %s" % (type(ex).__name__, str(ex)[:150])])
            plt.close("all")
            spent += _time.time() - t0_
    finally:
        plt.show = show
    return {"blocks": res}


def judge_examples(inp, obs, lr):
    if "exc" in obs:
        return {"expected": "examples run", "observed": obs, "tags": {"file": inp["file"]}}
    bad = [b for b in obs["blocks"] if b[1] not in ("ok", "needs-file")]
    if bad:
        return {"expected": "every documented example runs", "observed": bad, "tags": {"file": inp["file"], "block": bad[0][0]}}
    return None


# ------------------------------------------------------------------------------------------------
# S2d: rescaling formulas, exact over Q
# ------------------------------------------------------------------------------------------------
def _matmul(A, B):
    return [[sum(A[i][k] * B[k][j] for k in range(len(B))) for j in range(len(B[0]))] for i in range(len(A))]


def _eye(n):
    return [[F(int(i == j)) for j in range(n)] for i in range(n)]


def rational_isometry(rng, dim):
    """rational element of O(dim,1) (row-vector convention): rotations in spatial planes and a boost in the (0,1) plane"""
    n = dim + 1
    M = _eye(n)
    def rot(i, j, c, s):
        R = _eye(n)
        R[i][i], R[i][j], R[j][i], R[j][j] = c, s, -s, c
        return R
    def boost(ch, sh):
        B = _eye(n)
        B[0][0], B[0][1], B[1][0], B[1][1] = ch, sh, sh, ch
        return B
    for (i, j) in [(1, 2)] + ([(2, 3)] if dim >= 3 else []) + ([(3, 4)] if dim >= 4 else []):
        M = _matmul(M, rot(i, j, *Q.rrot(rng, 4)))
    ch, sh, _ = Q.rboost(rng, 4)
    M = _matmul(M, boost(ch, sh))
    for (i, j) in [(1, 2)] + ([(1, 3)] if dim >= 3 else []):
        M = _matmul(M, rot(i, j, *Q.rrot(rng, 4)))
    return M


def rlam(rng):
    s = rng.choice([-1, 1])
    return s * F(rng.randint(1, 100), 10)


def gen_rescale(rng, n):
    for _ in range(n):
        dim = rng.choice([2, 2, 3, 4])
        M = rational_isometry(rng, dim)
        xh, uh = M[0], M[1]                       # unit timelike, unit spacelike, orthogonal
        ch, sh, uu = Q.rboost(rng, 5)
        while sh == 0:
            ch, sh, uu = Q.rboost(rng, 5)
        kk = F(rng.randint(1, 9), rng.randint(1, 3))
        c1, c2 = kk * ch, kk * sh * rng.choice([-1, 1])
        y = [c1 * a + c2 * b for a, b in zip(xh, uh)]      # timelike with <y,y> = -kk^2, tangent component c2*uh
        # segment: endpoints on the chord between two rational ideal points (half-angle construction in dimension 2)
        if dim == 2:
            (ca, sa), (cb, sb) = Q.rrot(rng, 5), Q.rrot(rng, 5)
            while (ca, sa) == (cb, sb) or (ca, sa) == (-cb, -sb):
                cb, sb = Q.rrot(rng, 5)
            N1 = [F(1), ca * ca - sa * sa, 2 * ca * sa]
            N2 = [F(1), cb * cb - sb * sb, 2 * cb * sb]
        else:
            N1 = [F(1)] + Q.rsphere(rng, dim)
            N2 = [F(1)] + Q.rsphere(rng, dim)
            while N1 == N2:
                N2 = [F(1)] + Q.rsphere(rng, dim)
        al, be, ga, de = [F(rng.randint(1, 9), rng.randint(1, 4)) for _ in range(4)]
        ideal_end = rng.random() < 0.25
        # al = ga or be = de makes s1 - s2 lightlike: the code divides by a = <s1-s2, s1-s2> = 0 (finding, see meta note)
        while al * de == be * ga or al == ga or be == de:
            al, be, ga, de = [F(rng.randint(1, 9), rng.randint(1, 4)) for _ in range(4)]
        if ideal_end:
            ga = F(0)            # the second endpoint is the ideal point N2 itself
        s1 = [al * a + be * b for a, b in zip(N1, N2)]
        s2 = [ga * a + de * b for a, b in zip(N1, N2)]
        u = F(rng.randint(1, 6), rng.randint(1, 4))
        T_ = rational_isometry(rng, dim)
        lam = [rlam(rng) for _ in range(5)]
        # same exclusion for the rescaled representatives (lam[2]*s1 - lam[3]*s2 lightlike)
        while al * lam[2] == ga * lam[3] or be * lam[2] == de * lam[3]:
            lam = [rlam(rng) for _ in range(5)]
        yield {"dim": dim, "x": [Q.qs(a) for a in xh], "y": [Q.qs(a) for a in y], "s1": [Q.qs(a) for a in s1],
               "s2": [Q.qs(a) for a in s2], "n1": [Q.qs(a) for a in N1], "n2": [Q.qs(a) for a in N2],
               "lam": [Q.qs(l) for l in lam], "u": Q.qs(u), "T": [[Q.qs(a) for a in r] for r in T_],
               "chart": rng.randrange(dim + 1)}


def _fl(v):
    return np.array([float(F(a)) for a in v])


def _rescale_vecs(inp):
    lam = [F(a) for a in inp["lam"]]
    sc = lambda v, l: [F(a) * l for a in v]
    return {"x": sc(inp["x"], lam[0]), "y": sc(inp["y"], lam[1]), "s1": sc(inp["s1"], lam[2]), "s2": sc(inp["s2"], lam[3]),
            "Tc": lam[4]}


def _geo_outputs(x, y, s1, s2, Tm, d, chart, dim):
    out = {}
    X, Y = H.Point(x), H.Point(y)
    out["affine"] = np.asarray(P.affine_coords(x, chart_index=chart), float).tolist() if x[chart] != 0 else None
    out["klein"] = np.asarray(X.coords("klein"), float).tolist()
    out["normalize"] = np.asarray(X.hyperboloid_coords(), float).tolist()
    out["cosh"] = float(np.cosh(X.distance(Y)))
    t = X.unit_tangent_towards(Y)
    out["utt"] = np.asarray(t.proj_data, float).tolist()
    out["along"] = np.asarray(t.point_along(d).coords("klein"), float).tolist()
    seg = H.Segment(H.Point(s1), H.Point(s2))
    out["nulls"] = np.asarray(seg.ideal_basis, float).tolist()
    if dim == 2:
        c, r, th = seg.circle_parameters(model="poincare")
        out["circle"] = {"centre": np.asarray(c, float).tolist(), "radius": float(r)}
    out["apply"] = np.asarray(H.Isometry(Tm).apply(X).proj_data, float).tolist()
    return out


def run_rescale(inp):
    dim = inp["dim"]
    u = float(F(inp["u"]))
    d = math.log(u)
    Tm = np.array([[float(F(a)) for a in r] for r in inp["T"]])
    base = _geo_outputs(_fl(inp["x"]), _fl(inp["y"]), _fl(inp["s1"]), _fl(inp["s2"]), Tm, d, inp["chart"], dim)
    v = _rescale_vecs(inp)
    scaled = _geo_outputs(_fl(v["x"]), _fl(v["y"]), _fl(v["s1"]), _fl(v["s2"]), Tm * float(v["Tc"]), d, inp["chart"], dim)
    return {"base": base, "scaled": scaled}


def lean_rescale(inp, obs):
    u = F(inp["u"])
    t = (u * u - 1) / (u * u + 1)
    ops = []
    for tag, v in (("base", {k: [F(a) for a in inp[k]] for k in ("x", "y", "s1", "s2")}), ("scaled", _rescale_vecs(inp))):
        q = lambda w: [Q.qs(a) for a in w]
        ops += [
            {"op": "c12.affine", "x": q(v["x"]), "chart": inp["chart"]},
            {"op": "c12.normalize", "x": q(v["x"])},
            {"op": "c01.cosh", "x": q(v["x"]), "y": q(v["y"])},
            {"op": "c12.utt", "x": q(v["x"]), "y": q(v["y"])},
            {"op": "c12.point_along", "x": q(v["x"]), "y": q(v["y"]), "t": Q.qs(t)},
            {"op": "c12.segment", "x1": q(v["s1"]), "x2": q(v["s2"])},
            {"op": "c12.circle", "n1": inp["n1"], "n2": inp["n2"]},
            {"op": "c12.apply", "x": q(v["x"]), "m": [[Q.qs(F(a) * (v.get("Tc", F(1)))) for a in r] for r in inp["T"]]},
        ]
    return ops


def _unordered_proj(impl_pair, model_pair, tol):
    a, b = np.asarray(impl_pair, float), model_pair
    return ((proj_close(a[0], b[0], tol) and proj_close(a[1], b[1], tol)) or
            (proj_close(a[0], b[1], tol) and proj_close(a[1], b[0], tol)))


def judge_rescale(inp, obs, lr):
    if "exc" in obs:
        return {"expected": "geometric outputs", "observed": obs, "tags": {"exc": obs["exc"]}, "property_failure": True}
    tol = 1e-8
    for k, tag in enumerate(("base", "scaled")):
        o = obs[tag]
        r = lr[8 * k: 8 * k + 8]
        names = ["affine", "normalize", "cosh", "utt", "along", "nulls", "circle", "apply"]
        for nm, res in zip(names, r):
            if "err" in res:
                if nm == "circle" and (inp["dim"] != 2 or res["err"] == "DivZero"):
                    continue        # a diameter: the Poincare "circle" is a straight line (centre at infinity)
                if nm == "affine" and res["err"] == "GeometryError" and o["affine"] is None:
                    continue
                if nm == "nulls" and res["err"] == "DivZero":
                    continue        # lightlike difference of representatives: the code divides by zero too (measure zero)
                return {"expected": "model answer", "observed": res, "tags": {"driver_err": res["err"], "what": nm, "which": tag}}
            mv = res["ok"]
            if nm == "affine":
                ok = close(o["affine"], Q.decf(mv), tol)
            elif nm == "normalize":
                ok = close(o["normalize"], Q.decf(mv), tol)
            elif nm == "cosh":
                ok = close(o["cosh"], float(F(mv)), tol)
            elif nm == "utt":
                # the stored base point may have been normalised in place by an earlier query (same ray, same sign)
                iu, mu_ = np.asarray(o["utt"], float), Q.decf(mv)
                ok = close(iu[0] / abs(iu[0][0]), mu_[0] / abs(mu_[0][0]), tol) and close(iu[1], mu_[1], tol)
            elif nm == "along":
                ok = proj_close(np.concatenate([[1.0], o["along"]]), Q.decf(mv), tol)
            elif nm == "nulls":
                ok = _unordered_proj(o["nulls"], Q.decf(mv), 1e-7)
            elif nm == "circle":
                if inp["dim"] != 2:
                    continue
                ok = close(o["circle"]["centre"], Q.decf(mv["centre"]), 1e-6) and close(o["circle"]["radius"], float(F(mv["radius"])), 1e-6)
            elif nm == "apply":
                ok = proj_close(o["apply"], Q.decf(mv), tol)
            if not ok:
                return {"expected": {"model": mv, "what": nm}, "observed": o.get(nm, o.get("klein")),
                        "tags": {"what": nm, "which": tag}}
    return None


# ------------------------------------------------------------------------------------------------
# S3c: every geometric output for X vs lambda (.) X, independent per-unit lambda in +-[0.1, 10]
# ------------------------------------------------------------------------------------------------
def fball_h(rng, k, dim, rmax=0.9):
    pts = []
    for _ in range(k):
        v = [rng.gauss(0, 1) for _ in range(dim)]
        nv = math.sqrt(sum(a * a for a in v)) or 1.0
        r = rmax * rng.random() ** (1.0 / dim)
        pts.append([1.0] + [a / nv * r for a in v])
    return pts


def _with_ideal_vertex(rng, pts):
    if rng.random() < 0.3:
        j = rng.randrange(len(pts))
        v = pts[j][1:]
        n = math.sqrt(sum(t * t for t in v)) or 1.0
        pts[j] = [1.0] + [t / n for t in v]
    return pts


def flam(rng, k):
    """independent per-unit factors in +-[0.1, 10]"""
    return [rng.choice([-1.0, 1.0]) * math.exp(rng.uniform(math.log(0.1), math.log(10))) for _ in range(k)]


def gen_rescale_oracle(rng, n):
    for _ in range(n):
        dim = rng.choice([2, 2, 2, 3, 4])
        k = rng.choice([1, 2, 3, 4])
        nv = rng.choice([3, 4, 5, 6])
        ang = rng.uniform(-3, 3)
        Y = fball_h(rng, k, dim)
        X0 = fball_h(rng, k, dim)
        grid = rng.random() < 0.25
        if grid:
            # natural measure-zero loci: the origin, points on the axes, horizontal / vertical / symmetric pairs
            def g():
                while True:
                    v_ = [rng.choice([0.0, 0.0, 0.25, -0.25, 0.5, -0.5]) for _ in range(dim)]
                    if sum(t * t for t in v_) <= 0.8:
                        return [1.0] + v_
            X0 = [g() for _ in range(k)]
            Y = [g() for _ in range(k)]
            for a_, b_ in zip(X0, Y):
                while a_ == b_:
                    b_[1 + rng.randrange(dim)] = rng.choice([0.125, -0.375])
        far = (not grid) and rng.random() < 0.15
        if far:
            # base points at hyperbolic distance ~10 from the origin (1 - |k|^2 ~ 3e-9 .. 1.5e-8): interior, not ideal
            def fp():
                v_ = [rng.gauss(0, 1) for _ in range(dim)]
                nv_ = math.sqrt(sum(t * t for t in v_))
                r_ = math.tanh(rng.uniform(9.9, 10.6))
                return [1.0] + [t / nv_ * r_ for t in v_]
            X0 = [fp() for _ in range(k)]
        near = (not grid) and (not far) and rng.random() < 0.2
        if near:
            # nearly coincident and coincident points (the representatives still get independent factors of either sign)
            Y = [[1.0] + [c + rng.choice([0.0, 1e-9, 1e-6, 1e-4, 3e-3]) * rng.uniform(-1, 1) for c in x[1:]] for x in X0]
        y_ideal = (not grid) and (not near) and rng.random() < 0.3
        if y_ideal:      # ideal points (eigenvectors of loxodromic isometries are handed out like this, with any sign)
            Y = [[1.0] + [c / math.sqrt(sum(t * t for t in y[1:])) for c in y[1:]] for y in Y]
        yield {"dim": dim, "k": k, "X": X0, "Y": Y, "y_ideal": y_ideal, "grid": grid, "near": near, "far": far, "Z": fball_h(rng, k, dim),
               "poly": [_with_ideal_vertex(rng, fball_h(rng, nv, dim)) for _ in range(k)],
               "lx": flam(rng, k), "ly": flam(rng, k), "lz": flam(rng, k), "lp": [flam(rng, nv) for _ in range(k)],
               "mag": (10.0 ** rng.randint(-9, 9)) if rng.random() < 0.3 else 1.0,
               "d": rng.uniform(0.05, 2.0), "angle": ang, "boost": rng.uniform(0.3, 3.0), "tc": flam(rng, 1)[0],
               "scalar_shape": rng.random() < 0.3}


def _iso_for(inp):
    dim = inp["dim"]
    R = H.Isometry.standard_rotation(inp["angle"], dimension=dim)
    L = H.Isometry.standard_loxodromic(dim, inp["boost"])
    return (L @ R)


def _unit(a, scalar):
    a = np.asarray(a, float)
    return a[0] if scalar else a


def _outputs(inp, X, Y, Z, poly, tscale):
    dim = inp["dim"]
    sc = inp["scalar_shape"]
    X, Y, Z = _unit(X, sc), _unit(Y, sc), _unit(Z, sc)
    poly = _unit(poly, sc)
    PX, PY, PZ = H.Point(X), H.Point(Y), H.Point(Z)
    o = {}
    for m in ("klein", "poincare", "halfspace"):
        o["coords_" + m] = np.asarray(PX.coords(m), float)
    hyp = np.asarray(PX.coords("hyperboloid"), float)
    o["coords_hyperboloid"] = hyp * np.sign(hyp[..., :1])
    o["coords_projective~"] = np.asarray(PX.coords("projective"), float)
    if not inp.get("y_ideal"):
        o["distance"] = np.asarray(PX.distance(PY), float)
    if inp.get("far"):
        # far base point: only the outputs that are well conditioned there (relative to cosh d ~ 1e4..1e5)
        if not inp.get("y_ideal"):
            # (angles first, on points that have not been queried before: queries normalise the stored representative in place)
            o["far_tangent_angle"] = np.asarray(H.Point(X).unit_tangent_towards(H.Point(Y)).angle(H.Point(X).unit_tangent_towards(H.Point(Z))), float)
            o["far_tangent_angle_reverse"] = np.asarray(H.Point(Y).unit_tangent_towards(H.Point(X)).angle(H.Point(Y).unit_tangent_towards(H.Point(Z))), float)
            o["far_distance"] = np.asarray(PX.distance(PY), float)
        return o
    if inp.get("near"):
        # (segments, tangent directions and circles are ill-conditioned / undefined for coincident points)
        o["distance_reverse"] = np.asarray(PY.distance(PX), float)
        for fo in (True, False):
            o["origin_to_map(force_oriented=%s)#" % fo] = np.asarray(PX.origin_to(force_oriented=fo).proj_data, float)
        return o
    # (fresh Points: earlier queries may or may not have normalised PX / PY in place, which must not decide the relative
    # scale of the two representatives the segment is built from)
    seg = H.Segment(H.Point(np.array(X, copy=True)), H.Point(np.array(Y, copy=True)))
    ib = np.asarray(seg.ideal_endpoint_coords("klein"), float)
    o["segment_ideal_unordered"] = np.sort(ib, axis=-2) if False else ib
    o["segment_endpoints"] = np.asarray(seg.endpoint_coords("klein"), float)
    if dim == 2:
        for m in ("poincare", "halfspace"):
            c, r, th = seg.circle_parameters(degrees=False, model=m)
            o["circle_%s_centre" % m] = np.asarray(c, float)
            o["circle_%s_radius" % m] = np.asarray(r, float)
            o["circle_%s_thetas@" % m] = np.asarray(th, float)
            cd_, rd_, thd = seg.circle_parameters(degrees=True, model=m)
            o["circle_%s_thetas(degrees=True)@" % m] = np.radians(np.asarray(thd, float))
    t = PX.unit_tangent_towards(PY)
    o["tangent_base"] = np.asarray(H.Point(t.point).coords("klein"), float)
    o["point_along"] = np.asarray(t.point_along(inp["d"]).coords("klein"), float)
    o["point_along_far"] = np.asarray(t.point_along(inp["d"] + 1.0).coords("klein"), float)
    o["tangent_angle"] = np.asarray(t.angle(PX.unit_tangent_towards(PZ)), float)
    iso = PX.origin_to()
    o["origin_to_origin"] = np.asarray(iso.apply(H.Point.get_origin(dim)).coords("klein"), float)
    # every value of the keyword options: the constructed isometries as projective maps
    for fo in (True, False):
        o["origin_to_map(force_oriented=%s)#" % fo] = np.asarray(PX.origin_to(force_oriented=fo).proj_data, float)
    if not inp.get("y_ideal") and not inp.get("near"):
        tv = PX.unit_tangent_towards(PY)
        tz = PZ.unit_tangent_towards(PY)
        for fo in (True, False):
            # unoriented frames are determined up to the sign of the completed rows: compare what is determined
            # (rows 0 and 1 as projective points); the oriented ones of H^2 are unique and compared as maps below
            fr = np.asarray(tv.origin_to(force_oriented=fo).proj_data, float)
            o["tangent_origin_to_rows(force_oriented=%s)~" % fo] = fr[..., :2, :]
    tiso = t.origin_to()
    o["tangent_origin_to_origin"] = np.asarray(tiso.apply(H.Point.get_origin(dim)).coords("klein"), float)
    e1 = np.zeros(dim); e1[0] = 0.5
    o["tangent_origin_to_e1"] = np.asarray(tiso.apply(H.Point(e1, model="klein")).coords("klein"), float)
    if dim == 2:
        o["tangent_origin_to_map#"] = np.asarray(tiso.proj_data, float)
        t2 = PZ.unit_tangent_towards(PY)
        o["isometry_to_map#"] = np.asarray(t.isometry_to(t2).proj_data, float)
    pg = H.Polygon(poly)
    o["polygon_vertices"] = np.asarray(pg.get_vertices().coords("klein"), float)
    edges = pg.get_edges()
    o["polygon_edge_ideal_unordered"] = np.asarray(edges.ideal_endpoint_coords("klein"), float)
    if dim == 2:
        c, r, th = edges.circle_parameters(degrees=False, model="poincare")
        o["polygon_circle_centre"] = np.asarray(c, float)
        o["polygon_circle_radius"] = np.asarray(r, float)
        o["polygon_circle_thetas@"] = np.asarray(th, float)
    # horospheres (wave 6): centred at the ideal point in the direction of X, through Y — built with the two-argument
    # constructor and from one stacked array (..., 2, n) of homogeneous coordinates; centre and radius in both models do not
    # depend on the scale (or sign) of either representative
    sp = np.linalg.norm(np.asarray(X, float)[..., 1:], axis=-1, keepdims=True)
    if not inp.get("y_ideal") and np.all(sp > 1e-3 * np.abs(np.asarray(X, float)[..., :1])):
        cvec = np.concatenate([np.sign(np.asarray(X, float)[..., :1]) * sp, np.asarray(X, float)[..., 1:]], axis=-1)
        h2 = H.Horosphere(H.IdealPoint(np.array(cvec, copy=True)), H.Point(np.array(Y, copy=True)))
        h1 = H.Horosphere(np.stack([np.array(cvec, float), np.array(Y, float)], axis=-2))
        for nm, hh in (("two_args", h2), ("stacked_array", h1)):
            for m in ("poincare", "halfspace"):
                with np.errstate(all="ignore"):
                    c, r = hh.sphere_parameters(model=m)
                if np.all(np.isfinite(np.asarray(r, float))) and np.all(np.abs(np.asarray(r, float)) < 1e3):
                    o["horosphere_%s_%s_centre" % (nm, m)] = np.asarray(c, float)
                    o["horosphere_%s_%s_radius" % (nm, m)] = np.asarray(r, float)
    Tm = _iso_for(inp)
    Ts = H.Isometry(Tm.proj_data * tscale)
    o["image_point"] = np.asarray(Ts.apply(PX).coords("klein"), float)
    o["image_segment_ideal_unordered"] = np.asarray(Ts.apply(seg).ideal_endpoint_coords("klein"), float)
    o["image_polygon"] = np.asarray(Ts.apply(pg).get_vertices().coords("klein"), float)
    o["image_pairwise"] = np.asarray(Ts.apply(H.Point(np.atleast_2d(X)), "pairwise").coords("klein"), float)
    return o


def run_rescale_oracle(inp):
    X, Y, Z, poly = (np.array(inp[k]) for k in ("X", "Y", "Z", "poly"))
    a = _outputs(inp, X, Y, Z, poly, 1.0)
    lx, ly, lz = (np.array(inp[k])[:, None] for k in ("lx", "ly", "lz"))
    lp = np.array(inp["lp"])[:, :, None]
    # G12: one overall size 10^k (k in -9..9) for all the homogeneous data of the case on top of the per-unit factors; the
    # relative scale of two arguments of one call stays within 1e2 (beyond ~1e8 the quadratic of Segment loses all digits on
    # the clean tree as well)
    g = inp.get("mag", 1.0)
    b = _outputs(inp, X * lx * g, Y * ly * g, Z * lz * g, poly * lp * g, inp["tc"])
    worst = []
    hs_ok = None
    if "circle_halfspace_radius" in a:
        # half-plane geodesics ending near infinity are ill-conditioned (ideal endpoints lose half their digits): compare the rest
        hs_ok = np.abs(a["circle_halfspace_radius"]) < 20.0
    for k in a:
        u, v = a[k], b[k]
        for pre, rk in (("circle_poincare", "circle_poincare_radius"), ("polygon_circle", "polygon_circle_radius")):
            if k.startswith(pre) and rk in a:
                # geodesics through the origin are diameters: no finite circle (radius nan/inf/huge) on either side
                ra, rb = a[rk], b[rk]
                big = lambda x: ~np.isfinite(x) | (np.abs(x) > 1e3)
                if np.any(big(ra) != big(rb)):
                    worst.append([k, float("inf")])
                    u = v = None
                    break
                m = ~big(ra)
                if u.shape[:m.ndim] == m.shape and m.ndim:
                    u, v = u[m], v[m]
                    if k.endswith("centre"):
                        # compare centres relative to their radius here (the generic branch below would use unmasked radii)
                        e_ = float(np.max(np.abs(u - v) / (1 + np.abs(ra[m]))[..., None])) if u.size else 0.0
                        worst.append([k, e_])
                        u = v = None
                elif m.ndim == 0 and not m:
                    u = v = None
                break
        if u is None or u.size == 0:
            continue
        if hs_ok is not None and k.startswith("circle_halfspace") and u.shape[:hs_ok.ndim] == hs_ok.shape:
            if hs_ok.ndim == 0:
                if not hs_ok:
                    continue
            else:
                u, v = u[hs_ok], v[hs_ok]
                if u.size == 0:
                    continue
        if u.shape != v.shape or not (finite(u) and finite(v)):
            worst.append([k, float("inf")])
            continue
        if k.endswith("unordered"):
            e = max(_unordered_err(p, q) for p, q in zip(u.reshape(-1, 2, u.shape[-1]), v.reshape(-1, 2, v.shape[-1])))
        elif k.endswith("#"):
            e = 0.0 if mat_proj_close(u, v, 1e-6) else 1.0
        elif k.endswith("~"):
            e = 0.0 if proj_close(u, v, 1e-7) else 1.0
        elif k.endswith("@"):
            dlt = np.abs(u - v) % (2 * math.pi)
            e = float(np.max(np.minimum(dlt, 2 * math.pi - dlt)))
        elif k.endswith("centre") and k.replace("centre", "radius") in a:
            # a circle's centre is known to within the precision of its radius (huge circles: geodesics ending near infinity)
            rr = a[k.replace("centre", "radius")]
            if hs_ok is not None and k.startswith("circle_halfspace") and hs_ok.ndim and rr.shape == hs_ok.shape:
                rr = rr[hs_ok]
            e = float(np.max(np.abs(u - v) / (1 + np.abs(rr))[..., None])) if u.size else 0.0
        else:
            e = err(u, v)
        worst.append([k, e])
    return {"errs": worst}


def _unordered_err(p, q):
    return min(max(err(p[0], q[0]), err(p[1], q[1])), max(err(p[0], q[1]), err(p[1], q[0])))


def judge_rescale_oracle(inp, obs, lr):
    if "exc" in obs:
        return {"expected": "geometric outputs for X and for lambda.X", "observed": obs, "tags": {"exc": obs["exc"]}}
    for k, e in obs["errs"]:
        # ideal points pushed through kleinian_to_poincare lose half their digits (sqrt|1-|k|^2| near 0)
        # far base points: 1 - |k|^2 down to 1e-11, so angles at them carry ~1e-16 / 1e-11 relative error: 1e-4
        # (arccos near its endpoints squares the error: 5e-3 there; ideal endpoints of nearly null chords: 1e-5)
        tol_ = 5e-3 if k.startswith("far_") else (2e-3 if "halfspace" in k else (1e-5 if "ideal" in k else 1e-6))
        if not (e <= tol_):
            return {"expected": "%s unchanged by rescaling the homogeneous coordinates" % k.rstrip("#~@"),
                    "observed": {"output": k, "error": e},
                    "tags": {"output": k.rstrip("#~@"), "dim": inp["dim"]}}
    return None


# ------------------------------------------------------------------------------------------------
# S3d: the locus a = <x1 - x2, x1 - x2> = 0 of Segment._compute_aux_data (known finding C12-segment-a-zero)
# ------------------------------------------------------------------------------------------------
def gen_a_zero(rng, n):
    """pairs of points whose STORED representatives have a lightlike (or nearly lightlike) difference, and controls"""
    for i in range(n):
        dim = rng.choice([2, 2, 3, 4])
        x1 = fball_h(rng, 1, dim)[0]
        ideal = rng.random() < 0.3
        x2 = fball_h(rng, 1, dim)[0]
        if ideal:
            nrm = math.sqrt(sum(t * t for t in x2[1:]))
            x2 = [1.0] + [t / nrm for t in x2[1:]]
        eps = rng.choice([0.0, 0.0, 1e-16, 1e-14, 1e-12, 1e-10, 1e-8, 1e-4, 1e-2, 0.3])
        yield {"dim": dim, "x1": x1, "x2": x2, "ideal": ideal, "root": rng.choice([-1, 1]), "eps": eps * rng.choice([-1, 1]),
               "scale": flam(rng, 1)[0], "integers": False}
    # the integer example of the finding
    yield {"dim": 2, "x1": [2.0, 1.0, 0.0], "x2": [3.0, 1.0, 1.0], "ideal": False, "root": 0, "eps": 0.0, "scale": 1.0, "integers": True}


def _mk(x, y):
    return -x[0] * y[0] + float(np.dot(x[1:], y[1:]))


def _a_zero_reps(inp):
    x1, x2 = np.array(inp["x1"]), np.array(inp["x2"])
    if inp["integers"]:
        return x1, x2
    m11, m12, m22 = _mk(x1, x1), _mk(x1, x2), _mk(x2, x2)
    # t with <x1 - t x2, x1 - t x2> = 0
    if inp["ideal"]:
        t = m11 / (2 * m12)
    else:
        t = (m12 + inp["root"] * math.sqrt(max(m12 * m12 - m11 * m22, 0.0))) / m22
    t *= (1 + inp["eps"])
    return x1 * inp["scale"], x2 * (t * inp["scale"])


def _a_rel(y1, y2):
    m11, m12, m22 = _mk(y1, y1), _mk(y1, y2), _mk(y2, y2)
    return abs(m11 - 2 * m12 + m22) / (abs(m11) + 2 * abs(m12) + abs(m22))


def run_a_zero(inp):
    y1, y2 = _a_zero_reps(inp)
    # reference: the same two points with generic representatives
    ref = H.Segment(H.Point(np.array(inp["x1"]) * 1.37), H.Point(np.array(inp["x2"]) * (-0.61 if not inp["integers"] else 2.0)))
    r = np.asarray(ref.ideal_endpoint_coords("klein"), float)
    out = {"a_rel": _a_rel(y1, y2), "ref": r.tolist()}
    try:
        seg = H.Segment(H.Point(y1), H.Point(y2))
        g = np.asarray(seg.ideal_endpoint_coords("klein"), float)
        out["got"] = g.tolist()
        out["err"] = _unordered_err(g, r) if finite(g) else float("inf")
    except Exception as ex:  # noqa: BLE001
        out["got"] = "%s: %s" % (type(ex).__name__, str(ex)[:100])
        out["err"] = float("inf")
    return out


def judge_a_zero(inp, obs, lr):
    if "exc" in obs:
        return {"expected": "ideal endpoints", "observed": obs, "tags": {"exc": obs["exc"]}}
    if not (obs["err"] <= 1e-6):
        on_locus = bool(obs["a_rel"] < 1e-6)
        return {"expected": {"ideal endpoints (Klein, unordered) of the same segment with generic representatives": obs["ref"]},
                "observed": {"ideal endpoints": obs["got"], "a/(|m11|+2|m12|+|m22|)": obs["a_rel"]},
                "call_site": "Segment._compute_aux_data",
                "tags": {"call_site": "Segment._compute_aux_data", "segment_a_zero": on_locus}}
    return None


# ------------------------------------------------------------------------------------------------
# S2e: values (packaging_value_independent): array_like of the same number, every packaging, explicit dtypes
# ------------------------------------------------------------------------------------------------
VALS = [1, 2, -3, 0.5, -0.375, 2.75, -7.5]


def gen_values(rng, n):
    for p in all_packs():
        if not is_real(p):
            continue
        for v in VALS:
            if is_int(p) and not float(v).is_integer():
                continue
            for dt in (None, "int64", "float32", "float64"):
                for it in (True, False):
                    yield {"case": "value", "array": p, "v": v, "dtype": dt, "integer_type": it}


def run_values(inp):
    a = utils.array_like(build(inp["array"], inp["v"]), dtype=None if inp["dtype"] is None else np.dtype(inp["dtype"]),
                         integer_type=inp["integer_type"])
    vals = np.unique(np.asarray(a).reshape(-1))
    return {"res": [str(a.dtype), [float(x) for x in vals]]}


def lean_values(inp, obs):
    v = Q.qs(F(inp["v"]).limit_denominator(1000))
    ops = [{"op": "c12.array_like_val", "major": MAJOR, "array": inp["array"], "v": v,
            "dtype": inp["dtype"], "integer_type": inp["integer_type"]}]
    if inp["dtype"] is None and not inp["integer_type"]:
        # the same call is the entry point `array_like` of the table: `entryVal` (packaging_value_independent is stated for it)
        ops.append({"op": "c12.entry_val", "major": MAJOR, "entry": "array_like", "pack": inp["array"], "v": v})
    return ops


def judge_values(inp, obs, lr):
    if "exc" in obs:
        return {"expected": "array_like runs", "observed": obs, "tags": {"what": "value", "exc": obs["exc"]}, "property_failure": True}
    r = lr[0]
    if "err" in r:
        return {"expected": "model answer", "observed": r, "tags": {"driver_err": r["err"], "what": "value"}}
    md, mv = r["ok"][0], float(F(r["ok"][1]))
    if obs["res"][0] != md or obs["res"][1] != [mv]:
        return {"expected": {"model": [md, mv]}, "observed": obs["res"], "tags": {"what": "value", "pack": inp["array"]["k"], "dtype": inp["dtype"]}}
    for r in lr[1:]:
        if "err" in r:
            return {"expected": "model answer", "observed": r, "tags": {"driver_err": r["err"], "what": "entry value"}}
        md, mv = r["ok"][0], float(F(r["ok"][1]))
        if obs["res"][0] != md or obs["res"][1] != [mv]:
            return {"expected": {"model entryVal": [md, mv]}, "observed": obs["res"], "tags": {"what": "entry value", "pack": inp["array"]["k"]}}
    return None


# ------------------------------------------------------------------------------------------------
# S2f: the hypothesis predicates of the theorems (Pack.isRealNumeric, Pack.isInteger, Entry.floating) against NumPy's view of
#      the built object and against the tables the generators of this file quantify over
# ------------------------------------------------------------------------------------------------
def gen_predicates(rng, n):
    for p in all_packs():
        yield {"case": "pack", "pack": p}
    for name in ENTRIES:
        yield {"case": "entry", "entry": name}


def run_predicates(inp):
    if inp["case"] == "pack":
        d = np.asarray(build(inp["pack"])).dtype
        return {"res": {"real": d.kind in "iuf", "integer": d == np.dtype("int64")},
                "harness": {"real": is_real(inp["pack"]), "integer": is_int(inp["pack"])}}
    return {"res": {"floating": inp["entry"] in FLOATING}}


def lean_predicates(inp, obs):
    if inp["case"] == "pack":
        return [{"op": "c12.classify", "pack": inp["pack"]}]
    return [{"op": "c12.classify", "entry": inp["entry"]}]


def judge_predicates(inp, obs, lr):
    m, i = model_ans(lr[0]), impl_ans(obs)
    if m != i:
        return {"expected": {"model predicate": m}, "observed": {"numpy / harness table": i, "input": inp}, "tags": {"what": "predicate", "case": inp["case"]}}
    if inp["case"] == "pack" and is_real(inp["pack"]) and obs["harness"] != m:
        # the generators quantify over is_real / is_int: they must be the hypotheses of the theorems
        return {"expected": {"model predicate": m}, "observed": {"harness quantifier": obs["harness"], "input": inp},
                "tags": {"what": "predicate-harness", "case": inp["case"]}}
    if inp["case"] == "pack" and obs["harness"]["real"] != m["real"]:
        return {"expected": {"model predicate": m}, "observed": {"harness quantifier": obs["harness"], "input": inp},
                "tags": {"what": "predicate-harness", "case": inp["case"]}}
    return None


# ------------------------------------------------------------------------------------------------
# S2g: the call sites D16 / D17 as they were (source kept here, executed against the library's factories through the public
#      API), vs fromAnglePinned / standardRotationPinned
# ------------------------------------------------------------------------------------------------
def _from_angle_pinned(theta):
    like = np.array(theta)
    return utils.zeros(np.array(theta).shape + (3,), like=like)


def _standard_rotation_pinned(angle):
    like = angle
    affine = utils.identity(2, like=like)
    rot = utils.rotation_matrix(angle, like=like)
    affine[0:2, 0:2] = rot
    mat = utils.zeros((3, 3), like=like)      # Isometry.elliptic as it was
    mat[1:, 1:] = affine
    return mat


PINNED_SITES = {"from_angle": (lambda p: p["k"] != "other", _from_angle_pinned),
                "standard_rotation": (_scalar_pack, _standard_rotation_pinned)}


def gen_pinned_sites(rng, n):
    for site, (acc, _) in PINNED_SITES.items():
        for p in all_packs():
            if is_real(p) and acc(p):
                yield {"case": site, "site": site, "pack": p}


def run_pinned_sites(inp):
    return {"res": str(PINNED_SITES[inp["site"]][1](build(inp["pack"], 1)).dtype)}


def lean_pinned_sites(inp, obs):
    return [{"op": "c12.pinned_site", "major": MAJOR, "site": inp["site"], "pack": inp["pack"]}]


# ------------------------------------------------------------------------------------------------
# S3e: packaging histories — the same number through different packagings, in random order, in ONE process,
#      every constructor with a real parameter, each result against an independent closed form
# ------------------------------------------------------------------------------------------------
def scalar_packagings(v, integral):
    """(label, object, tolerance class) for every way of handing the scalar v over; integer types only for integral v"""
    out = [("py_float", float(v), 64), ("np.float64", np.float64(v), 64), ("0d_float64", np.array(float(v)), 64),
           ("np.float32", np.float32(v), 32), ("0d_float32", np.array(v, dtype=np.float32), 32), ("np.longdouble", np.longdouble(v), 64)]
    if integral:
        # (narrower integers are left out: NumPy's own ufuncs compute cos(np.int16(2)) in float32 and cos(np.int8(2)) in float16)
        out += [("py_int", int(v), 64), ("np.int64", np.int64(v), 64), ("np.int32", np.int32(v), 64), ("0d_int64", np.array(int(v)), 64),
                ("0d_int32", np.array(int(v), dtype=np.int32), 64)]
    return out


def array_packagings(v, integral):
    """array-valued packagings (for the vectorised entry points): the unit at index 0 is compared"""
    out = [("list_float", [float(v), float(v)], 64), ("1d_float64", np.array([float(v), float(v)]), 64),
           ("1d_float32", np.array([v, v], dtype=np.float32), 32)]
    if integral:
        out += [("list_int", [int(v), int(v)], 64), ("1d_int64", np.array([int(v), int(v)]), 64)]
    return out


def _first(a):
    a = np.asarray(a, dtype=float)
    return a


def _poly_invariants(proj, first_unit):
    """(Klein radius of every vertex, consecutive dot products) of one polygon"""
    pd = np.asarray(proj, float)
    if first_unit:
        pd = pd.reshape((-1,) + pd.shape[-2:])[0]
    k = pd[:, 1:] / pd[:, :1]
    return np.concatenate([np.linalg.norm(k, axis=1), (k * np.roll(k, -1, axis=0)).sum(1)])


def _lox(p, dim=2):
    m = np.eye(dim + 1)
    m[0, 0] = m[1, 1] = (p + 1 / p) / 2
    m[0, 1] = m[1, 0] = (p - 1 / p) / 2
    return m


# name -> (value kind, vectorised?, call(obj) -> comparable float array (unit 0 for array packagings), closed form(v) -> same)
HISTORY_ENTRIES = {
    "rotation_matrix": ("angle", False, lambda o: np.asarray(utils.rotation_matrix(o), float),
                        lambda v: np.array([[math.cos(v), -math.sin(v)], [math.sin(v), math.cos(v)]])),
    "standard_rotation": ("angle", False, lambda o: np.asarray(H.Isometry.standard_rotation(o).proj_data, float),
                          lambda v: np.array([[1, 0, 0], [0, math.cos(v), math.sin(v)], [0, -math.sin(v), math.cos(v)]])),
    "standard_loxodromic": ("positive", False, lambda o: np.asarray(H.Isometry.standard_loxodromic(2, o).proj_data, float), lambda v: _lox(v)),
    "standard_loxodromic_3": ("positive", False, lambda o: np.asarray(H.Isometry.standard_loxodromic(3, o).proj_data, float), lambda v: _lox(v, 3)),
    "from_angle": ("angle", "all", lambda o: np.asarray(H.IdealPoint.from_angle(o).proj_data, float).reshape(-1, 3)[0],
                   lambda v: np.array([1.0, math.cos(v), math.sin(v)])),
    "regular_polygon_radius=": ("positive", False, lambda o: _poly_invariants(H.Polygon.regular_polygon(5, radius=o).proj_data, np.ndim(o) > 0),
                                lambda v: np.concatenate([np.full(5, math.tanh(v)), np.full(5, math.tanh(v) ** 2 * math.cos(2 * math.pi / 5))])),
    "regular_polygon_angle=": ("small", False, lambda o: _poly_invariants(H.Polygon.regular_polygon(5, angle=o).proj_data, np.ndim(o) > 0),
                               lambda v: (lambda t: np.concatenate([np.full(5, t), np.full(5, t * t * math.cos(2 * math.pi / 5))]))(
                                   math.tanh(math.acosh(1 / (math.tan(math.pi / 5) * math.tan(v / 2)))))),
    "regular_polygon_radius()": ("small", "arrays", lambda o: np.asarray(H.regular_polygon_radius(5, o), float).reshape(-1)[:1],
                                 lambda v: np.array([math.acosh(1 / (math.tan(math.pi / 5) * math.tan(v / 2)))])),
    "polygon_interior_angle()": ("positive", "arrays", lambda o: np.asarray(H.polygon_interior_angle(5, o), float).reshape(-1)[:1],
                                 lambda v: np.array([2 * math.atan(1 / (math.tan(math.pi / 5) * math.cosh(v)))])),
    "point_along": ("positive", False,
                    lambda o: np.asarray(H.TangentVector.get_base_tangent(2).normalized().point_along(o).coords("klein"), float).reshape(-1, 2)[0],
                    lambda v: np.array([math.tanh(v), 0.0])),
    "hyp_to_affine_dist": ("positive", "all", lambda o: np.asarray(H.hyp_to_affine_dist(o), float).reshape(-1)[:1], lambda v: np.array([math.tanh(v)])),
    "triangle_group": ("label", False, lambda o: np.asarray(coxeter.TriangleGroup((o, 3, 7)).bilinear_form(), float),
                       lambda v: -np.cos(np.pi / np.array([[1.0, v, 7], [v, 1, 3], [7, 3, 1]]))),
    "horosphere_radius": ("angle", False,
                          lambda o: np.asarray(H.Horosphere(H.IdealPoint.from_angle(o), H.Point(np.array([0.0, 0.0]), model="klein")).sphere_parameters()[1], float).reshape(-1)[:1],
                          lambda v: np.array([0.5])),
}


def gen_history(rng, n):
    names = list(HISTORY_ENTRIES)
    for i in range(n):
        e = names[i % len(names)]
        kind = HISTORY_ENTRIES[e][0]
        integral = rng.random() < 0.5
        if kind == "label":
            v, integral = rng.choice([2, 3, 4, 5, 6]), True
        elif kind == "small":       # interior angle of a regular pentagon: below 3 pi / 5
            v = rng.choice([1]) if integral else rng.choice([0.5, 0.75, 1.25, 1.5, 0.375])
        elif kind == "positive":
            v = rng.choice([1, 2, 3]) if integral else rng.choice([0.5, 0.75, 1.25, 2.5, 0.375])
        else:
            v = rng.choice([1, 2, 3, -1, -2]) if integral else rng.choice([0.5, -0.75, 1.25, 2.5, -0.375])
        labels = [l for l, _, _ in scalar_packagings(v, integral)]
        if HISTORY_ENTRIES[e][1]:
            # "arrays": helpers written with plain arithmetic accept ndarrays, not Python lists
            labels += [l for l, _, _ in array_packagings(v, integral) if HISTORY_ENTRIES[e][1] == "all" or not l.startswith("list")]
        order = [rng.choice(labels) for _ in range(rng.choice([5, 7, 9]))]
        yield {"entry": e, "v": v, "integral": integral, "order": order}


def run_history(inp):
    kind, vec, call, ref = HISTORY_ENTRIES[inp["entry"]]
    packs = {l: (o, c) for l, o, c in scalar_packagings(inp["v"], inp["integral"]) + array_packagings(inp["v"], inp["integral"])}
    expect = np.asarray(ref(float(inp["v"])), float)
    steps = []
    for lab in inp["order"]:
        obj, cls = packs[lab]
        try:
            got = np.asarray(call(obj), float)
            e_ = err(got, expect) if got.shape == expect.shape else float("inf")
            loose = 1e3 if inp["entry"] == "horosphere_radius" else 1.0      # ideal points lose half their digits in kleinian_to_poincare
            steps.append({"pack": lab, "err": e_, "tol": (1e-5 if cls == 32 else 1e-10) * loose})
        except Exception as ex:  # noqa: BLE001
            steps.append({"pack": lab, "exc": "%s: %s" % (type(ex).__name__, str(ex)[:120])})
    return {"steps": steps}


def judge_history(inp, obs, lr):
    if "exc" in obs:
        return {"expected": "calls run", "observed": obs, "tags": {"entry": inp["entry"], "exc": obs["exc"]}}
    for i, st in enumerate(obs["steps"]):
        if "exc" in st:
            return {"expected": "%s accepts the packaging %s of %r (call %d of the history %s)" % (inp["entry"], st["pack"], inp["v"], i, inp["order"]),
                    "observed": st["exc"], "tags": {"entry": inp["entry"], "pack": st["pack"], "raises": True}}
        if not (st["err"] <= st["tol"]):
            return {"expected": "closed-form value of %s(%r) within %g" % (inp["entry"], inp["v"], st["tol"]),
                    "observed": {"packaging": st["pack"], "error": st["err"], "position in history": i, "history": inp["order"]},
                    "tags": {"entry": inp["entry"], "pack": st["pack"], "raises": False}}
    return None


# ------------------------------------------------------------------------------------------------
# S3f: generic defences G1-G4 on hyperbolic objects (fresh-object differential, input/output isolation,
#      cross-object independence, dtype order)
# ------------------------------------------------------------------------------------------------
OBJ_KINDS = ["point", "segment", "polygon"]


def _mk_hobj(kind, klein):
    """klein: array (k, m, dim) of Klein coordinates: k units with m points each (m = 1 for points)"""
    klein = np.asarray(klein)
    pts = H.Point(klein if kind != "point" else klein[:, 0, :], model="klein")
    if kind == "point":
        return pts
    if kind == "segment":
        return H.Segment(pts)
    return H.Polygon(pts)


def _fresh(obj):
    return type(obj)(np.array(obj.proj_data, copy=True))


def _hq(obj, other_pt):
    """geometric answers of an object (Klein-based, representative-free)"""
    out = {}
    if isinstance(obj, H.Polygon):
        out["vertices"] = np.asarray(obj.get_vertices().coords("klein"), float)
        out["edges_ideal~"] = np.asarray(obj.get_edges().ideal_endpoint_coords("klein"), float)
    elif isinstance(obj, H.Segment):
        out["endpoints"] = np.asarray(obj.endpoint_coords("klein"), float)
        out["ideal~"] = np.asarray(obj.ideal_endpoint_coords("klein"), float)
        if obj.dimension == 2:
            c, r, th = obj.circle_parameters(degrees=False, model="poincare")
            big = ~np.isfinite(np.asarray(r, float)) | (np.abs(np.asarray(r, float)) > 1e3)
            out["circle_r"] = np.where(big, 0.0, np.asarray(r, float))
    else:
        for m in ("klein", "poincare"):
            out["coords_" + m] = np.asarray(obj.coords(m), float)
        out["distance"] = np.asarray(obj.distance(other_pt), float)
    return out


def _hq_err(a, b):
    worst = 0.0
    for k in a:
        u, v = np.asarray(a[k]), np.asarray(b[k])
        if u.shape != v.shape:
            return float("inf"), k
        if k.endswith("~"):
            e = max([_unordered_err(p_, q_) for p_, q_ in zip(u.reshape(-1, 2, u.shape[-1]), v.reshape(-1, 2, v.shape[-1]))] or [0.0])
        else:
            e = err(u, v)
        if e > worst:
            worst = e
    return worst, None


def gen_objhist(rng, n):
    for _ in range(n):
        dim = rng.choice([2, 2, 3])
        kind = rng.choice(OBJ_KINDS)
        k = rng.choice([2, 3])
        m = {"point": 1, "segment": 2, "polygon": rng.choice([3, 4])}[kind]
        mk = lambda: [[[c for c in fball_h(rng, 1, dim, 0.8)[0][1:]] for _ in range(m)] for _ in range(k)]
        steps = []
        for _s in range(rng.choice([4, 6, 8])):
            steps.append(rng.choice([{"op": "query"}, {"op": "query"}, {"op": "transform", "iso": [rng.uniform(-3, 3), rng.uniform(0.5, 2), rng.uniform(-3, 3)]},
                                     {"op": "setitem", "i": rng.randrange(k), "j": rng.randrange(k)}, {"op": "set"}, {"op": "flatten"},
                                     {"op": "reshape"}, {"op": "index", "i": rng.randrange(k)}, {"op": "copy"}, {"op": "mutate_returned"},
                                     {"op": "other"},
                                     {"op": "edit_copy", "how": rng.choice(["ctor", "flatten", "reshape", "copy"]), "i": rng.randrange(k), "j": rng.randrange(k),
                                      "reverse": rng.random() < 0.5},
                                     {"op": "inv_then_product", "iso": [rng.uniform(-3, 3), rng.uniform(0.5, 2), rng.uniform(-3, 3)]}]))
        steps.append({"op": "query"})
        yield {"dim": dim, "kind": kind, "A": mk(), "B": mk(), "other": fball_h(rng, 1, dim, 0.8)[0][1:], "steps": steps,
               "order": rng.choice(["AB", "BA"]), "dtypes": [rng.choice(["float64", "float32", "int"]) for _ in range(2)],
               "container": rng.choice(["list", "tuple", "view", "fortran"])}


def _iso_dim(par, dim):
    R1 = H.Isometry.standard_rotation(par[0], dimension=dim)
    L = H.Isometry.standard_loxodromic(dim, par[1])
    R2 = H.Isometry.standard_rotation(par[2], dimension=dim)
    return R1 @ L @ R2


def run_objhist(inp):
    res = {}
    dim, kind = inp["dim"], inp["kind"]
    A_in, B_in = np.array(inp["A"]), np.array(inp["B"])
    snapA, snapB = A_in.copy(), B_in.copy()
    first, second = (A_in, B_in) if inp["order"] == "AB" else (B_in, A_in)
    o1 = _mk_hobj(kind, first)
    o2 = _mk_hobj(kind, second)          # an unrelated object of the same class / dimension (G3)
    A, B = (o1, o2) if inp["order"] == "AB" else (o2, o1)
    opt = H.Point(np.array(inp["other"]), model="klein")
    res["inputs_kept"] = 0.0 if (np.array_equal(A_in, snapA) and np.array_equal(B_in, snapB)) else 1.0
    worst, where = 0.0, None
    cur = A
    for n_, st in enumerate(inp["steps"]):
        op = st["op"]
        if op == "query":
            pass
        elif op == "transform":
            T = _iso_dim(st["iso"], dim)
            tm = np.array(T.proj_data, copy=True)
            cur = T @ cur                                  # continue with the IMAGE
            if not np.array_equal(tm, T.proj_data):
                res["transform_kept"] = 1.0
        elif op == "setitem" and cur.shape != () and len(cur.shape) == 1 and cur.shape[0] > max(st["i"], 0) and B.shape == cur.shape:
            cur[st["i"]] = B[st["j"]]
        elif op == "set":
            cur.set(np.array(B.proj_data, copy=True)) if cur.proj_data.shape == B.proj_data.shape else None
        elif op == "flatten":
            cur = cur.flatten_to_unit()
        elif op == "reshape" and len(cur.shape) == 1:
            cur = cur.reshape((cur.shape[0], 1))
        elif op == "index" and len(cur.shape) >= 1 and cur.shape[0] > st["i"]:
            cur = cur[st["i"]]
        elif op == "copy":
            from copy import copy as _copy
            cur = _copy(cur)
        elif op == "mutate_returned":
            q = _hq(cur, opt)
            for v in q.values():
                if isinstance(v, np.ndarray) and v.flags.writeable:
                    v[...] = 7.0                            # scribble over everything the API handed out
        elif op == "other":
            _hq(B, opt)                                     # the same kinds of calls on the unrelated object
            _hq(_fresh(B), opt)
        elif op == "edit_copy" and len(cur.shape) == 1 and B.shape == cur.shape and cur.shape[0] > max(st["i"], st["j"]):
            # a copy made through the constructor / flatten / reshape / copy; editing one of the two must not change the other
            from copy import copy as _copy
            how = st["how"]
            cp = {"ctor": lambda: type(cur)(cur), "flatten": lambda: cur.flatten_to_unit(), "reshape": lambda: cur.reshape(cur.shape),
                  "copy": lambda: _copy(cur)}[how]()
            _hq(cur, opt); _hq(cp, opt)
            edited, kept = (cur, cp) if st["reverse"] else (cp, cur)
            snap_kept = np.array(kept.proj_data, copy=True)
            shares = np.shares_memory(edited.proj_data, kept.proj_data)
            edited[st["i"]] = B[st["j"]]
            if not shares:
                # the untouched one still answers like a fresh object on ITS data (which must not have changed)
                e1, _k = _hq_err(_hq(kept, opt), _hq(type(kept)(snap_kept), opt))
                if e1 > worst:
                    worst, where = e1, [n_, "edit_copy:" + how + (":reverse" if st["reverse"] else ""), _k]
            cur = edited
        elif op == "inv_then_product":
            # inverses / queries on the factors BEFORE the product is formed; the product must behave like a fresh object
            T1 = _iso_dim(st["iso"], dim)
            T2 = H.Isometry.standard_rotation(st["iso"][2] + 0.3, dimension=dim)
            T2.inv(); T1.inv(); T1.apply(opt)
            Tp = T1 @ T2
            Tf = H.Isometry(np.array(Tp.proj_data, copy=True))
            e1 = max(err(np.asarray(Tp.inv().proj_data, float), np.asarray(Tf.inv().proj_data, float)),
                     err(np.asarray((Tp.inv() @ Tp).proj_data, float), np.eye(dim + 1)),
                     err(np.asarray(Tp.apply(opt).coords("klein"), float), np.asarray(Tf.apply(H.Point(np.array(inp["other"]), model="klein")).coords("klein"), float)))
            if e1 > worst:
                worst, where = e1, [n_, op, None]
            cur = Tp.inv() @ (Tp @ cur)
        got = _hq(cur, opt)
        want = _hq(_fresh(cur), H.Point(np.array(inp["other"]), model="klein"))
        e, key = _hq_err(got, want)
        if e > worst:
            worst, where = e, [n_, op, key]
    res["history"] = worst
    res["history_where"] = where
    # the unrelated object still answers like a fresh one built from the caller's data
    eB, _k = _hq_err(_hq(B, opt), _hq(_mk_hobj(kind, snapB), opt)) if inp["order"] == "AB" or True else (0.0, None)
    res["unrelated_object"] = eB if not any(s_["op"] in ("setitem", "set") for s_ in inp["steps"]) or True else 0.0
    # G2: other containers for the same data (tuples, non-contiguous views, Fortran order)
    base = np.concatenate([np.ones(snapA.shape[:-1] + (1,)), snapA], -1)
    if inp["container"] == "tuple":
        alt = tuple(tuple(tuple(map(float, p_)) for p_ in u_) for u_ in base)
    elif inp["container"] == "view":
        big_ = np.zeros(base.shape[:-1] + (2 * base.shape[-1],)); big_[..., ::2] = base; alt = big_[..., ::2]
    elif inp["container"] == "fortran":
        alt = np.asfortranarray(base)
    else:
        alt = base.tolist()
    cls = {"point": H.Point, "segment": H.Segment, "polygon": H.Polygon}[kind]
    altd = alt if kind != "point" else (np.asarray(alt)[:, 0, :] if not isinstance(alt, (list, tuple)) else [u_[0] for u_ in alt])
    refd = base if kind != "point" else base[:, 0, :]
    e, _k = _hq_err(_hq(cls(altd), opt), _hq(cls(np.array(refd)), opt))
    res["container_" + inp["container"]] = e
    # G4: parts of different dtypes in either order against the float64 reference (integer data: the lattice point 0)
    d1, d2 = inp["dtypes"]
    def cast(a, d):
        return (np.zeros_like(a, dtype=int) + np.array([1] + [0] * (a.shape[-1] - 1))) if d == "int" else a.astype(d)
    pA, pB = np.array(refd)[0], np.array(refd)[1]
    parts = [cast(pA, d1), cast(pB, d2)]
    ref_parts = [np.asarray(parts[0], float), np.asarray(parts[1], float)]
    tol32 = "float32" in (d1, d2)
    for nm, order in (("dtype_order_12", [0, 1]), ("dtype_order_21", [1, 0])):
        try:
            if kind == "point":
                mixed = H.Point([H.Point(parts[i]) for i in order])
                refo = H.Point(np.array([ref_parts[i] for i in order]))
                e, _k = _hq_err(_hq(mixed, opt), _hq(refo, opt))
            else:
                mixed = cls([cls(parts[i]) for i in order])
                refo = cls(np.array([ref_parts[i] for i in order]))
                e, _k = _hq_err(_hq(mixed, opt), _hq(refo, opt)) if d1 != "int" and d2 != "int" else (0.0, None)
            res[nm] = e / (1e4 if tol32 else 1.0)
        except Exception as ex:  # noqa: BLE001
            res[nm] = float("inf")
            res[nm + "_exc"] = "%s: %s" % (type(ex).__name__, str(ex)[:100])
    return res


def judge_objhist(inp, obs, lr):
    if "exc" in obs:
        return {"expected": "object history runs", "observed": obs, "tags": {"kind": inp["kind"], "exc": obs["exc"]}}
    for k, v in obs.items():
        if k.endswith("_where") or k.endswith("_exc"):
            continue
        if not (v <= 1e-7):
            return {"expected": "%s residual <= 1e-7" % k, "observed": {"residual": v, "where": obs.get("history_where") if k == "history" else obs.get(k + "_exc")},
                    "tags": {"kind": inp["kind"], "what": k}}
    return None


# ------------------------------------------------------------------------------------------------
# S3g: every model x every packaging (integer ones included) x every entry point for coordinates (G13):
#      constructor, coords(model, data) setter, the *_coords setters, get_point; string and enum model names; single and stacked
# ------------------------------------------------------------------------------------------------
MODEL_DATA = {          # integer-valued coordinates of interior points in each model
    "klein": [[0, 0]], "poincare": [[0, 0]],
    "halfspace": [[1, 2], [-3, 1], [0, 1], [2, 5]],
    "hyperboloid": [[1, 0, 0], [3, 2, 2], [3, -2, 2], [9, 4, 8]],
    "projective": [[2, 1, 0], [3, 1, -1], [5, 0, 3], [-4, 1, 2]],
}
MODEL_ENUM = {"klein": H.Model.KLEIN, "poincare": H.Model.POINCARE, "halfspace": H.Model.HALFSPACE,
              "hyperboloid": H.Model.HYPERBOLOID, "projective": H.Model.PROJECTIVE}
COORD_PACKS = [("list_int", lambda a: [[int(x) for x in r] for r in a] if np.ndim(a) == 2 else [int(x) for x in a], 64),
               ("list_float", lambda a: np.asarray(a, float).tolist(), 64), ("tuple_int", lambda a: tuple(map(tuple, a)) if np.ndim(a) == 2 else tuple(int(x) for x in a), 64),
               ("int64", lambda a: np.asarray(a, dtype=np.int64), 64), ("int32", lambda a: np.asarray(a, dtype=np.int32), 64),
               ("float64", lambda a: np.asarray(a, dtype=np.float64), 64), ("float32", lambda a: np.asarray(a, dtype=np.float32), 32)]
COORD_ENTRIES = ["ctor_str", "ctor_enum", "coords_setter", "named_setter", "get_point"]


def gen_models(rng, n):
    for m, rows in MODEL_DATA.items():
        for entry in COORD_ENTRIES:
            for stacked in (False, True):
                yield {"model": m, "entry": entry, "stacked": stacked, "row": rng.randrange(len(rows))}


def _coord_call(entry, m, data):
    if entry == "ctor_str":
        return H.Point(data, model=m)
    if entry == "ctor_enum":
        return H.Point(data, model=MODEL_ENUM[m])
    if entry == "get_point":
        return H.get_point(data, m)
    P_ = H.Point(np.array([1.0, 0.1, 0.2]) if np.ndim(data) == 1 else np.tile(np.array([1.0, 0.1, 0.2]), (np.shape(data)[0], 1)))
    if entry == "coords_setter":
        P_.coords(m, data)
    else:
        {"klein": P_.kleinian_coords, "poincare": P_.poincare_coords, "halfspace": P_.halfspace_coords,
         "hyperboloid": P_.hyperboloid_coords, "projective": P_.projective_coords}[m](data)
    return P_


def run_models(inp):
    m = inp["model"]
    rows = MODEL_DATA[m]
    base = rows if inp["stacked"] else rows[inp["row"]]
    ref = np.asarray(_coord_call("ctor_str", m, np.asarray(base, dtype=np.float64)).coords("klein"), float)
    out = []
    for lab, conv, cls in COORD_PACKS:
        try:
            pt = _coord_call(inp["entry"], m, conv(base))
            got = np.asarray(pt.coords("klein"), float)
            back = np.asarray(pt.coords(m), float)
            e1 = err(got, ref) if got.shape == ref.shape else float("inf")
            e2 = err(back if m != "projective" else back / back[..., :1], np.asarray(base, float) if m != "projective" else np.asarray(base, float) / np.asarray(base, float)[..., :1])
            out.append({"pack": lab, "err": max(e1, e2 if m not in ("hyperboloid",) else 0.0), "tol": 1e-5 if cls == 32 else 1e-10})
        except Exception as ex:  # noqa: BLE001
            out.append({"pack": lab, "exc": "%s: %s" % (type(ex).__name__, str(ex)[:100])})
    return {"outs": out}


def judge_models(inp, obs, lr):
    if "exc" in obs:
        return {"expected": "points from coordinates", "observed": obs, "tags": {"model": inp["model"], "entry": inp["entry"], "exc": obs["exc"]}}
    for o in obs["outs"]:
        if "exc" in o:
            return {"expected": "%s accepts %s coordinates as %s" % (inp["entry"], inp["model"], o["pack"]), "observed": o["exc"],
                    "tags": {"model": inp["model"], "entry": inp["entry"], "pack": o["pack"], "raises": True}}
        if not (o["err"] <= o["tol"]):
            return {"expected": "the same point as from float64 coordinates (Klein coordinates and round trip, %g)" % o["tol"],
                    "observed": o, "tags": {"model": inp["model"], "entry": inp["entry"], "pack": o["pack"], "raises": False}}
    return None


CLAUSES = [
    Clause("numpy_tables_corr", "corr", gen_numpy, run_numpy, judge_numpy, lean=lean_numpy, site="numpy.can_cast / asarray / result_type",
           budget={"quick": 1, "thorough": 1},
           what="np.can_cast(x, int|float|complex) for every packaging and dtype, np.asarray(x).dtype, hasattr(x,'dtype'), np.result_type vs the model's tables (installed NumPy major)"),
    Clause("types_corr", "corr", gen_types, run_types, judge_eq("types.py"), lean=lean_types, site="utils.types.is_linalg_type / inexact_type",
           budget={"quick": 1, "thorough": 1},
           what="repaired utils/types.py and the ORIGINAL source (kept in props/C12.py, run against the installed NumPy) vs isLinalgType / isLinalgTypePinned on every packaging"),
    Clause("factories_corr", "corr", gen_factories, run_factories, judge_factories, lean=lean_factories,
           site="utils.check_type / array_like / zeros / identity / number", budget={"quick": 1, "thorough": 1},
           what="exhaustive: like x dtype x integer_type for check_type/zeros/identity, array x like x integer_type for array_like, val x dtype for number"),
    Clause("entry_dtype_corr", "corr", gen_entries, run_entries, judge_entries, lean=lean_entries, site="listed entry points",
           budget={"quick": 1, "thorough": 1},
           what="dtype produced by every listed entry point for every applicable real packaging vs entryDtype (the table real_input_floating quantifies over)"),
    Clause("array_like_value_corr", "corr", gen_values, run_values, judge_values, lean=lean_values, site="utils.array_like",
           budget={"quick": 1, "thorough": 1},
           what="dtype AND stored value of array_like for every real packaging of the same number (7 values, explicit dtype None/int64/float32/float64, both integer_type) vs arrayLikeVal (truncation towards zero for int64)"),
    Clause("predicates_corr", "corr", gen_predicates, run_predicates, judge_predicates, lean=lean_predicates,
           site="numpy.asarray dtype kinds / listed entry points", budget={"quick": 80, "thorough": 80},
           what="hypothesis predicates of the theorems: Pack.isRealNumeric / Pack.isInteger vs the dtype NumPy gives the built object "
                "(and vs the is_real / is_int the generators quantify over); Entry.floating vs the table of entry points that must be floating"),
    Clause("pinned_sites_corr", "corr", gen_pinned_sites, run_pinned_sites, judge_eq("pinned call site"), lean=lean_pinned_sites,
           site="IdealPoint.from_angle / Isometry.standard_rotation as they were (D16, D17)", budget={"quick": 60, "thorough": 60},
           what="the original call sites (integer_type left at its default; source kept in the harness, run on the library's public "
                "factories) vs fromAnglePinned / standardRotationPinned for every real packaging"),
    Clause("rescale_corr", "corr", gen_rescale, run_rescale, judge_rescale, lean=lean_rescale, site="hyperbolic rescaling formulas",
           budget={"quick": 40, "thorough": 1500},
           what="affine coords, normalize, cosh d, unit_tangent_towards, point_along, segment ideal endpoints (unordered), Poincare circle, apply: implementation on X and on lambda.X vs the model executed over Q"),
    Clause("packaging_oracle", "oracle", gen_packaging, run_packaging, judge_packaging, site="listed entry points",
           budget={"quick": 72, "thorough": 900},
           what="every entry point x every packaging of the same value: floating dtype, allclose to the reference packaging, inverse / eigenvalues / trigonometry / distance / origin_to succeed"),
    Clause("packaging_history_oracle", "oracle", gen_history, run_history, judge_history, site="constructors with a real parameter",
           budget={"quick": 130, "thorough": 2600},
           what="histories: the same number through 5-9 packagings in random order within one process (Python / NumPy float and integer scalars of several widths, 0-d arrays, lists and 1-d arrays for the vectorised entry points) for rotation_matrix, standard_rotation, standard_loxodromic, from_angle, regular_polygon(radius=/angle=), regular_polygon_radius, polygon_interior_angle, point_along, hyp_to_affine_dist, TriangleGroup labels, Horosphere; every result against an independent closed form (1e-10; 1e-5 for float32 packagings)"),
    Clause("object_history_oracle", "oracle", gen_objhist, run_objhist, judge_objhist, site="hyperbolic Point / Segment / Polygon objects with a history",
           budget={"quick": 80, "thorough": 2000},
           what="G1 every query after query / transform (continuing with the image) / item assignment / set / flatten / reshape / index / copy, in random order, equals the query on a fresh object built from the current data; G2 caller's arrays untouched, everything the API returns scribbled over and re-queried, tuples / non-contiguous views / Fortran-order input; G3 the same calls on an unrelated object of the same class in between, both construction orders; G4 parts of dtypes float64 / float32 / int combined in both orders vs the float64 reference"),
    Clause("model_packaging_oracle", "oracle", gen_models, run_models, judge_models, site="hyperbolic.Point coordinates in every model",
           budget={"quick": 1, "thorough": 1},
           what="every model (klein, poincare, halfspace, hyperboloid, projective) x every packaging of integer-valued coordinates (int / float lists, tuples, int64, int32, float64, float32 arrays) x constructor with string and enum model names, coords(model, data) setter, the *_coords setters, get_point; single and stacked; Klein coordinates vs the float64 reference and the round trip"),
    Clause("examples_oracle", "oracle", gen_examples, run_examples, judge_examples, site="README / docstring examples",
           budget={"quick": 1, "thorough": 2}, what="every ```python block of frontpage_doc.md and of the module docstrings runs (Agg backend); quick tier: within a 3 s budget per file, i.e. without the two large tilings at the end of the front page, which run in the thorough tier"),
    Clause("segment_a_zero_oracle", "oracle", gen_a_zero, run_a_zero, judge_a_zero, site="Segment._compute_aux_data",
           budget={"quick": 40, "thorough": 600},
           what="the locus where the difference of the two STORED representatives is lightlike (a = 0 in the quadratic) and its neighbourhood (relative |a| from 0 to 0.3), interior and ideal second endpoints, plus the integer example Point([2,1,0]), Point([3,1,1]): ideal endpoints vs the same segment with generic representatives; failures with relative |a| < 1e-6 carry the tag segment_a_zero (known finding), any other failure is a violation"),
    Clause("rescale_oracle", "oracle", gen_rescale_oracle, run_rescale_oracle, judge_rescale_oracle, site="hyperbolic geometric outputs",
           budget={"quick": 120, "thorough": 3000},
           what="X vs lambda.X (independent per-unit lambda in +-[0.1,10], composite shapes, dims 2-4): coords in every model, distances, segments' ideal endpoints and circle parameters, tangent directions, point_along, origin_to, isometries as projective maps (dim 2), polygons, images under transformations"),
]
