"""C18 — the indefinite linear-algebra helpers meet their stated contracts (DESIGN §4 C18)."""
import math
from fractions import Fraction as F
import numpy as np
from vlib.runner import Clause
from vlib import q as Q
from vlib.canon import close, finite
from props import _qla as L
from geometry_tools import utils
from geometry_tools.utils import core, numerical

LEVEL = "proof"
EXPLANATION = ("Lean theorems (any ordered field, any dimension): indefinite Gram–Schmidt for an arbitrary symmetric form "
               "(orthogonality, norms ±1, same flag of spans) when no intermediate row is null; find_isometry under the kernel "
               "contract (M F Mᵀ diagonal ±1, leading rows span the flag; for the Minkowski form with a timelike first row "
               "M J Mᵀ = J with no non-nullity hypothesis); make_orientation_preserving; orthogonal_complement; "
               "diagonalize_form under the eigh contract incl. the signed/minkowski/reverse order (argsort = stable sort); "
               "svd_kernel under the SVD contract; sphere_through; short_arc / right_to_left / arc_include over an ordered "
               "field with abstract π. Correspondence: the model's Gram–Schmidt / order / kernel selection / sphere / arcs "
               "executed over ℚ and compared by value; LAPACK outputs captured inside the harness and both the assumed "
               "contract and the conclusion residuals evaluated exactly in Lean. Float oracle for every contract incl. "
               "batch shapes and force_oriented.")
ASSUMPTIONS = ["numpy.linalg.eigh / svd / inv meet their contracts (checked exactly on every captured call, reported separately)",
               "np.argsort is stable on ≤ 16 keys (insertion sort); IEEE rounding within tolerance on cond ≤ 1e3",
               "np.isclose(·,0) / s < 1e-8 act as exact zero tests on the generated inputs (eigenvalues / singular values bounded away from 0 or exactly 0)"]

SHAPES = [[], [], [], [2], [3], [1], [2, 2], [1, 3]]
SIGS = [(p, q) for p in range(0, 7) for q in range(0, 7) if 1 <= p + q <= 6]


def cnt(shape):
    return int(np.prod(shape)) if shape else 1


def well_conditioned_rows(rng, B, k, tries=50):
    """rational k x n rows whose exact Gram–Schmidt w.r.t. B has all |square-norms| in [1/8, 64]"""
    n = len(B)
    for _ in range(tries):
        rows = Q.rmat(rng, k, n, 3, 2)
        g = L.gs_exact(B, rows)
        if g and all(F(1, 8) <= abs(x) <= 64 for x in g[1]) and all(abs(v) <= 40 for r in g[0] for v in r):
            return rows, g
    return None, None


# ------------------------------------------------------------------------------------------------
# S2a: indefinite_orthogonalize by value
# ------------------------------------------------------------------------------------------------
def gen_gs(rng, n):
    made = 0
    while made < n:
        p, q = rng.choice(SIGS)
        B, _, _ = L.rform(rng, p, q)
        nn = p + q
        k = rng.randint(1, nn)
        shape = rng.choice(SHAPES)
        rows = []
        for _ in range(cnt(shape)):
            r, g = well_conditioned_rows(rng, B, k)
            if r is None:
                break
            rows.append(L.encM(r))
        if len(rows) < cnt(shape):
            continue
        made += 1
        yield {"sig": [p, q], "B": L.encM(B), "k": k, "shape": shape, "rows": rows, "oned": k == 1 and not shape and rng.random() < 0.5}


def run_gs(inp):
    B = Q.decf(inp["B"])
    n = B.shape[0]
    if inp["oned"]:
        out = utils.indefinite_orthogonalize(B, Q.decf(inp["rows"][0])[0].copy())
        return {"shape": list(out.shape), "out": [[out.tolist()]]}
    rows = np.array([Q.decf(r) for r in inp["rows"]]).reshape(tuple(inp["shape"]) + (inp["k"], n))
    out = utils.indefinite_orthogonalize(B, rows.copy())
    return {"shape": list(out.shape), "out": L.units(out, 2).tolist()}


def lean_gs(inp, obs):
    return [{"op": "c18.gs", "form": inp["B"], "rows": r} for r in inp["rows"]]


def normalize_rows(rows, norms):
    out = []
    for r, q in zip(rows, norms):
        s = math.sqrt(abs(q))
        out.append([x / s for x in r] if s != 0 else list(r))
    return np.array(out, dtype=float)


def rows_close_pm(a, b, tol):
    """rows equal up to one sign per row (an orthonormal row of a flag is determined only up to sign)"""
    a, b = np.asarray(a, dtype=float), np.asarray(b, dtype=float)
    if a.shape != b.shape or not (finite(a) and finite(b)):
        return False
    return all(close(x, y, tol) or close(-x, y, tol) for x, y in zip(a.reshape(-1, a.shape[-1]), b.reshape(-1, b.shape[-1])))


def same_span(a, b, tol=1e-8):
    """the rows of a and of b span the same subspace"""
    a, b = np.atleast_2d(np.asarray(a, dtype=float)), np.atleast_2d(np.asarray(b, dtype=float))
    if a.shape != b.shape:
        return False
    if a.size == 0:
        return True
    return span_dist(a, b) <= tol and span_dist(b, a) <= tol


def judge_gs(inp, obs, lr):
    tags = {"fn": "indefinite_orthogonalize", "sig": inp["sig"], "composite": bool(inp["shape"]), "oned": inp["oned"]}
    if "exc" in obs:
        return {"expected": "orthogonalised rows", "observed": obs, "tags": dict(tags, exc=obs["exc"]), "property_failure": True}
    n = sum(inp["sig"])
    want = [n] if inp["oned"] else inp["shape"] + [inp["k"], n]
    if obs["shape"] != want:
        return {"expected": want, "observed": obs["shape"], "tags": dict(tags, shape=True), "property_failure": True}
    for res, iv in zip(lr, obs["out"]):
        if "err" in res:
            return {"expected": "model answer", "observed": res, "tags": dict(tags, driver_err=res["err"])}
        mv = normalize_rows(Q.decf(res["ok"]["rows"]), [float(F(x)) for x in res["ok"]["norms"]])
        # the contract (orthonormal rows, same flag) fixes each row up to its sign, and nothing more is compared
        if not rows_close_pm(np.array(iv), mv, 1e-9):
            return {"expected": {"rows up to sign": mv.tolist()}, "observed": iv, "tags": tags}
    return None


# ------------------------------------------------------------------------------------------------
# S2a': indefinite_orthogonalize INCLUDING the final normalize, by value (exact roots), and make_orientation_preserving
# ------------------------------------------------------------------------------------------------
def gen_ortho(rng, n):
    """rows = T @ (some rows of Q) with T lower triangular and B = Qᵀ D Q, |D_ii| rational squares: every Gram–Schmidt
    square-norm is ± a rational square, so the model (GS.indefiniteOrthogonalize with the exact root) answers in ℚ"""
    made = 0
    while made < n:
        p, q = rng.choice(SIGS)
        B, Qm, D = L.rform(rng, p, q)
        nn = p + q
        k = rng.randint(1, nn)
        idx = rng.sample(range(nn), k)
        T = [[(F(rng.choice([-1, 1]) * rng.randint(1, 3), rng.randint(1, 2)) if j == i else
               (F(rng.randint(-2, 2), rng.randint(1, 2)) if j < i else F(0))) for j in range(k)] for i in range(k)]
        rows = L.mul(T, [Qm[i] for i in idx])
        g = L.gs_exact(B, rows)
        if not g or not all(F(1, 64) <= abs(x) <= 400 for x in g[1]):
            continue
        made += 1
        yield {"sig": [p, q], "B": L.encM(B), "k": k, "rows": L.encM(rows)}


def run_ortho(inp):
    out = utils.indefinite_orthogonalize(Q.decf(inp["B"]), Q.decf(inp["rows"]).copy())
    return {"shape": list(out.shape), "out": np.asarray(out, dtype=float).tolist()}


def lean_ortho(inp, obs):
    return [{"op": "c18.ortho", "form": inp["B"], "rows": inp["rows"]}]


def judge_ortho(inp, obs, lr):
    tags = {"fn": "indefinite_orthogonalize", "sig": inp["sig"], "normalized": True}
    if "exc" in obs:
        return {"expected": "orthonormalised rows", "observed": obs, "tags": dict(tags, exc=obs["exc"]), "property_failure": True}
    if "err" in lr[0]:
        return {"expected": "model answer", "observed": lr[0], "tags": dict(tags, driver_err=lr[0]["err"])}
    mv = Q.decf(lr[0]["ok"])
    # orthonormal rows of a flag: each row up to its sign, and nothing more is compared
    if obs["shape"] != list(mv.shape) or not rows_close_pm(np.array(obs["out"]), mv, 1e-8):
        return {"expected": {"rows up to sign": mv.tolist()}, "observed": obs["out"], "tags": tags}
    return None


def gen_orient(rng, n):
    made = 0
    while made < n:
        m = rng.choice([1, 2, 2, 3, 3, 4, 5])
        shape = rng.choice(SHAPES)
        mats = []
        for _ in range(cnt(shape)):
            M = Q.rmat(rng, m, m, 3, 2)
            if rng.random() < 0.3:      # an isometry-like input: orthogonal, either orientation
                M = L.rorth(rng, m)
                if rng.random() < 0.5:
                    M = [[-x for x in r] if i == 0 else list(r) for i, r in enumerate(M)]
            if L.exact_rank(M) < m:
                break
            mats.append(L.encM(M))
        if len(mats) < cnt(shape):
            continue
        made += 1
        yield {"m": m, "shape": shape, "mats": mats}


def run_orient(inp):
    m = inp["m"]
    A = np.array([Q.decf(x) for x in inp["mats"]]).reshape(tuple(inp["shape"]) + (m, m))
    keep = A.copy()
    out = utils.make_orientation_preserving(A)
    return {"shape": list(np.shape(out)), "out": L.units(np.asarray(out, dtype=float), 2).tolist(), "input_unchanged": bool(np.array_equal(A, keep))}


def lean_orient(inp, obs):
    return [{"op": "c18.make_oriented", "rows": M} for M in inp["mats"]]


def judge_orient(inp, obs, lr):
    tags = {"fn": "make_orientation_preserving", "m": inp["m"], "composite": bool(inp["shape"])}
    if "exc" in obs:
        return {"expected": "a matrix", "observed": obs, "tags": dict(tags, exc=obs["exc"]), "property_failure": True}
    if obs["shape"] != inp["shape"] + [inp["m"], inp["m"]]:
        return {"expected": inp["shape"] + [inp["m"], inp["m"]], "observed": obs["shape"], "tags": dict(tags, shape=True), "property_failure": True}
    for res, iv in zip(lr, obs["out"]):
        if "err" in res:
            return {"expected": "model answer", "observed": res, "tags": dict(tags, driver_err=res["err"])}
        mv = Q.decf(res["ok"]["M"])
        if not close(np.array(iv), mv, 1e-12):
            return {"expected": {"last row negated iff det < 0; det": res["ok"]["det"], "M": mv.tolist()}, "observed": iv,
                    "tags": dict(tags, negated=F(res["ok"]["det"]) < 0), "property_failure": True}
    return None


# ------------------------------------------------------------------------------------------------
# S2b: find_isometry with the kernel captured from the implementation
# ------------------------------------------------------------------------------------------------
class Capture:
    """wrap a module attribute inside the harness process only"""

    def __init__(self, mod, name):
        self.mod, self.name, self.calls = mod, name, []

    def __enter__(self):
        self.orig = getattr(self.mod, self.name)

        def wrapped(*a, **k):
            r = self.orig(*a, **k)
            # snapshot: the library mutates some of these arrays in place afterwards (indefinite_orthogonalize
            # subtracts projections from the rows of the kernel basis it was given)
            snap = lambda x: tuple(snap(y) for y in x) if isinstance(x, tuple) else (np.array(x, copy=True) if isinstance(x, np.ndarray) else x)
            self.calls.append((snap(tuple(a)), snap(r)))
            return r
        setattr(self.mod, self.name, wrapped)
        return self

    def __exit__(self, *a):
        setattr(self.mod, self.name, self.orig)


def gen_fi(rng, n):
    made = 0
    while made < n:
        p, q = rng.choice([s for s in SIGS if sum(s) >= 2])
        B, _, _ = L.rform(rng, p, q)
        nn = p + q
        k = rng.randint(1, nn)
        shape = rng.choice(SHAPES)
        rows = []
        for _ in range(cnt(shape)):
            r, g = well_conditioned_rows(rng, B, k)
            if r is None:
                break
            rows.append(L.encM(r))
        if len(rows) < cnt(shape):
            continue
        made += 1
        yield {"sig": [p, q], "B": L.encM(B), "k": k, "shape": shape, "rows": rows, "force_oriented": rng.random() < 0.5}


def run_fi(inp):
    B = Q.decf(inp["B"])
    n = B.shape[0]
    rows = np.array([Q.decf(r) for r in inp["rows"]]).reshape(tuple(inp["shape"]) + (inp["k"], n))
    with Capture(core, "kernel") as cap, Capture(np.linalg, "svd") as scap:
        out = utils.find_isometry(B, rows.copy(), inp["force_oriented"])
    if len(cap.calls) != 1 or len(scap.calls) != 1:
        # the library did not go through utils.kernel / numpy.linalg.svd exactly once (it is free to): only the contract of the
        # result is checked, not the model's reconstruction from the captured kernel
        return {"shape": list(out.shape), "out": L.units(out, 2).tolist(), "dets": np.linalg.det(L.units(out, 2)).tolist(), "nocapture": True}
    (args, ker), = cap.calls
    (_, (su, ss, svh)), = scap.calls
    ker = np.asarray(ker, dtype=float).swapaxes(-1, -2)      # rows
    return {"shape": list(out.shape), "out": L.units(out, 2).tolist(),
            "ker": [L.fenc(k) for k in L.units(ker, 2)], "kshape": list(ker.shape),
            "kin": [L.fenc(a) for a in L.units(np.asarray(args[0], dtype=float), 2)],
            "dets": np.linalg.det(L.units(out, 2)).tolist(),
            "u": [L.fenc(x) for x in L.units(su, 2)], "s": [L.fenc(x) for x in L.units(ss, 1)], "vh": [L.fenc(x) for x in L.units(svh, 2)]}


def lean_fi(inp, obs):
    if "exc" in obs:
        return []
    ops = []
    n = sum(inp["sig"])
    if obs.get("nocapture"):
        return [{"op": "c18.gram", "form": inp["B"], "rows": L.fenc(np.array(o))} for o in obs["out"]]
    for r, k, kin, o, su, ss, svh in zip(inp["rows"], obs["ker"], obs["kin"], obs["out"], obs["u"], obs["s"], obs["vh"]):
        # the SVD contract assumed by findIsometry_isIso_svd, on the call find_isometry actually made
        ops.append({"op": "c18.kernel_residual", "A": kin, "n": n, "N": k, "u": su, "s": ss, "vh": svh})
        ops.append({"op": "c18.svd_kernel", "m": inp["k"], "s": ss, "tol": Q.qs(1e-8), "vh": svh})
        ops.append({"op": "c18.find_isometry", "form": inp["B"], "partial": r, "ker": k})
        ops.append({"op": "c18.gram", "form": inp["B"], "rows": L.fenc(np.array(o))})
        # kernel contract: the captured kernel rows are annihilated by (orth_partial @ form), i.e. F-orthogonal to partial
        ops.append({"op": "c18.gram", "form": inp["B"], "rows": k, "against": r})
    return ops


def judge_fi(inp, obs, lr):
    tags = {"fn": "find_isometry", "sig": inp["sig"], "composite": bool(inp["shape"]), "force_oriented": inp["force_oriented"]}
    if "exc" in obs:
        return {"expected": "a frame", "observed": obs, "tags": dict(tags, exc=obs["exc"]), "property_failure": True}
    n = sum(inp["sig"])
    if obs["shape"] != inp["shape"] + [n, n]:
        return {"expected": inp["shape"] + [n, n], "observed": obs["shape"], "tags": dict(tags, shape=True), "property_failure": True}
    if obs.get("nocapture"):
        for u, gram in enumerate(lr):
            if "err" in gram:
                return {"expected": "model answer", "observed": gram, "tags": dict(tags, driver_err=gram["err"])}
            g = gram["ok"]
            if max(float(F(g["offdiag"])), float(F(g["diag"]))) > 1e-8:
                return {"expected": "M F Mᵀ diagonal with entries ±1 (exact residual ≤ 1e-8)", "observed": g, "tags": dict(tags, residual=True),
                        "property_failure": True}
            if inp["force_oriented"] and not obs["dets"][u] > 0:
                return {"expected": "det > 0", "observed": obs["dets"][u], "tags": dict(tags, orientation=True), "property_failure": True}
        return None
    if obs["kshape"] != inp["shape"] + [n - inp["k"], n]:
        return {"expected": "kernel basis with n-k rows", "observed": obs["kshape"], "tags": dict(tags, kernel_dim=True), "property_failure": True}
    for u in range(len(inp["rows"])):
        kr, sel, fi, gram, kc = lr[5 * u:5 * u + 5]
        for res in (kr, sel):
            if "err" in res:
                return {"expected": "model answer", "observed": res, "tags": dict(tags, driver_err=res["err"])}
        rr = {k_: (float(F(v)) if isinstance(v, str) else v) for k_, v in kr["ok"].items()}
        if max(rr["svd_recon"], rr["svd_orth"]) > 1e-9 * 40 or not rr["svd_sorted"] or rr["svd_len"] != min(inp["k"], n):
            return {"expected": "svd contract on orth_partial @ form", "observed": rr, "tags": dict(tags, lapack_contract=True)}
        if not same_span(Q.decf(sel["ok"]) if sel["ok"] else np.zeros((0, n)), Q.decf(obs["ker"][u]) if obs["ker"][u] else np.zeros((0, n))):
            return {"expected": {"span of svdKernelRows": sel["ok"]}, "observed": obs["ker"][u], "tags": dict(tags, selection=True)}
        for res in (fi, gram, kc):
            if "err" in res:
                if res is fi and res["err"] == "DivZero":
                    break    # the SVD basis contains a null vector of an indefinite complement: outside the theorem's hypothesis
                return {"expected": "model answer", "observed": res, "tags": dict(tags, driver_err=res["err"])}
        else:
            if float(F(kc["ok"]["cross"])) > 1e-9:
                return {"expected": "kernel contract: captured kernel F-orthogonal to partial", "observed": kc["ok"],
                        "tags": dict(tags, lapack_contract=True)}
            norms = [float(F(x)) for x in fi["ok"]["norms"]]
            iv = np.array(obs["out"][u])
            g = gram["ok"]
            if max(float(F(g["offdiag"])), float(F(g["diag"]))) > 1e-8:
                if min(abs(x) for x in norms) > 1e-3:
                    return {"expected": "M F Mᵀ diagonal with entries ±1 (exact residual ≤ 1e-8)", "observed": g,
                            "tags": dict(tags, residual=True), "property_failure": True}
                continue
            if min(abs(x) for x in norms) < 1e-3:
                continue          # ill-conditioned SVD basis: by-value comparison not meaningful
            mv = normalize_rows(Q.decf(fi["ok"]["rows"]), norms)
            k = inp["k"]
            # the docstring fixes the first k rows (flag of the partial map, each up to sign); the completion is "not uniquely
            # determined": it is compared only through the contract (Gram residual above) and through its span
            if not rows_close_pm(iv[:k], mv[:k], 1e-7):
                return {"expected": {"first k rows up to sign": mv[:k].tolist()}, "observed": iv[:k].tolist(), "tags": tags}
            if not same_span(iv[k:], mv[k:], 1e-6):
                return {"expected": "completion rows span the form-orthogonal complement computed by the model", "observed": iv[k:].tolist(),
                        "tags": dict(tags, completion_span=True)}
            if inp["force_oriented"] and not obs["dets"][u] > 0:
                return {"expected": "det > 0", "observed": obs["dets"][u], "tags": dict(tags, orientation=True), "property_failure": True}
    return None


# ------------------------------------------------------------------------------------------------
# S2c: diagonalize_form: eigh captured; contract + conclusion residuals exactly; order by the model
# ------------------------------------------------------------------------------------------------
def expected_signs(sig_list, mode, reverse):
    """sig_list: list of eigenvalue signs; the order the property requests"""
    neg, pos = sum(1 for s in sig_list if s < 0), sum(1 for s in sig_list if s > 0)
    if mode == "signed":
        out = [-1] * neg + [1] * pos
    else:
        out = [1] * pos + [-1] * neg if pos < neg else [-1] * neg + [1] * pos
    return out[::-1] if reverse else out


def gen_diag(rng, n):
    for _ in range(n):
        shape = rng.choice(SHAPES)
        nn = rng.randint(1, 6)
        forms, sigs = [], []
        for _ in range(cnt(shape)):
            q = rng.randint(0, nn)
            B, _, D = L.rform(rng, nn - q, q)
            forms.append(L.encM(B))
            sigs.append([1 if d > 0 else -1 for d in D])
        yield {"n": nn, "shape": shape, "forms": forms, "sigs": sigs, "mode": rng.choice(["signed", "minkowski", "minkowski"]),
               "reverse": rng.random() < 0.5, "with_inverse": rng.random() < 0.8}


def run_diag(inp):
    nn = inp["n"]
    B = np.array([Q.decf(f) for f in inp["forms"]]).reshape(tuple(inp["shape"]) + (nn, nn))
    with Capture(core, "eigh") as cap:
        res = utils.diagonalize_form(B.copy(), order_eigenvalues=inp["mode"], reverse=inp["reverse"],
                                     with_inverse=inp["with_inverse"])
    if inp["with_inverse"]:
        W, Wi = res
    else:
        W, Wi = res, np.linalg.inv(res)
    out = {"shape": list(np.asarray(W).shape), "W": L.units(W, 2).tolist(), "Winv": L.units(Wi, 2).tolist(), "tuple": isinstance(res, tuple)}
    if len(cap.calls) == 1:       # otherwise (e.g. the library answered without calling eigh) only the contract of the result is checked
        (_, (eigs, U)), = cap.calls
        out.update(eigs=L.units(eigs, 1).tolist(), U=L.units(U, 2).tolist())
    return out


def lean_diag(inp, obs):
    if "exc" in obs:
        return []
    ops = []
    if "U" not in obs:
        return [{"op": "c18.diag_residual", "B": f, "W": L.fenc(np.array(W)), "Winv": L.fenc(np.array(Wi))}
                for f, W, Wi in zip(inp["forms"], obs["W"], obs["Winv"])]
    for f, W, Wi, e, U in zip(inp["forms"], obs["W"], obs["Winv"], obs["eigs"], obs["U"]):
        ops.append({"op": "c18.diag_residual", "B": f, "W": L.fenc(np.array(W)), "Winv": L.fenc(np.array(Wi)),
                    "U": L.fenc(np.array(U)), "eigs": L.fenc(np.array(e))})
        ops.append({"op": "c18.order", "eigs": L.fenc(np.array(e)), "mode": inp["mode"], "reverse": inp["reverse"]})
    return ops


def judge_diag(inp, obs, lr):
    tags = {"fn": "diagonalize_form", "mode": inp["mode"], "reverse": inp["reverse"], "composite": bool(inp["shape"]),
            "mixed_signatures": len({tuple(sorted(s)) for s in inp["sigs"]}) > 1}
    if "exc" in obs:
        return {"expected": "W, Winv", "observed": obs, "tags": dict(tags, exc=obs["exc"]), "property_failure": True}
    nn = inp["n"]
    if obs["shape"] != inp["shape"] + [nn, nn] or obs["tuple"] != inp["with_inverse"]:
        return {"expected": inp["shape"] + [nn, nn], "observed": obs["shape"], "tags": dict(tags, shape=True), "property_failure": True}
    captured = "U" in obs
    for u in range(len(inp["forms"])):
        rr, oo = (lr[2 * u], lr[2 * u + 1]) if captured else (lr[u], None)
        for res in (rr, oo):
            if res is not None and "err" in res:
                return {"expected": "model answer", "observed": res, "tags": dict(tags, driver_err=res["err"])}
        r = {k: (float(F(v)) if isinstance(v, str) else v) for k, v in rr["ok"].items()}
        if captured and max(r["eigh_diag"], r["eigh_orth"]) > 1e-9 * 40:
            return {"expected": "eigh contract UᵀBU = diag eigs, UᵀU = 1", "observed": r, "tags": dict(tags, lapack_contract=True)}
        if max(r["offdiag"], r["diag"], r["inv"]) > 1e-9:
            return {"expected": "WᵀBW = diag(±1), W·Winv = 1 (exact residuals ≤ 1e-9)", "observed": r,
                    "tags": dict(tags, residual=True), "property_failure": True}
        signs = [int(F(s)) for s in rr["ok"]["signs"]]
        want = expected_signs(inp["sigs"][u], inp["mode"], inp["reverse"])
        if signs != want:
            return {"expected": {"signs": want}, "observed": {"signs": signs}, "tags": dict(tags, order=True), "property_failure": True}
        if not captured:
            continue
        # by value, modulo ties (np.argsort is not stable): column i of W is column perm[i] of U / sqrt|eig| for a
        # permutation perm along which the model's sort key takes the same values as along the model's order
        order, key = oo["ok"]["order"], [F(x) for x in oo["ok"]["key"]]
        e, U = np.array(obs["eigs"][u]), np.array(obs["U"][u])
        cand = U / np.sqrt(np.abs(e))
        cinv = np.sqrt(np.abs(e))[:, None] * U.T
        Wo, Wio = np.array(obs["W"][u]), np.array(obs["Winv"][u])
        if nn > 1 and np.min(np.diff(np.sort(e))) < 1e-6 * (1 + np.max(np.abs(e))):
            continue      # a repeated eigenvalue: its eigenvectors are determined only up to a rotation
        perm = []
        for i in range(nn):
            # an eigenvector is determined up to its sign (W column and Winv row change sign together)
            js = [j for j in range(nn) if any(close(sg * Wo[:, i], cand[:, j], 1e-9) and (not inp["with_inverse"] or close(sg * Wio[i], cinv[j], 1e-9))
                                              for sg in (1, -1))]
            if len(js) != 1:
                return {"expected": "every column of W is one column of U·D (and the same row of Dinv·Uᵀ)", "observed": {"column": i, "matches": js},
                        "tags": dict(tags, by_value=True)}
            perm.append(js[0])
        if sorted(perm) != list(range(nn)) or [key[j] for j in perm] != [key[j] for j in order]:
            return {"expected": {"order (modulo ties)": order, "keys": [str(key[j]) for j in order]}, "observed": {"order": perm},
                    "tags": dict(tags, by_value=True, order=True)}
    return None


# ---- exact model run: distinct eigenvalues, columns compared up to sign -------------------------
def gen_diag_exact(rng, n):
    for _ in range(n):
        nn = rng.randint(1, 5)
        q = rng.randint(0, nn)
        B, Qm, D = L.rform(rng, nn - q, q, distinct=True)
        yield {"n": nn, "B": L.encM(B), "Q": L.encM(Qm), "D": L.encV(D), "mode": rng.choice(["signed", "minkowski"]),
               "reverse": rng.random() < 0.5}


def run_diag_exact(inp):
    W, Wi = utils.diagonalize_form(Q.decf(inp["B"]), order_eigenvalues=inp["mode"], reverse=inp["reverse"])
    return {"W": W.tolist(), "Winv": Wi.tolist()}


def lean_diag_exact(inp, obs):
    D, Qm = Q.dec(inp["D"]), Q.dec(inp["Q"])
    idx = sorted(range(len(D)), key=lambda i: D[i])          # eigh: ascending eigenvalues; U column j = row idx[j] of Q
    U = [[Qm[idx[j]][i] for j in range(len(D))] for i in range(len(D))]
    return [{"op": "c18.diagonalize", "eigs": L.encV([D[i] for i in idx]), "U": L.encM(U), "mode": inp["mode"], "reverse": inp["reverse"]}]


def judge_diag_exact(inp, obs, lr):
    tags = {"fn": "diagonalize_form", "mode": inp["mode"], "reverse": inp["reverse"], "exact": True}
    if "exc" in obs:
        return {"expected": "W, Winv", "observed": obs, "tags": dict(tags, exc=obs["exc"]), "property_failure": True}
    if "err" in lr[0]:
        return {"expected": "model answer", "observed": lr[0], "tags": dict(tags, driver_err=lr[0]["err"])}
    Wm, Wim = Q.decf(lr[0]["ok"]["W"]), Q.decf(lr[0]["ok"]["Winv"])
    W, Wi = np.array(obs["W"]), np.array(obs["Winv"])
    B = Q.decf(inp["B"])
    sgn = np.sign(np.diag(Wm.T @ B @ Wm))
    perm = []
    for j in range(inp["n"]):
        ks = [k for k in range(inp["n"]) if (close(W[:, j], Wm[:, k], 1e-9) and close(Wi[j], Wim[k], 1e-9)) or
              (close(-W[:, j], Wm[:, k], 1e-9) and close(-Wi[j], Wim[k], 1e-9))]
        if len(ks) != 1:
            return {"expected": {"column": j, "W": Wm.tolist()}, "observed": W.tolist(), "tags": tags}
        perm.append(ks[0])
    # np.argsort is not stable: with "minkowski" keys the columns of one sign may come in any order
    ok = sorted(perm) == list(range(inp["n"])) and all(sgn[k] == sgn[j] for j, k in enumerate(perm)) and \
        (inp["mode"] == "minkowski" or perm == list(range(inp["n"])))
    if not ok:
        return {"expected": {"W (modulo ties)": Wm.tolist()}, "observed": {"W": W.tolist(), "matching": perm}, "tags": dict(tags, order=True)}
    return None


# ------------------------------------------------------------------------------------------------
# S2d: kernel: svd captured; selection by the model; residuals exactly
# ------------------------------------------------------------------------------------------------
def gen_kernel(rng, n):
    for _ in range(n):
        m, nn = rng.randint(1, 5), rng.randint(1, 6)
        rk = rng.randint(0, min(m, nn))
        shape = rng.choice(SHAPES)
        via = rng.choice(["kernel", "kernel", "orthogonal_complement"])
        if via == "orthogonal_complement":
            # its docstring requires linearly independent row vectors: k = rank ≤ n (utils.kernel itself takes any rank)
            m = rng.randint(1, nn)
            rk = m
        yield {"m": m, "n": nn, "rank": rk, "shape": shape, "A": [L.encM(L.rank_mat(rng, m, nn, rk)) for _ in range(cnt(shape))],
               "via": via}


def run_kernel(inp):
    A = np.array([Q.decf(a) for a in inp["A"]]).reshape(tuple(inp["shape"]) + (inp["m"], inp["n"]))
    with Capture(np.linalg, "svd") as cap:
        if inp["via"] == "kernel":
            N = utils.kernel(A.copy())
            rows = np.asarray(N).swapaxes(-1, -2)
        else:
            rows = np.asarray(utils.orthogonal_complement(A.copy(), normalize=None))
    out = {"shape": list(rows.shape), "N": [L.fenc(x) for x in L.units(rows, 2)]}
    if len(cap.calls) == 1:
        (_, (u, s, vh)), = cap.calls
        out.update(u=[L.fenc(x) for x in L.units(u, 2)], s=[L.fenc(x) for x in L.units(s, 1)], vh=[L.fenc(x) for x in L.units(vh, 2)])
    return out


def lean_kernel(inp, obs):
    if "exc" in obs:
        return []
    ops = []
    if "vh" not in obs:        # no single svd call to capture: residuals of the returned basis only
        return [{"op": "c18.kernel_residual", "A": a, "n": inp["n"], "N": N} for a, N in zip(inp["A"], obs["N"])]
    for a, N, u, s, vh in zip(inp["A"], obs["N"], obs["u"], obs["s"], obs["vh"]):
        ops.append({"op": "c18.svd_kernel", "m": inp["m"], "s": s, "tol": Q.qs(1e-8), "vh": vh})
        ops.append({"op": "c18.kernel_residual", "A": a, "n": inp["n"], "N": N, "u": u, "s": s, "vh": vh})
    return ops


def judge_kernel(inp, obs, lr):
    tags = {"fn": inp["via"], "m": inp["m"], "n": inp["n"], "rank": inp["rank"], "composite": bool(inp["shape"]),
            "trivial_kernel": inp["rank"] == inp["n"]}
    if "exc" in obs:
        return {"expected": "kernel basis", "observed": obs, "tags": dict(tags, exc=obs["exc"]), "property_failure": True}
    kd = inp["n"] - inp["rank"]
    if obs["shape"] != inp["shape"] + [kd, inp["n"]]:
        return {"expected": f"{kd} basis vectors of length {inp['n']}", "observed": obs["shape"], "tags": dict(tags, dimension=True),
                "property_failure": True}
    captured = "vh" in obs
    for u in range(len(inp["A"])):
        sel, rr = (lr[2 * u], lr[2 * u + 1]) if captured else (None, lr[u])
        for res in (sel, rr):
            if res is not None and "err" in res:
                return {"expected": "model answer", "observed": res, "tags": dict(tags, driver_err=res["err"])}
        r = {k: (float(F(v)) if isinstance(v, str) else v) for k, v in rr["ok"].items()}
        if captured and (max(r["svd_recon"], r["svd_orth"]) > 1e-9 * 40 or not r["svd_sorted"] or r["svd_len"] != min(inp["m"], inp["n"])):
            return {"expected": "svd contract A = uΣvh, u uᵀ = vh vhᵀ = 1, s ≥ 0 descending, len(s) = min(m,n)", "observed": r,
                    "tags": dict(tags, lapack_contract=True)}
        if captured and not same_span(Q.decf(sel["ok"]) if sel["ok"] else np.zeros((0, inp["n"])),
                                      Q.decf(obs["N"][u]) if obs["N"][u] else np.zeros((0, inp["n"]))):
            return {"expected": {"span of the selected rows of vh": sel["ok"]}, "observed": obs["N"][u], "tags": dict(tags, selection=True)}
        if max(r["ann"], r["orth"]) > 1e-9 * 40 or r["count"] != kd:
            return {"expected": "A·N = 0, NᵀN = 1, n − rank columns (exact residuals)", "observed": r, "tags": dict(tags, residual=True),
                    "property_failure": True}
    return None


# ------------------------------------------------------------------------------------------------
# S2e: sphere_through / circle_through by value
# ------------------------------------------------------------------------------------------------
def gen_sphere(rng, n):
    made = 0
    while made < n:
        d = rng.choice([1, 2, 2, 2, 3, 4, 5])
        shape = rng.choice(SHAPES)
        pts = []
        for _ in range(cnt(shape)):
            for _ in range(40):
                P = Q.rmat(rng, d + 1, d, 5, 3)
                T = [[P[i + 1][k] - P[0][k] for k in range(d)] for i in range(d)]
                if abs(Q.det(T)) >= F(1, 2):
                    pts.append(L.encM(P))
                    break
        if len(pts) < cnt(shape):
            continue
        made += 1
        yield {"d": d, "shape": shape, "pts": pts, "circle": d == 2 and rng.random() < 0.5}


def run_sphere(inp):
    d = inp["d"]
    P = np.array([Q.decf(p) for p in inp["pts"]]).reshape(tuple(inp["shape"]) + (d + 1, d))
    if inp["circle"]:
        c, r = utils.circle_through(P[..., 0, :].copy(), P[..., 1, :].copy(), P[..., 2, :].copy())
    else:
        c, r = utils.sphere_through(P.copy())
    return {"cshape": list(np.asarray(c).shape), "rshape": list(np.asarray(r).shape),
            "c": L.units(c, 1).tolist(), "r": np.asarray(r, dtype=float).reshape(-1).tolist()}


def lean_sphere(inp, obs):
    return [{"op": "c18.sphere", "pts": p} for p in inp["pts"]]


def judge_sphere(inp, obs, lr):
    tags = {"fn": "circle_through" if inp["circle"] else "sphere_through", "d": inp["d"], "composite": bool(inp["shape"])}
    if "exc" in obs:
        return {"expected": "centre, radius", "observed": obs, "tags": dict(tags, exc=obs["exc"]), "property_failure": True}
    if obs["cshape"] != inp["shape"] + [inp["d"]] or obs["rshape"] != inp["shape"]:
        return {"expected": [inp["shape"] + [inp["d"]], inp["shape"]], "observed": [obs["cshape"], obs["rshape"]],
                "tags": dict(tags, shape=True), "property_failure": True}
    for res, c, r in zip(lr, obs["c"], obs["r"]):
        if "err" in res:
            return {"expected": "model answer", "observed": res, "tags": dict(tags, driver_err=res["err"])}
        mc, mr = Q.decf(res["ok"]["center"]), math.sqrt(float(F(res["ok"]["r2"])))
        if not (close(np.array(c), mc, 1e-8) and close(r, mr, 1e-8)):
            return {"expected": {"center": mc.tolist(), "radius": mr}, "observed": {"center": c, "radius": r}, "tags": tags}
    return None


# ------------------------------------------------------------------------------------------------
# S2f: arc helpers by value (exact float inputs, π = the double np.pi sent exactly)
# ------------------------------------------------------------------------------------------------
PI = float(np.pi)


def gen_arcs(rng, n):
    for _ in range(n):
        fn = rng.choice(["short_arc", "right_to_left", "arc_include"])
        shape = rng.choice(SHAPES)
        lim = 2 * PI if fn == "short_arc" else PI
        pairs, refs = [], []
        for _ in range(cnt(shape)):
            while True:
                k = rng.random()
                if k < 0.15:
                    a, b = rng.choice([0.0, PI / 2, -PI / 2, 1.0, -1.0]), rng.choice([0.0, PI / 2, -PI / 2, 2.0, -2.0])
                else:
                    a, b = rng.uniform(-lim, lim) * 0.999, rng.uniform(-lim, lim) * 0.999
                ref = rng.uniform(-PI, PI)
                sh = lambda x: x + 2 * PI if x < 0 else x
                # keep away from the decision boundaries by 1e-6 so that float and exact arithmetic take the same branch
                if fn == "short_arc" and (abs(abs(sh(a) - sh(b)) - PI) < 1e-6 or min(abs(a), abs(b)) < 1e-9 and (a != 0 and b != 0)):
                    continue
                if fn == "right_to_left" and abs(math.cos(a) - math.cos(b)) < 1e-6:
                    continue
                if fn == "arc_include" and (abs(sh(b - a) - sh(ref - a)) < 1e-6 or abs(b - a) < 1e-9 or abs(ref - a) < 1e-9):
                    continue
                break
            pairs.append([a, b])
            refs.append(ref)
        yield {"fn": fn, "shape": shape, "pairs": pairs, "refs": refs}


def run_arcs(inp):
    t = np.array(inp["pairs"]).reshape(tuple(inp["shape"]) + (2,))
    t0 = t.copy()
    if inp["fn"] == "short_arc":
        out = utils.short_arc(t)
    elif inp["fn"] == "right_to_left":
        out = utils.right_to_left(t)
    else:
        out = utils.arc_include(t, np.array(inp["refs"]).reshape(tuple(inp["shape"])))
    return {"shape": list(out.shape), "out": L.units(out, 1).tolist(), "mutated": bool(np.any(t != t0)),
            "cos": [[float(np.cos(a)), float(np.cos(b))] for a, b in inp["pairs"]]}


def lean_arcs(inp, obs):
    if "exc" in obs:
        return []
    ops = []
    for (a, b), ref, cs in zip(inp["pairs"], inp["refs"], obs["cos"]):
        if inp["fn"] == "short_arc":
            ops.append({"op": "c18.short_arc", "pi": Q.qs(PI), "a": Q.qs(a), "b": Q.qs(b)})
        elif inp["fn"] == "right_to_left":
            ops.append({"op": "c18.right_to_left", "a": Q.qs(a), "b": Q.qs(b), "ca": Q.qs(cs[0]), "cb": Q.qs(cs[1])})
        else:
            ops.append({"op": "c18.arc_include", "pi": Q.qs(PI), "a": Q.qs(a), "b": Q.qs(b), "ref": Q.qs(ref)})
    return ops


def judge_arcs(inp, obs, lr):
    tags = {"fn": inp["fn"], "composite": bool(inp["shape"]), "unit": not inp["shape"]}
    if "exc" in obs:
        return {"expected": "ordered pair", "observed": obs, "tags": dict(tags, exc=obs["exc"]), "property_failure": True}
    if obs["shape"] != inp["shape"] + [2]:
        return {"expected": inp["shape"] + [2], "observed": obs["shape"], "tags": dict(tags, shape=True), "property_failure": True}
    for res, iv in zip(lr, obs["out"]):
        if "err" in res:
            return {"expected": "model answer", "observed": res, "tags": dict(tags, driver_err=res["err"])}
        mv = Q.decf(res["ok"])
        # an angle is an angle modulo 2π: first ≡ first, second ≡ second (this fixes the arc and its orientation)
        if not all(math.isfinite(a) and abs(math.remainder(a - b, 2 * PI)) <= 1e-9 for a, b in zip(iv, mv)):
            return {"expected": {"angles modulo 2π": mv.tolist()}, "observed": iv, "tags": tags}
    return None


# ------------------------------------------------------------------------------------------------
# S3: the contracts themselves on random well-conditioned float inputs
# ------------------------------------------------------------------------------------------------
def fform(rng, p, q, lo=0.3):
    n = p + q
    Qm, _ = np.linalg.qr(np.array([[rng.gauss(0, 1) for _ in range(n)] for _ in range(n)]))
    mag = lambda: math.exp(rng.uniform(math.log(lo), math.log(3.0)))
    d = [mag() for _ in range(p)] + [-mag() for _ in range(q)]
    rng.shuffle(d)
    return Qm.T @ np.diag(d) @ Qm, d


def span_dist(A, Bm):
    """largest distance of a unit combination of rows of A from the row space of Bm (0 iff span A ⊆ span B)"""
    if len(A) == 0:
        return 0.0
    Qb, _ = np.linalg.qr(np.asarray(Bm).T)
    An = np.asarray(A) / np.linalg.norm(A, axis=1, keepdims=True)
    return float(np.max(np.linalg.norm(An - (An @ Qb) @ Qb.T, axis=1)))


def gen_gso(rng, n):
    made = 0
    while made < n:
        p, q = rng.choice(SIGS)
        nn = p + q
        B, d = fform(rng, p, q)
        k = rng.randint(1, nn)
        shape = rng.choice(SHAPES)
        rows = np.array([[[rng.gauss(0, 1) for _ in range(nn)] for _ in range(k)] for _ in range(cnt(shape))])
        # conditioning filter with an independent computation: leading principal minors of the Gram matrix
        ok = True
        for R in rows:
            G = R @ B @ R.T
            mins = [np.linalg.det(G[:j, :j]) for j in range(1, k + 1)]
            ratios = [mins[0]] + [mins[j] / mins[j - 1] for j in range(1, k)]
            if min(abs(x) for x in ratios) < 0.05 or np.linalg.cond(R) > 1e3:
                ok = False
        if not ok:
            continue
        made += 1
        fn = rng.choice(["ortho", "find", "find"])
        yield {"sig": [p, q], "B": B.tolist(), "k": k, "shape": shape, "rows": rows.tolist(), "fn": fn,
               "force_oriented": rng.random() < 0.5, "oned": k == 1 and not shape and rng.random() < 0.6}


def run_gso(inp):
    B = np.array(inp["B"])
    n = B.shape[0]
    rows = np.array(inp["rows"]).reshape(tuple(inp["shape"]) + (inp["k"], n))
    arg = rows[0].copy() if inp.get("oned") else rows.copy()      # a single vector may be passed as a 1-d array
    if inp["fn"] == "ortho":
        out = utils.indefinite_orthogonalize(B, arg)
        if inp.get("oned"):
            out = out[None, :]
    else:
        out = utils.find_isometry(B, arg, inp["force_oriented"])
    U = L.units(out, 2)
    R = L.units(rows, 2)
    G = U @ B @ U.swapaxes(-1, -2)
    off = float(np.max(np.abs(G - np.einsum("...ii->...i", G)[..., None] * np.eye(G.shape[-1])))) if G.size else 0.0
    dg = float(np.max(np.abs(np.abs(np.einsum("...ii->...i", G)) - 1)))
    flag = 0.0
    for u, r in zip(U, R):
        for j in range(1, inp["k"] + 1):
            flag = max(flag, span_dist(u[:j], r[:j]), span_dist(r[:j], u[:j]))
    res = {"shape": list(out.shape), "off": off, "diag": dg, "flag": flag}
    if inp["fn"] == "find":
        res["dets"] = np.linalg.det(U).tolist()
        res["signs_ok"] = bool(all(sorted(np.sign(np.diag(g)).tolist()) == sorted([1.0] * inp["sig"][0] + [-1.0] * inp["sig"][1]) for g in G))
    return res


def judge_gso(inp, obs, lr):
    tags = {"fn": "indefinite_orthogonalize" if inp["fn"] == "ortho" else "find_isometry", "sig": inp["sig"],
            "composite": bool(inp["shape"]), "force_oriented": inp["force_oriented"]}
    if "exc" in obs:
        return {"expected": "orthonormal rows", "observed": obs, "tags": dict(tags, exc=obs["exc"])}
    n = sum(inp["sig"])
    want = inp["shape"] + [inp["k"] if inp["fn"] == "ortho" else n, n]
    if obs["shape"] != want:
        return {"expected": want, "observed": obs["shape"], "tags": dict(tags, shape=True)}
    if not (obs["off"] <= 1e-7 and obs["diag"] <= 1e-7):
        return {"expected": "rows mutually orthogonal with square-norm ±1 (1e-7)", "observed": obs, "tags": dict(tags, residual=True)}
    if not obs["flag"] <= 1e-6:
        return {"expected": "first j output rows span the first j input rows", "observed": obs["flag"], "tags": dict(tags, flag=True)}
    if inp["fn"] == "find":
        if not obs["signs_ok"]:
            return {"expected": "signature of the form", "observed": obs, "tags": dict(tags, signature=True)}
        if inp["force_oriented"] and not all(d > 0 for d in obs["dets"]):
            return {"expected": "positive determinant on request", "observed": obs["dets"], "tags": dict(tags, orientation=True)}
    return None


def gen_diago(rng, n):
    for _ in range(n):
        shape = rng.choice(SHAPES)
        nn = rng.randint(1, 6)
        forms, sigs = [], []
        for _ in range(cnt(shape)):
            q = rng.randint(0, nn)
            B, d = fform(rng, nn - q, q, lo=3e-3)      # eigenvalues bounded away from 0 with cond ≤ 1e3
            forms.append(B.tolist())
            sigs.append([1 if x > 0 else -1 for x in d])
        yield {"n": nn, "shape": shape, "forms": forms, "sigs": sigs, "mode": rng.choice(["signed", "minkowski", "minkowski"]),
               "reverse": rng.random() < 0.5, "with_inverse": rng.random() < 0.8}


def run_diago(inp):
    nn = inp["n"]
    B = np.array(inp["forms"]).reshape(tuple(inp["shape"]) + (nn, nn))
    res = utils.diagonalize_form(B.copy(), order_eigenvalues=inp["mode"], reverse=inp["reverse"], with_inverse=inp["with_inverse"])
    W, Wi = res if inp["with_inverse"] else (res, None)
    G = L.units(W.swapaxes(-1, -2) @ B @ W, 2)
    dg = np.einsum("...ii->...i", G)
    out = {"shape": list(W.shape), "off": float(np.max(np.abs(G - dg[..., None] * np.eye(nn)))), "diag": float(np.max(np.abs(np.abs(dg) - 1))),
           "signs": np.sign(dg).astype(int).tolist()}
    if Wi is not None:
        out["inv"] = float(np.max(np.abs(W @ Wi - np.eye(nn))))
    return out


def judge_diago(inp, obs, lr):
    tags = {"fn": "diagonalize_form", "mode": inp["mode"], "reverse": inp["reverse"], "composite": bool(inp["shape"]),
            "mixed_signatures": len({tuple(sorted(s)) for s in inp["sigs"]}) > 1}
    if "exc" in obs:
        return {"expected": "W, Winv", "observed": obs, "tags": dict(tags, exc=obs["exc"])}
    if obs["shape"] != inp["shape"] + [inp["n"], inp["n"]]:
        return {"expected": "shape", "observed": obs["shape"], "tags": dict(tags, shape=True)}
    if not (obs["off"] <= 1e-8 and obs["diag"] <= 1e-8 and obs.get("inv", 0) <= 1e-8):
        return {"expected": "WᵀBW = diag(±1), W Winv = 1 (1e-8)", "observed": obs, "tags": dict(tags, residual=True)}
    want = [expected_signs(s, inp["mode"], inp["reverse"]) for s in inp["sigs"]]
    if obs["signs"] != want:
        return {"expected": {"signs": want}, "observed": {"signs": obs["signs"]}, "tags": dict(tags, order=True)}
    return None


def gen_kero(rng, n):
    for _ in range(n):
        m, nn = rng.randint(1, 5), rng.randint(1, 6)
        rk = rng.randint(0, min(m, nn))
        shape = rng.choice(SHAPES)
        As = []
        for _ in range(cnt(shape)):
            Lm = np.array([[rng.gauss(0, 1) for _ in range(rk)] for _ in range(m)]).reshape(m, rk)
            Rm = np.array([[rng.gauss(0, 1) for _ in range(nn)] for _ in range(rk)]).reshape(rk, nn)
            if rk:
                ql, _ = np.linalg.qr(Lm)
                qr_, _ = np.linalg.qr(Rm.T)
                A = ql @ np.diag([rng.uniform(0.5, 3) for _ in range(rk)]) @ qr_.T
            else:
                A = np.zeros((m, nn))
            As.append(A.tolist())
        via = rng.choice(["kernel", "kernel", "oc_form", "oc_none", "oc_real_none", "oc_real_form"])
        if via != "kernel" and any(r != m for r in [rk]):
            via = "kernel"          # orthogonal_complement documents linearly independent rows; only utils.kernel takes any rank
        inp = {"m": m, "n": nn, "rank": rk, "shape": shape, "A": As, "via": via}
        if via.startswith("oc_real"):
            # a genuine (positive definite, so that normalisation is always possible) form: complements are form-orthogonal
            G = np.array([[rng.gauss(0, 1) for _ in range(nn)] for _ in range(nn)])
            inp["form"] = (G @ G.T + 0.5 * np.eye(nn)).tolist()
        yield inp


def run_kero(inp):
    A = np.array(inp["A"]).reshape(tuple(inp["shape"]) + (inp["m"], inp["n"]))
    Fm = np.array(inp["form"]) if "form" in inp else np.eye(inp["n"])
    if inp["via"] == "kernel":
        rows = np.asarray(utils.kernel(A.copy())).swapaxes(-1, -2)
    elif "form" in inp:
        rows = np.asarray(utils.orthogonal_complement(A.copy(), Fm, normalize="form" if inp["via"] == "oc_real_form" else None))
    else:
        rows = np.asarray(utils.orthogonal_complement(A.copy(), normalize="form" if inp["via"] == "oc_form" else None))
    U = L.units(rows, 2)
    ann = float(np.max(np.abs(L.units(A, 2) @ Fm @ U.swapaxes(-1, -2)))) if U.size else 0.0      # form-orthogonal to the given vectors
    Gm = U @ (Fm if inp["via"] == "oc_real_form" else np.eye(inp["n"])) @ U.swapaxes(-1, -2)
    orth = float(np.max(np.abs(Gm - np.eye(U.shape[-2])))) if U.size else 0.0
    return {"shape": list(rows.shape), "ann": ann, "orth": orth}


def judge_kero(inp, obs, lr):
    tags = {"fn": inp["via"], "m": inp["m"], "n": inp["n"], "rank": inp["rank"], "composite": bool(inp["shape"]),
            "trivial_kernel": inp["rank"] == inp["n"]}
    if "exc" in obs:
        return {"expected": "kernel basis", "observed": obs, "tags": dict(tags, exc=obs["exc"])}
    kd = inp["n"] - inp["rank"]
    if obs["shape"] != inp["shape"] + [kd, inp["n"]]:
        return {"expected": f"{kd} basis vectors (n − rank)", "observed": obs["shape"], "tags": dict(tags, dimension=True)}
    if not (obs["ann"] <= 1e-8 and obs["orth"] <= 1e-8):
        return {"expected": "annihilated and orthonormal (1e-8)", "observed": obs, "tags": dict(tags, residual=True)}
    return None


def gen_spho(rng, n):
    made = 0
    while made < n:
        d = rng.choice([1, 2, 2, 3, 4, 5])
        shape = rng.choice(SHAPES)
        P = np.array([[[rng.gauss(0, 2) for _ in range(d)] for _ in range(d + 1)] for _ in range(cnt(shape))])
        if any(np.linalg.cond(p[1:] - p[0]) > 1e3 for p in P):
            continue
        made += 1
        yield {"d": d, "shape": shape, "pts": P.tolist(), "circle": d == 2 and rng.random() < 0.5}


def run_spho(inp):
    d = inp["d"]
    P = np.array(inp["pts"]).reshape(tuple(inp["shape"]) + (d + 1, d))
    if inp["circle"]:
        c, r = utils.circle_through(P[..., 0, :].copy(), P[..., 1, :].copy(), P[..., 2, :].copy())
    else:
        c, r = utils.sphere_through(P.copy())
    dist = np.linalg.norm(P - np.asarray(c)[..., None, :], axis=-1)
    return {"cshape": list(np.asarray(c).shape), "rshape": list(np.asarray(r).shape),
            "dev": float(np.max(np.abs(dist - np.asarray(r)[..., None]) / (1 + np.asarray(r)[..., None]))), "rmin": float(np.min(r))}


def judge_spho(inp, obs, lr):
    tags = {"fn": "circle_through" if inp["circle"] else "sphere_through", "d": inp["d"], "composite": bool(inp["shape"])}
    if "exc" in obs:
        return {"expected": "centre, radius", "observed": obs, "tags": dict(tags, exc=obs["exc"])}
    if obs["cshape"] != inp["shape"] + [inp["d"]] or obs["rshape"] != inp["shape"]:
        return {"expected": "shapes", "observed": [obs["cshape"], obs["rshape"]], "tags": dict(tags, shape=True)}
    if not (obs["dev"] <= 1e-7 and obs["rmin"] >= 0):
        return {"expected": "all points at distance radius from the centre (1e-7 relative)", "observed": obs, "tags": dict(tags, residual=True)}
    return None


def wrap2pi(x):
    return x - 2 * PI * math.floor(x / (2 * PI))


def judge_arco(inp, obs, lr):
    tags = {"fn": inp["fn"], "composite": bool(inp["shape"]), "unit": not inp["shape"]}
    if "exc" in obs:
        return {"expected": "ordered pair", "observed": obs, "tags": dict(tags, exc=obs["exc"])}
    if obs["shape"] != inp["shape"] + [2]:
        return {"expected": inp["shape"] + [2], "observed": obs["shape"], "tags": dict(tags, shape=True)}
    if obs["mutated"]:
        return {"expected": "input not modified", "observed": "thetas changed in place", "tags": dict(tags, mutated=True)}
    for (a, b), ref, (x, y) in zip(inp["pairs"], inp["refs"], obs["out"]):
        same = lambda u, v: abs(math.remainder(u - v, 2 * PI)) < 1e-9
        if not ((same(x, a) and same(y, b)) or (same(x, b) and same(y, a))):
            return {"expected": f"the same two angles {a}, {b} modulo 2π", "observed": [x, y], "tags": dict(tags, permutation=True)}
        ccw = wrap2pi(y - x)
        if inp["fn"] == "short_arc" and not ccw <= PI + 1e-9:
            return {"expected": "counter-clockwise arc from first to second ≤ π", "observed": [x, y, ccw], "tags": dict(tags, arc=True)}
        if inp["fn"] == "right_to_left" and not math.cos(y) <= math.cos(x) + 1e-12:
            return {"expected": "cos(second) ≤ cos(first)", "observed": [x, y], "tags": dict(tags, arc=True)}
        if inp["fn"] == "arc_include" and not wrap2pi(ref - x) <= ccw + 1e-9:
            return {"expected": f"reference {ref} on the counter-clockwise arc", "observed": [x, y], "tags": dict(tags, arc=True)}
    return None


# ------------------------------------------------------------------------------------------------
# circle_angles: the angle as a (cos, sin) pair
# ------------------------------------------------------------------------------------------------
def gen_cang(rng, n):
    for _ in range(n):
        shape = rng.choice(SHAPES)
        k = rng.randint(1, 3)
        centers, pts = [], []
        for _ in range(cnt(shape)):
            c = [Q.rq(rng, 9, 4), Q.rq(rng, 9, 4)]
            ps = []
            for _ in range(k):
                co, si = Q.rrot(rng)
                if rng.random() < 0.2:
                    co, si = rng.choice([(F(1), F(0)), (F(-1), F(0)), (F(0), F(1)), (F(0), F(-1))])
                rho = F(rng.randint(1, 12), rng.randint(1, 5))
                ps.append([c[0] + rho * co, c[1] + rho * si])
            centers.append(L.encV(c))
            pts.append(L.encM(ps))
        yield {"shape": shape, "k": k, "centers": centers, "pts": pts}


def run_cang(inp):
    c = np.array([Q.decf(x) for x in inp["centers"]]).reshape(tuple(inp["shape"]) + (2,))
    P = np.array([Q.decf(x) for x in inp["pts"]]).reshape(tuple(inp["shape"]) + (inp["k"], 2))
    th = np.asarray(utils.circle_angles(c, P), dtype=float)
    return {"shape": list(th.shape), "theta": L.units(th, 1).tolist()}


def lean_cang(inp, obs):
    return [{"op": "c18.circle_angle", "center": c, "p": p} for c, ps in zip(inp["centers"], inp["pts"]) for p in ps]


def judge_cang(inp, obs, lr):
    tags = {"fn": "circle_angles", "composite": bool(inp["shape"])}
    if "exc" in obs:
        return {"expected": "angles", "observed": obs, "tags": dict(tags, exc=obs["exc"]), "property_failure": True}
    if obs["shape"] != inp["shape"] + [inp["k"]]:
        return {"expected": inp["shape"] + [inp["k"]], "observed": obs["shape"], "tags": dict(tags, shape=True), "property_failure": True}
    flat = [t for row in obs["theta"] for t in row]
    for res, t in zip(lr, flat):
        if "err" in res:
            return {"expected": "model answer", "observed": res, "tags": dict(tags, driver_err=res["err"])}
        c, s_ = (float(F(x)) for x in res["ok"])
        if not (-PI - 1e-12 <= t <= PI + 1e-12 and abs(math.cos(t) - c) <= 1e-9 and abs(math.sin(t) - s_) <= 1e-9):
            return {"expected": {"cos": c, "sin": s_, "range": "[-π, π]"}, "observed": {"theta": t, "cos": math.cos(t), "sin": math.sin(t)},
                    "tags": tags, "property_failure": not (-PI - 1e-12 <= t <= PI + 1e-12)}
    return None


# ---- numerical.svd_kernel options: assume_full_rank, matching_rank=False (+ with_dimensions / with_loc) ----------------
def gen_svdopt(rng, n):
    for _ in range(n):
        m, nn = rng.randint(1, 4), rng.randint(1, 5)
        b = rng.randint(1, 4)
        mode = rng.choice(["nomatch", "nomatch", "full"])
        As, ranks = [], []
        for _ in range(b):
            rk = min(m, nn) if mode == "full" else rng.randint(0, min(m, nn))
            if rk:
                ql, _ = np.linalg.qr(np.array([[rng.gauss(0, 1) for _ in range(rk)] for _ in range(m)]).reshape(m, rk))
                qr_, _ = np.linalg.qr(np.array([[rng.gauss(0, 1) for _ in range(rk)] for _ in range(nn)]).reshape(nn, rk))
                A = ql @ np.diag([rng.uniform(0.5, 3) for _ in range(rk)]) @ qr_.T
            else:
                A = np.zeros((m, nn))
            As.append(A.tolist())
            ranks.append(rk)
        yield {"m": m, "n": nn, "A": As, "ranks": ranks, "mode": mode, "with_dimensions": rng.random() < 0.5, "with_loc": rng.random() < 0.5}


def run_svdopt(inp):
    A = np.array(inp["A"]).reshape(len(inp["A"]), inp["m"], inp["n"])
    if inp["mode"] == "full":
        N = numerical.svd_kernel(A.copy(), assume_full_rank=True)
        groups = [(inp["n"] - min(inp["m"], inp["n"]), N, np.ones(len(A), dtype=bool))]
    else:
        res = numerical.svd_kernel(A.copy(), matching_rank=False, with_dimensions=inp["with_dimensions"], with_loc=inp["with_loc"])
        kd = np.array([inp["n"] - r for r in inp["ranks"]])
        dims_true = sorted(set(kd.tolist()))
        if inp["with_dimensions"] and inp["with_loc"]:
            dims, bases, locs = res
        elif inp["with_dimensions"]:
            dims, bases = res
            locs = [kd == d for d in dims]
        elif inp["with_loc"]:
            bases, locs = res
            dims = dims_true
        else:
            bases, dims, locs = res, dims_true, [kd == d for d in dims_true]
        if list(np.asarray(dims).tolist()) != dims_true or len(bases) != len(dims_true):
            return {"dims": np.asarray(dims).tolist(), "dims_true": dims_true, "nb": len(bases)}
        groups = [(d, Bm, np.asarray(l)) for d, Bm, l in zip(dims_true, bases, locs)]
    worst_ann = worst_orth = 0.0
    shapes = []
    for d, Bm, loc in groups:
        Bm = np.asarray(Bm)
        shapes.append([list(Bm.shape), [int(loc.sum()), inp["n"], int(d)]])
        if Bm.size and list(Bm.shape) == [int(loc.sum()), inp["n"], int(d)]:
            worst_ann = max(worst_ann, float(np.max(np.abs(A[loc] @ Bm))))
            worst_orth = max(worst_orth, float(np.max(np.abs(Bm.swapaxes(-1, -2) @ Bm - np.eye(int(d))))))
    return {"shapes": shapes, "ann": worst_ann, "orth": worst_orth}


def judge_svdopt(inp, obs, lr):
    tags = {"fn": "svd_kernel", "mode": inp["mode"], "trivial_kernel": any(r == inp["n"] for r in inp["ranks"]),
            "mixed_ranks": len(set(inp["ranks"])) > 1}
    if "exc" in obs:
        return {"expected": "kernel bases", "observed": obs, "tags": dict(tags, exc=obs["exc"])}
    if "dims" in obs:
        return {"expected": {"kernel dimensions": obs["dims_true"]}, "observed": obs, "tags": dict(tags, dimension=True)}
    for got, want in obs["shapes"]:
        if got != want:
            return {"expected": {"shape": want}, "observed": {"shape": got}, "tags": dict(tags, dimension=True)}
    if not (obs["ann"] <= 1e-8 and obs["orth"] <= 1e-8):
        return {"expected": "annihilated and orthonormal (1e-8)", "observed": obs, "tags": dict(tags, residual=True)}
    return None


# ------------------------------------------------------------------------------------------------
# Generic defences for the helpers (they are functions: G2 input/output isolation, G3 no state between calls, G4 dtypes)
# ------------------------------------------------------------------------------------------------
PURE_FNS = ["diagonalize_form", "kernel", "orthogonal_complement", "sphere_through", "circle_through", "short_arc", "right_to_left",
            "arc_include", "circle_angles", "find_isometry", "indefinite_orthogonalize", "make_orientation_preserving"]


def _pure_args(rng, fn, variant=0):
    """random float arguments for a helper; every argument must come back unchanged (third component: indices exempt from that)"""
    g = lambda *sh: np.array([rng.gauss(0, 1) for _ in range(int(np.prod(sh)))]).reshape(sh)
    n = rng.randint(2, 5)
    b = rng.choice([(), (), (2,), (3,)])
    if fn == "diagonalize_form":
        B = np.array([fform(rng, n - q, q)[0] for q in [rng.randint(0, n) for _ in range(int(np.prod(b)) if b else 1)]]).reshape(b + (n, n))
        return [B], {"order_eigenvalues": rng.choice(["signed", "minkowski"]), "reverse": rng.random() < 0.5}, []
    if fn in ("kernel", "orthogonal_complement"):
        m = rng.randint(1, n)
        return [g(*(b + (m, n)))], ({} if fn == "kernel" else {"normalize": None}), []
    if fn == "sphere_through":
        return [2 * g(*(b + (n, n - 1)))], {}, []
    if fn == "circle_through":
        return [2 * g(*(b + (2,))) for _ in range(3)], {}, []
    if fn in ("short_arc", "right_to_left"):
        lim = 2 * PI if fn == "short_arc" else PI
        return [np.array([rng.uniform(-lim, lim) * 0.99 for _ in range(2 * (int(np.prod(b)) if b else 1))]).reshape(b + (2,))], {}, []
    if fn == "arc_include":
        k = int(np.prod(b)) if b else 1
        return [np.array([rng.uniform(-PI, PI) for _ in range(2 * k)]).reshape(b + (2,)),
                np.array([rng.uniform(-PI, PI) for _ in range(k)]).reshape(b)], {}, []
    if fn == "circle_angles":
        return [g(*(b + (2,))), 3 * g(*(b + (3, 2)))], {}, []
    if fn in ("find_isometry", "indefinite_orthogonalize"):
        q = rng.randint(0, n)
        while True:
            B, _ = fform(rng, n - q, q)
            k = rng.randint(1, n)
            rows = g(*(b + (k, n)))
            G = L.units(rows, 2) @ B @ L.units(rows, 2).swapaxes(-1, -2)
            mins = [[np.linalg.det(Gi[:j, :j]) for j in range(1, k + 1)] for Gi in G]
            if all(min(abs(x) for x in [m[0]] + [m[j] / m[j - 1] for j in range(1, k)]) > 0.05 for m in mins):
                break
        return [B, rows], ({"force_oriented": rng.random() < 0.5} if fn == "find_isometry" else {}), []
    if fn == "make_orientation_preserving":
        return [g(*(b + (n, n)))], {}, []
    raise ValueError(fn)


def _call(fn, args, kw):
    f = getattr(utils, fn)
    r = f(*args, **kw)
    return [np.array(x, dtype=float, copy=True) for x in (r if isinstance(r, tuple) else (r,))], r


def gen_purity(rng, n):
    for _ in range(n):
        yield {"fn": rng.choice(PURE_FNS), "other": rng.choice(PURE_FNS), "seed": rng.randint(0, 10 ** 9),
               "view": rng.random() < 0.4, "dtype": rng.choice(["float64", "float64", "float32", "int_valued"])}


def run_purity(inp):
    import random
    r = random.Random(inp["seed"])
    fn = inp["fn"]
    args, kw, consumed = _pure_args(r, fn)

    def prep(a):
        a = np.array(a, copy=True)
        if inp["view"] and a.ndim >= 1:          # non-contiguous view of a larger buffer
            big = np.zeros(a.shape[:-1] + (2 * a.shape[-1],), dtype=a.dtype)
            big[..., ::2] = a
            return big[..., ::2]
        return a
    a1 = [prep(a) for a in args]
    snap = [np.array(a, copy=True) for a in a1]
    ref, raw = _call(fn, a1, kw)
    changed = max([float(np.max(np.abs(a - b))) for i, (a, b) in enumerate(zip(a1, snap)) if i not in consumed and a.size] + [0.0])
    # (G3) the same helper on unrelated data of another shape, a different helper, then again on fresh copies of the first data
    oargs, okw, _ = _pure_args(r, fn)
    _call(fn, [np.array(a, copy=True) for a in oargs], okw)
    o2, o2kw, _ = _pure_args(r, inp["other"])
    _call(inp["other"], [np.array(a, copy=True) for a in o2], o2kw)
    # (G2) overwrite what the first call returned, then ask again
    for x in (raw if isinstance(raw, tuple) else (raw,)):
        if isinstance(x, np.ndarray) and x.size and x.flags.writeable:
            x[...] = 0
    again, _ = _call(fn, [prep(a) for a in snap], kw)          # same values, same memory layout
    same = all(x.shape == y.shape and (x.size == 0 or float(np.max(np.abs(x - y))) == 0.0) for x, y in zip(ref, again)) and len(ref) == len(again)
    out = {"changed": changed, "repeatable": bool(same)}
    # (G4) the same values in another dtype against the float64 reference
    if inp["dtype"] == "float32" and fn not in ("kernel", "orthogonal_complement", "find_isometry", "indefinite_orthogonalize", "diagonalize_form"):
        # (helpers returning a basis are excluded: the basis is not determined by the contract)
        a32 = [np.array(a, copy=True).astype(np.float32) for a in snap]
        r64, _ = _call(fn, [a.astype(np.float64) for a in a32], kw)
        r32, _ = _call(fn, a32, kw)
        out["dtype_dev"] = max([float(np.max(np.abs(x - y)) / (1 + np.max(np.abs(y)))) for x, y in zip(r32, r64) if x.size] + [0.0]) \
            if all(x.shape == y.shape for x, y in zip(r32, r64)) else float("inf")
    return out


def judge_purity(inp, obs, lr):
    tags = {"fn": inp["fn"], "view": inp["view"], "dtype": inp["dtype"], "other": inp["other"]}
    if "exc" in obs:
        return {"expected": "a result", "observed": obs, "tags": dict(tags, exc=obs["exc"])}
    if obs["changed"] > 0:
        return {"expected": "arguments not modified", "observed": obs, "tags": dict(tags, input_isolation=True)}
    if not obs["repeatable"]:
        return {"expected": "the same answer when asked again after unrelated calls and after the first result was overwritten", "observed": obs,
                "tags": dict(tags, state=True)}
    if obs.get("dtype_dev", 0) > 2e-3:
        return {"expected": "float32 input agrees with the float64 computation on the same values (2e-3)", "observed": obs, "tags": dict(tags, dtype_order=True)}
    return None


# ------------------------------------------------------------------------------------------------
# Integer packagings: every helper fed integer-valued data as integer arrays / nested lists of Python ints, wherever the
# library accepts them, must return what it returns for the float64 array of the same values (never a silently different answer)
# ------------------------------------------------------------------------------------------------
INT_FNS = ["diagonalize_form", "kernel", "orthogonal_complement", "orthogonal_complement_form", "sphere_through", "circle_through",
           "short_arc", "right_to_left", "arc_include", "circle_angles", "indefinite_orthogonalize", "find_isometry",
           "make_orientation_preserving"]
# combinations that must work (measured on the repaired tree); elsewhere raising is accepted, a different answer is not
INT_ACCEPTED = {(f, p_) for f in INT_FNS for p_ in ("int64", "int32") if f != "short_arc"} | \
    {("circle_through", "list_int"), ("circle_angles", "list_int")}


def int_form(rng, n):
    while True:
        A = np.array([[rng.randint(-3, 3) for _ in range(n)] for _ in range(n)])
        B = A + A.T
        ev = np.linalg.eigvalsh(B.astype(float))
        gaps = np.diff(np.sort(ev))
        if np.min(np.abs(ev)) > 0.3 and (n == 1 or np.min(gaps) > 0.1):
            return B


def gen_intpack(rng, n):
    made = 0
    while made < n:
        fn = rng.choice(INT_FNS)
        pack = rng.choice(["int64", "int64", "int32", "list_int"])
        nn = rng.randint(2, 4)
        b = rng.choice([[], [], [2]])
        cntb = cnt(b)
        ri = lambda lo, hi, *sh: np.array([rng.randint(lo, hi) for _ in range(int(np.prod(sh)))]).reshape(sh)
        kw = {}
        if fn == "diagonalize_form":
            args = [np.array([int_form(rng, nn) for _ in range(cntb)]).reshape(tuple(b) + (nn, nn))]
            kw = {"order_eigenvalues": rng.choice(["signed", "minkowski"]), "reverse": rng.random() < 0.5}
        elif fn in ("kernel", "orthogonal_complement", "orthogonal_complement_form"):
            m = rng.randint(1, nn)
            A = ri(-3, 3, *(b + [m, nn]))
            if any(np.linalg.matrix_rank(x.astype(float)) < m for x in L.units(A, 2)):
                continue
            args = [A]
            if fn == "orthogonal_complement":
                kw = {"normalize": None}
            if fn == "orthogonal_complement_form":
                G = ri(-2, 2, nn, nn)
                args.append(G @ G.T + np.eye(nn, dtype=int))       # positive definite integer form
                kw = {"normalize": rng.choice([None, "form"])}
        elif fn == "sphere_through":
            P = ri(-4, 4, *(b + [nn, nn - 1]))
            if any(abs(np.linalg.det((x[1:] - x[0]).astype(float))) < 0.5 for x in L.units(P, 2)):
                continue
            args = [P]
        elif fn == "circle_through":
            P = ri(-4, 4, *(b + [3, 2]))
            if any(abs(np.linalg.det((x[1:] - x[0]).astype(float))) < 0.5 for x in L.units(P, 2)):
                continue
            args = [P[..., 0, :], P[..., 1, :], P[..., 2, :]]
        elif fn in ("short_arc", "right_to_left", "arc_include"):
            lim = 6 if fn == "short_arc" else 3
            T = ri(-lim, lim, *(b + [2]))
            ref = ri(-3, 3, *b) if b else np.array(rng.randint(-3, 3))
            if fn == "short_arc" and any(abs(abs((x[0] + (6.283185307179586 if x[0] < 0 else 0)) - (x[1] + (6.283185307179586 if x[1] < 0 else 0))) - PI) < 1e-6
                                         for x in L.units(T, 1)):
                continue
            if fn == "right_to_left" and any(abs(math.cos(x[0]) - math.cos(x[1])) < 1e-9 for x in L.units(T, 1)):
                continue
            args = [T] + ([ref] if fn == "arc_include" else [])
        elif fn == "circle_angles":
            c = ri(-3, 3, *(b + [2]))
            P = ri(-5, 5, *(b + [3, 2]))
            if np.any(np.all(P == c[..., None, :], axis=-1)):
                continue
            args = [c, P]
        elif fn in ("indefinite_orthogonalize", "find_isometry"):
            B = int_form(rng, nn)
            k = rng.randint(1, nn)
            rows = ri(-3, 3, *(b + [k, nn]))
            ok = True
            for x in L.units(rows, 2):
                g = L.gs_exact([[F(int(v)) for v in r] for r in B], [[F(int(v)) for v in r] for r in x])
                if not g or any(abs(q) < F(1, 8) for q in g[1]):
                    ok = False
            if not ok:
                continue
            args = [B, rows]
            if fn == "find_isometry":
                kw = {"force_oriented": rng.random() < 0.5}
        else:
            M = ri(-3, 3, *(b + [nn, nn]))
            if any(abs(np.linalg.det(x.astype(float))) < 0.5 for x in L.units(M, 2)):
                continue
            args = [M]
        made += 1
        yield {"fn": fn, "pack": pack, "args": [a.tolist() for a in args], "kw": kw}


def run_intpack(inp):
    fn = inp["fn"]
    f = getattr(utils, "orthogonal_complement" if fn == "orthogonal_complement_form" else fn)
    ref = f(*[np.array(a, dtype=np.float64) for a in inp["args"]], **inp["kw"])
    ref = [np.asarray(x, dtype=float) for x in (ref if isinstance(ref, tuple) else (ref,))]
    if inp["pack"] == "list_int":
        packed = [a for a in inp["args"]]            # nested lists of Python ints (a scalar stays a Python int)
    else:
        packed = [np.array(a, dtype=inp["pack"]) for a in inp["args"]]
    snap = [np.array(a, copy=True) for a in packed]
    try:
        out = f(*packed, **inp["kw"])
    except Exception as e:
        return {"raised": type(e).__name__, "msg": str(e)[:120]}
    out = [np.asarray(x, dtype=float) for x in (out if isinstance(out, tuple) else (out,))]
    same_shape = len(out) == len(ref) and all(x.shape == y.shape for x, y in zip(out, ref))

    def canon(res):
        """what the contract determines about a result (bases only up to what it leaves free)"""
        A = [np.array(a, dtype=float) for a in inp["args"]]
        if fn in ("kernel", "orthogonal_complement", "orthogonal_complement_form"):
            N = L.units(res[0], 2)                       # rows: projector onto their span
            return [np.array([(lambda q: q @ q.T)(np.linalg.qr(x.T)[0]) if x.size else np.zeros((x.shape[-1], x.shape[-1])) for x in N])]
        if fn == "diagonalize_form":
            W = L.units(res[0], 2)
            Bs = L.units(A[0], 2)
            G = W.swapaxes(-1, -2) @ Bs @ W
            extra = [L.units(res[0], 2) @ L.units(res[1], 2)] if len(res) > 1 else []
            return [G] + extra
        if fn in ("indefinite_orthogonalize", "find_isometry"):
            M = L.units(res[0], 2)
            k = np.array(inp["args"][1]).shape[-2]
            head = M[:, :k, :] * np.sign(np.take_along_axis(M[:, :k, :], np.argmax(np.abs(M[:, :k, :]), axis=-1)[..., None], axis=-1))
            return [head, M @ A[0] @ M.swapaxes(-1, -2)]  # prescribed rows up to sign, Gram matrix of all rows
        return res
    if same_shape:
        co, cr = canon(out), canon(ref)
        dev = max([float(np.max(np.abs(x - y)) / (1 + np.max(np.abs(y)))) for x, y in zip(co, cr) if x.size] + [0.0])
    else:
        dev = float("inf")
    changed = max([float(np.max(np.abs(np.asarray(a, dtype=float) - np.asarray(b_, dtype=float)))) for a, b_ in zip(packed, snap) if np.size(a)] + [0.0])
    # (soak false alarm, seed stream anchor-2: an integer form with a null coordinate vector in the complement of the prescribed
    #  rows makes Gram-Schmidt divide by zero for the float64 array as well.)  The comparison is *with the float64 answer*:
    #  where that answer is itself not finite (an input outside the helper's contract) nothing is claimed beyond agreement
    #  on which entries are finite.
    ref_finite = bool(all(finite(x) for x in ref))
    if not ref_finite and same_shape:
        agree = all(np.array_equal(np.isfinite(x), np.isfinite(y)) for x, y in zip(out, ref))
        return {"dev": 0.0 if agree else float("inf"), "changed": changed, "finite": True, "reference_not_finite": True}
    return {"dev": dev, "changed": changed, "finite": bool(all(finite(x) for x in out))}


def judge_intpack(inp, obs, lr):
    tags = {"fn": inp["fn"], "packaging": inp["pack"], "int_packaging": True}
    if "exc" in obs:
        return {"expected": "the float64 reference computation succeeds", "observed": obs, "tags": dict(tags, reference=True)}
    if "raised" in obs:
        if (inp["fn"], inp["pack"]) in INT_ACCEPTED:
            return {"expected": "integer data accepted here (same answer as for the float64 array of the same values)", "observed": obs,
                    "tags": dict(tags, exc=obs["raised"])}
        return None          # refusing loudly is acceptable where the library never took this packaging
    if not (obs["dev"] <= 1e-8 and obs["finite"]):
        return {"expected": "the same answer as for the float64 array of the same values (bases compared up to the freedom the contract leaves)",
                "observed": obs, "tags": dict(tags, truncated=True)}
    if obs["changed"] > 0:
        return {"expected": "arguments not modified", "observed": obs, "tags": dict(tags, input_isolation=True)}
    return None


# ------------------------------------------------------------------------------------------------
# G12 magnitudes / G13 entry points / G15 refusals for the helpers
# ------------------------------------------------------------------------------------------------
def exact_sphere(P):
    """exact centre and squared radius (Fractions) of the sphere through the float points P (rows)"""
    P = [[F(float(x)) for x in r] for r in P]
    d = len(P) - 1
    T = [[P[i + 1][k] - P[0][k] for k in range(d)] for i in range(d)]
    rhs = [sum(x * x for x in T[i]) / 2 for i in range(d)]
    Ti = L.inv(T)
    c = [sum(Ti[i][j] * rhs[j] for j in range(d)) for i in range(d)]
    return [c[i] + P[0][i] for i in range(d)], sum(x * x for x in c)


def gen_magn(rng, n):
    made = 0
    while made < n:
        fn = rng.choice(["gs", "gs", "find", "sphere", "sphere", "circle", "circle", "diag"])
        if fn in ("gs", "find"):
            p, q = rng.choice(SIGS)
            nn = p + q
            B, _ = fform(rng, p, q)
            k = rng.randint(1, nn)
            rows = np.array([[rng.gauss(0, 1) for _ in range(nn)] for _ in range(k)])
            G = rows @ B @ rows.T
            mins = [np.linalg.det(G[:j, :j]) for j in range(1, k + 1)]
            if min(abs(x) for x in [mins[0]] + [mins[j] / mins[j - 1] for j in range(1, k)]) < 0.05 or np.linalg.cond(rows) > 1e3:
                continue
            # each row is a vector of arbitrary size; the form may be rescaled as a whole
            rs = [10.0 ** rng.randint(-9, 9) if rng.random() < 0.7 else 1.0 for _ in range(k)]
            fs = 10.0 ** rng.randint(-6, 6) if rng.random() < 0.5 else 1.0
            made += 1
            yield {"fn": fn, "sig": [p, q], "B": (B * fs).tolist(), "rows": (rows * np.array(rs)[:, None]).tolist(), "rowscale": rs, "formscale": fs,
                   "force_oriented": rng.random() < 0.5}
        elif fn in ("sphere", "circle"):
            d = 2 if fn == "circle" else rng.choice([1, 2, 3, 4])
            T = np.array([[rng.gauss(0, 1) for _ in range(d)] for _ in range(d + 1)]) * rng.choice([1.0, 1.0, 10.0, 1e-3])
            if np.linalg.cond(T[1:] - T[0]) > 50:
                continue
            far = 10.0 ** rng.randint(0, 8) if rng.random() < 0.8 else 0.0
            u = np.array([rng.gauss(0, 1) for _ in range(d)])
            P = T + far * u / np.linalg.norm(u)
            made += 1
            yield {"fn": fn, "d": d, "pts": P.tolist(), "far": far, "stack": rng.random() < 0.3}
        else:
            nn = rng.randint(1, 5)
            q = rng.randint(0, nn)
            B, dvals = fform(rng, nn - q, q)
            fs = 10.0 ** rng.randint(-6, 6)
            made += 1
            yield {"fn": fn, "B": (B * fs).tolist(), "formscale": fs, "signs": [1 if x > 0 else -1 for x in dvals],
                   "mode": rng.choice(["signed", "minkowski"]), "reverse": rng.random() < 0.5}


def run_magn(inp):
    fn = inp["fn"]
    if fn in ("gs", "find"):
        B = np.array(inp["B"])
        rows = np.array(inp["rows"])
        if fn == "gs":
            U = utils.indefinite_orthogonalize(B, rows.copy())
        else:
            U = utils.find_isometry(B, rows.copy(), inp["force_oriented"])
        Ul, Bl = U.astype(np.longdouble), B.astype(np.longdouble)
        G = np.asarray(Ul @ Bl @ Ul.T, dtype=float)
        k = rows.shape[0]
        flag = max([max(span_dist(U[:j], rows[:j]), span_dist(rows[:j], U[:j])) for j in range(1, k + 1)])
        # (G13) find_isometry and indefinite_orthogonalize agree on the prescribed rows
        V = utils.indefinite_orthogonalize(B, rows.copy())
        twin = float(max(min(np.max(np.abs(U[i] - V[i])), np.max(np.abs(U[i] + V[i]))) / (1 + np.max(np.abs(V[i]))) for i in range(k)))
        return {"off": float(np.max(np.abs(G - np.diag(np.diag(G))))), "diag": float(np.max(np.abs(np.abs(np.diag(G)) - 1))), "flag": flag, "twin": twin,
                "det": float(np.linalg.det(U * (abs(inp["formscale"]) ** 0.5))) if fn == "find" else None, "shape": list(U.shape)}
    if fn in ("sphere", "circle"):
        P = np.array(inp["pts"])
        Pin = np.stack([P, P[::-1]]) if inp["stack"] else P
        cs, rs_ = utils.sphere_through(Pin.copy())
        out = {}
        if fn == "circle":
            cc, rc = utils.circle_through(Pin[..., 0, :].copy(), Pin[..., 1, :].copy(), Pin[..., 2, :].copy())
            out["twin"] = float(max(np.max(np.abs(np.asarray(cc) - np.asarray(cs))), np.max(np.abs(np.asarray(rc) - np.asarray(rs_)))))
            c, r = (np.asarray(cc)[0], float(np.asarray(rc)[0])) if inp["stack"] else (np.asarray(cc), float(rc))
        else:
            c, r = (np.asarray(cs)[0], float(np.asarray(rs_)[0])) if inp["stack"] else (np.asarray(cs), float(rs_))
        ce, r2 = exact_sphere(P)
        out.update(cdev=float(max(abs(F(float(x)) - y) for x, y in zip(c, ce))), rdev=abs(r - math.sqrt(float(r2))), r=math.sqrt(float(r2)),
                   scale=float(np.max(np.abs(P))), cond=float(np.linalg.cond(P[1:] - P[0])))
        return out
    B = np.array(inp["B"])
    W, Wi = utils.diagonalize_form(B.copy(), order_eigenvalues=inp["mode"], reverse=inp["reverse"])
    Wl = W.astype(np.longdouble)
    G = np.asarray(Wl.T @ B.astype(np.longdouble) @ Wl, dtype=float)
    return {"off": float(np.max(np.abs(G - np.diag(np.diag(G))))), "diag": float(np.max(np.abs(np.abs(np.diag(G)) - 1))),
            "signs": np.sign(np.diag(G)).astype(int).tolist(), "inv": float(np.max(np.abs(W @ Wi - np.eye(len(B)))))}


def judge_magn(inp, obs, lr):
    fn = inp["fn"]
    tags = {"fn": fn, "magnitude": True}
    if "exc" in obs:
        return {"expected": "a result (valid input of unusual size)", "observed": obs, "tags": dict(tags, exc=obs["exc"])}
    if fn in ("gs", "find"):
        tags.update(rowscale=[int(round(math.log10(x))) for x in inp["rowscale"]], formscale=int(round(math.log10(inp["formscale"]))))
        if not (obs["off"] <= 1e-7 and obs["diag"] <= 1e-7):
            return {"expected": "rows of any size come back mutually orthogonal with square-norm ±1", "observed": obs, "tags": dict(tags, residual=True)}
        if not obs["flag"] <= 1e-6:
            return {"expected": "same flag of spans", "observed": obs["flag"], "tags": dict(tags, flag=True)}
        if not obs["twin"] <= 1e-9:
            return {"expected": "find_isometry and indefinite_orthogonalize agree on the prescribed rows (up to sign)", "observed": obs["twin"],
                    "tags": dict(tags, entry_points=True)}
        if fn == "find" and inp["force_oriented"] and not obs["det"] > 0:
            return {"expected": "positive determinant on request", "observed": obs["det"], "tags": dict(tags, orientation=True)}
        return None
    if fn in ("sphere", "circle"):
        tags.update(far=inp["far"])
        # clean-tree accuracy: the points are translated to the first one before solving, so the error is that of representing the
        # coordinates (eps·|p|) amplified by the conditioning of the translated system
        tol = 1e-13 * obs["scale"] * max(1.0, obs["cond"]) * (1 + obs["r"]) + 1e-9 * (1 + obs["r"])
        if not (obs["cdev"] <= tol and obs["rdev"] <= tol):
            return {"expected": f"centre and radius of the exact circumsphere (tolerance {tol:.2e})", "observed": obs, "tags": dict(tags, residual=True)}
        if obs.get("twin", 0) > 2 * tol:
            return {"expected": "circle_through agrees with sphere_through on the same points", "observed": obs, "tags": dict(tags, entry_points=True)}
        return None
    tags.update(formscale=int(round(math.log10(inp["formscale"]))), mode=inp["mode"], reverse=inp["reverse"])
    if not (obs["off"] <= 1e-8 and obs["diag"] <= 1e-8 and obs["inv"] <= 1e-8):
        return {"expected": "WᵀBW = diag(±1), W·Winv = 1 for a form of any overall size", "observed": obs, "tags": dict(tags, residual=True)}
    if obs["signs"] != expected_signs(inp["signs"], inp["mode"], inp["reverse"]):
        return {"expected": expected_signs(inp["signs"], inp["mode"], inp["reverse"]), "observed": obs["signs"], "tags": dict(tags, order=True)}
    return None


def gen_refuse(rng, n):
    for _ in range(n):
        kind = rng.choice(["sphere_count", "kernel_mismatch", "kernel_mismatch2", "kernel_match2", "svd_flags", "kernel_twin"])
        yield {"kind": kind, "seed": rng.randint(0, 10 ** 9)}


def run_refuse(inp):
    r = np.random.default_rng(inp["seed"])
    kind = inp["kind"]

    def attempt(f):
        try:
            return {"returned": True, "value": f()}
        except Exception as e:
            return {"returned": False, "exc": type(e).__name__}
    if kind == "sphere_count":
        d = int(r.integers(1, 5))
        k = int(r.choice([x for x in range(1, d + 4) if x != d + 1]))
        return attempt(lambda: [np.asarray(x).shape for x in utils.sphere_through(r.normal(size=(k, d)))])

    def ranked(rk, m, nn):
        A = np.zeros((m, nn))
        for i in range(rk):
            A[i, i] = r.uniform(0.5, 2)
        q1, _ = np.linalg.qr(r.normal(size=(m, m)))
        q2, _ = np.linalg.qr(r.normal(size=(nn, nn)))
        return q1 @ A @ q2
    m, nn = 2, 3
    if kind in ("kernel_mismatch", "kernel_mismatch2", "kernel_match2"):
        if kind == "kernel_mismatch":
            ranks = np.array([2, 1, 2])
        elif kind == "kernel_mismatch2":
            ranks = np.array([[2, 1], [2, 1]]) if r.random() < 0.5 else np.array([[2, 2], [1, 2]])     # the first row/column alone looks uniform
        else:
            ranks = np.array([[1, 1], [1, 1]]) * int(r.integers(0, 3))
        A = np.array([ranked(int(k), m, nn) for k in ranks.reshape(-1)]).reshape(ranks.shape + (m, nn))
        res = attempt(lambda: list(utils.kernel(A).shape))
        res["want_shape"] = list(ranks.shape) + [nn, nn - int(ranks.flat[0])]
        return res
    if kind == "svd_flags":
        return attempt(lambda: numerical.svd_kernel(ranked(1, m, nn), assume_full_rank=True, matching_rank=False))
    # (G13) utils.kernel is numerical.svd_kernel
    A = np.array([ranked(int(r.integers(0, 3)), m, nn)])
    K1, K2 = np.asarray(utils.kernel(A.copy())), np.asarray(numerical.svd_kernel(A.copy()))
    ok = K1.shape == K2.shape and (K1.size == 0 or (span_dist(K1[0].T, K2[0].T) <= 1e-8 and span_dist(K2[0].T, K1[0].T) <= 1e-8))
    return {"returned": True, "value": bool(ok)}


def judge_refuse(inp, obs, lr):
    kind = inp["kind"]
    tags = {"kind": kind, "refusal": True}
    if "exc" in obs and "returned" not in obs:
        return {"expected": "the harness step to run", "observed": obs, "tags": dict(tags, exc=obs["exc"])}
    must_raise = {"sphere_count": "GeometryError", "kernel_mismatch": "ValueError", "kernel_mismatch2": "ValueError", "svd_flags": "ValueError"}
    if kind in must_raise:
        if obs["returned"] or obs["exc"] != must_raise[kind]:
            return {"expected": f"{must_raise[kind]} (documented refusal)", "observed": {k: str(v)[:100] for k, v in obs.items()}, "tags": tags}
        return None
    if not obs["returned"]:
        return {"expected": "valid input accepted", "observed": obs, "tags": dict(tags, spurious_refusal=True)}
    if kind == "kernel_match2" and obs["value"] != obs["want_shape"]:
        return {"expected": obs["want_shape"], "observed": obs["value"], "tags": dict(tags, dimension=True)}
    if kind == "kernel_twin" and not obs["value"]:
        return {"expected": "utils.kernel and numerical.svd_kernel return bases of the same space", "observed": obs, "tags": dict(tags, entry_points=True)}
    return None


CLAUSES = [
    Clause("gs_corr", "corr", gen_gs, run_gs, judge_gs, lean=lean_gs, site="utils.indefinite_orthogonalize",
           budget={"quick": 160, "thorough": 4000},
           what="indefinite_orthogonalize(QᵀDQ, rational rows) by value vs the Lean Gram–Schmidt over ℚ (unnormalised rows and square-norms exact, normalised in float); signatures p+q ≤ 6, batch shapes, 1-d input"),
    Clause("find_isometry_corr", "corr", gen_fi, run_fi, judge_fi, lean=lean_fi, site="utils.find_isometry",
           budget={"quick": 110, "thorough": 3000},
           what="find_isometry with the kernel basis captured from the implementation: Lean runs gs(partial) ++ gs(ker) exactly on it (by value), evaluates the kernel contract and M F Mᵀ − diag(±1) exactly; force_oriented"),
    Clause("diag_corr", "corr", gen_diag, run_diag, judge_diag, lean=lean_diag, site="utils.diagonalize_form",
           budget={"quick": 180, "thorough": 4000},
           what="eigh output captured: Lean evaluates the eigh contract and WᵀBW, W·Winv exactly; the model's order (stable argsort) reproduces W, Winv by value; signs in the requested order; batches with mixed signatures; reverse; with_inverse"),
    Clause("diag_exact_corr", "corr", gen_diag_exact, run_diag_exact, judge_diag_exact, lean=lean_diag_exact, site="utils.diagonalize_form",
           budget={"quick": 120, "thorough": 2000},
           what="diagonalizeForm executed over ℚ on the exact eigen-decomposition of QᵀDQ (distinct eigenvalues, |D| rational squares) vs W, Winv up to the sign of each eigenvector"),
    Clause("kernel_corr", "corr", gen_kernel, run_kernel, judge_kernel, lean=lean_kernel, site="utils.kernel / numerical.svd_kernel / orthogonal_complement",
           budget={"quick": 180, "thorough": 4000},
           what="svd captured: model's row selection equals the returned basis exactly; svd contract, A·N, NᵀN−1 exactly; every rank 0..min(m,n) incl. trivial kernel; batches"),
    Clause("sphere_corr", "corr", gen_sphere, run_sphere, judge_sphere, lean=lean_sphere, site="utils.sphere_through / circle_through",
           budget={"quick": 200, "thorough": 3000},
           what="rational points in general position, d = 1..5, batches: centre and radius vs exact ℚ model"),
    Clause("arcs_corr", "corr", gen_arcs, run_arcs, judge_arcs, lean=lean_arcs, site="utils.short_arc / right_to_left / arc_include",
           budget={"quick": 300, "thorough": 5000},
           what="angle pairs on the stated ranges incl. unit shape and batches vs the Lean model over ℚ (π = the double np.pi)"),
    Clause("circle_angles_corr", "corr", gen_cang, run_cang, judge_cang, lean=lean_cang, site="utils.circle_angles",
           budget={"quick": 80, "thorough": 2000},
           what="rational centres and points at rational distance (incl. the four axis directions), batches: (cos θ, sin θ) of the returned angle vs the exact unit vector of the Lean model; θ ∈ [−π, π]"),
    Clause("gs_oracle", "oracle", gen_gso, run_gso, judge_gso, site="utils.indefinite_orthogonalize / find_isometry",
           budget={"quick": 500, "thorough": 8000},
           what="float forms of every signature p+q ≤ 6, well-conditioned rows, batches: orthogonality, norms ±1, flag of spans, signature, det > 0 on request"),
    Clause("diag_oracle", "oracle", gen_diago, run_diago, judge_diago, site="utils.diagonalize_form",
           budget={"quick": 500, "thorough": 8000},
           what="float symmetric forms with |eigenvalues| in [0.3,3]: WᵀBW = diag(±1) in the requested order, W·Winv = 1; batches with mixed signatures; reverse"),
    Clause("kernel_oracle", "oracle", gen_kero, run_kero, judge_kero, site="utils.kernel / orthogonal_complement",
           budget={"quick": 500, "thorough": 8000},
           what="float matrices of prescribed rank: annihilated, orthonormal, n − rank columns; orthogonal_complement with and without normalisation"),
    Clause("svd_options_oracle", "oracle", gen_svdopt, run_svdopt, judge_svdopt, site="numerical.svd_kernel",
           budget={"quick": 200, "thorough": 5000},
           what="svd_kernel(assume_full_rank=True) and svd_kernel(matching_rank=False, with_dimensions, with_loc) on batches of mixed rank incl. trivial kernels: per-rank bases annihilated, orthonormal, n − rank columns"),
    Clause("magnitude_oracle", "oracle", gen_magn, run_magn, judge_magn, site="utils helpers (magnitudes, twin entry points)",
           budget={"quick": 400, "thorough": 10000},
           what="G12/G13: rows scaled by 10^k (k = −9..9) and forms by 10^k (k = −6..6) through indefinite_orthogonalize / find_isometry / diagonalize_form (Gram in long double); well-shaped simplices centred up to 1e8 from the origin through sphere_through / circle_through against the exact (Fraction) circumsphere; circle_through = sphere_through; find_isometry = indefinite_orthogonalize on the prescribed rows. Not scaled: the matrix given to kernel (its 1e-8 singular-value tolerance is documented as absolute)"),
    Clause("refusal_oracle", "oracle", gen_refuse, run_refuse, judge_refuse, site="utils helpers (documented refusals, twins)",
           budget={"quick": 120, "thorough": 2000},
           what="G15/G13: sphere_through with the wrong number of points raises GeometryError; kernel of a batch of mixed rank (one or two batch axes, incl. batches whose first row looks uniform) raises ValueError, uniform batches are accepted with the right shape; contradictory svd_kernel flags raise ValueError; utils.kernel = numerical.svd_kernel"),
    Clause("int_packaging_oracle", "oracle", gen_intpack, run_intpack, judge_intpack, site="utils helpers (integer arrays / nested lists of ints)",
           budget={"quick": 400, "thorough": 10000},
           what="every helper on integer-valued data given as int64 / int32 arrays and nested lists of Python ints: where the library accepts the packaging the answer equals the float64 answer (a refusal is tolerated only where it never accepted it; a silently different answer never)"),
    Clause("purity_oracle", "oracle", gen_purity, run_purity, judge_purity, site="utils helpers (isolation / statelessness / dtype)",
           budget={"quick": 300, "thorough": 8000},
           what="G2–G4 for every helper: arguments (incl. non-contiguous views) come back unchanged, the answer is bit-identical when asked again after the same and other helpers ran on unrelated data and after the first result was overwritten in place, float32 inputs agree with float64"),
    Clause("sphere_oracle", "oracle", gen_spho, run_spho, judge_spho, site="utils.sphere_through / circle_through",
           budget={"quick": 400, "thorough": 6000},
           what="float points in general position: every point at distance radius from the centre"),
    Clause("arcs_oracle", "oracle", gen_arcs, run_arcs, judge_arco, site="utils.short_arc / right_to_left / arc_include",
           budget={"quick": 600, "thorough": 10000},
           what="output is the input pair modulo 2π and the counter-clockwise arc is short / right-to-left / contains the reference"),
    # appended last so that the clauses above draw the same inputs from the one PRNG as before
    Clause("ortho_corr", "corr", gen_ortho, run_ortho, judge_ortho, lean=lean_ortho, site="utils.indefinite_orthogonalize (with normalize)",
           budget={"quick": 60, "thorough": 1500},
           what="indefinite_orthogonalize incl. the final normalize vs Lean GS.indefiniteOrthogonalize with exact roots (c18.ortho), rows up to sign; inputs whose Gram–Schmidt square-norms are ± rational squares"),
    Clause("orient_corr", "corr", gen_orient, run_orient, judge_orient, lean=lean_orient, site="utils.make_orientation_preserving",
           budget={"quick": 60, "thorough": 1500},
           what="make_orientation_preserving vs Lean GS.makeOriented (exact determinant, rowsMatrix / negLastRow) by value on invertible rational matrices, sizes 1-5, batch shapes"),
]
