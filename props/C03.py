"""C03 — applying transformations is a left group action on every kind of object (DESIGN §4 C03)."""
import itertools, math
from fractions import Fraction as F
import numpy as np
from vlib.runner import Clause
from vlib import q as Q
from props import _nd as N
from props import _objs as O
from geometry_tools import utils, hyperbolic as H, projective as P

LEVEL = "proof"
EXPLANATION = (
    "Lean (unit level, any field): (A@B)@X = A@(B@X) with the library's convention (A@B).matrix = B.matrix·A.matrix, identity, "
    "A.inv()@(A@X) = X for det A != 0, on rows / rank-2 units / every matrix of a rank-3 auxiliary unit; recomputed derived data = "
    "transformed derived data (polygon edges for any A; segment ideal endpoints and tangent projection for form-preserving A); "
    "rep[word] @ point = (word's matrix)·(column), rep[u]@rep[v] = rep[uv].  Composite level for every rank through C04's matrixProduct "
    "theorems (kind and composite shape preserved, unit law at every index).  Correspondence: Transformation.apply on all 11 kinds x 3 "
    "modes against the Lean object model (exact rationals), rep[word]@point against the Lean column action.  Oracle: the group laws, "
    "type/shape preservation and derived-data coherence on the real code for 11 kinds, real and complex, composite shapes.")
ASSUMPTIONS = [
    "utils.invert (numpy.linalg.inv) is a contract: the oracle checks A.inv() against the law, the model takes the exact inverse",
    "float comparisons are projective with 1e-7 relative tolerance on transformations of condition number <= ~20 / isometries of translation length <= ~1.4",
]


# ------------------------------------------------------------------ corr: Transformation.apply vs Obj.apply
def gen_apply(rng, n):
    for c in range(n):
        mode = ["elementwise", "pairwise", "pairwise_reversed"][c % 3]
        kind = O.KINDS[(c // 3) % len(O.KINDS)]
        xs = rng.choice(O.SHAPES[:9])
        if mode == "elementwise":
            ts = N.bcast_partner(rng, xs) if rng.random() < 0.7 else []
        else:
            ts = rng.choice(O.SHAPES[:7])
        yield {"kind": kind, "mode": mode, "xshape": xs, "tshape": ts, "n": rng.choice([2, 3]), "seed": rng.randrange(10 ** 9)}


def _apply_objs(inp):
    g = O.G(inp["seed"])
    X = O.mk(inp["kind"], g, inp["xshape"], inp["n"])
    A = np.round(g.normal(size=tuple(inp["tshape"]) + (inp["n"] + 1, inp["n"] + 1)) * 4) / 4      # small dyadic entries, any matrix
    return X, P.Transformation(A)


def run_apply(inp):
    X, T = _apply_objs(inp)
    R = T.apply(X, broadcast=inp["mode"])
    return {"proj": R.proj_data.tolist(), "aux": None if R.aux_data is None else R.aux_data.tolist(), "shape": list(R.shape),
            "type_ok": type(R) is type(X)}


def lean_apply(inp, obs):
    X, T = _apply_objs(inp)
    d = {"op": "c03.apply", "kind": inp["kind"], "proj": N.enc(X.proj_data), "A": N.enc(T.proj_data), "mode": inp["mode"]}
    if X.aux_data is not None:
        d["aux"] = N.enc(X.aux_data)
    return [d]


def judge_apply(inp, obs, lr):
    res = lr[0]
    if "exc" in obs:
        if "err" in res:
            return None
        return {"expected": {"model": "ok"}, "observed": obs, "tags": {"kind": inp["kind"], "mode": inp["mode"], "impl_raises": obs["exc"]}}
    if "err" in res:
        return {"expected": res, "observed": {"shape": obs["shape"]}, "tags": {"kind": inp["kind"], "mode": inp["mode"], "model_err": res["err"][:40]}}
    m = res["ok"]
    if not obs["type_ok"]:
        return {"expected": "type preserved", "observed": "different type", "tags": {"kind": inp["kind"], "type": True}, "property_failure": True}
    if m["shape"] != obs["shape"]:
        return {"expected": {"shape": m["shape"]}, "observed": {"shape": obs["shape"]}, "tags": {"kind": inp["kind"], "mode": inp["mode"], "shape": True}}
    mp = N.dec(m["proj"])
    ip = np.array(obs["proj"])
    if mp.shape != ip.shape or not O.data_proj_eq(inp["kind"], ip, mp, 1e-9):
        return {"expected": {"proj_shape": list(mp.shape)}, "observed": {"proj_shape": list(ip.shape)}, "tags": {"kind": inp["kind"], "mode": inp["mode"], "block": "proj"}}
    if (m["aux"] is None) != (obs["aux"] is None):
        return {"expected": {"aux": m["aux"] is not None}, "observed": {"aux": obs["aux"] is not None}, "tags": {"kind": inp["kind"], "block": "aux-presence"}}
    if m["aux"] is not None:
        ma = N.dec(m["aux"])
        ia = np.array(obs["aux"])
        if ma.shape != ia.shape or not O.aux_proj_eq(inp["kind"], ia, ma, 1e-9):
            return {"expected": {"aux_shape": list(ma.shape)}, "observed": {"aux_shape": list(ia.shape)}, "tags": {"kind": inp["kind"], "mode": inp["mode"], "block": "aux"}}
    return None


# ------------------------------------------------------------------ corr: rep[word] @ point vs column action
def _gens(inp):
    return {k: np.array([[float(F(x)) for x in r] for r in m]) for k, m in inp["gens"].items()}


def _unimodular(rng, d):
    """unimodular integer matrix: a product of elementary matrices (exact inverse)"""
    M = [[F(int(i == j)) for j in range(d)] for i in range(d)]
    for _ in range(rng.randint(1, 4)):
        i, j = rng.sample(range(d), 2)
        t = rng.choice([-2, -1, 1, 2])
        for k in range(d):
            M[i][k] += t * M[j][k]
    return [[Q.qs(x) for x in r] for r in M]


def gen_word(rng, n):
    for c in range(n):
        d = rng.choice([2, 3, 3, 4])
        names = ["a", "b", "c"][:rng.randint(1, 3)]
        gens = {}
        for nm in names:
            gens[nm] = _unimodular(rng, d)
        alphabet = names + [x.upper() for x in names]
        word = "".join(rng.choice(alphabet) for _ in range(rng.randint(0, 8)))
        inp = {"d": d, "gens": gens, "word": word, "p": [rng.randint(-3, 3) for _ in range(d)], "hyp": c % 2 == 1}
        if c % 4 >= 2:
            # the names of a representation are semigroup generators: an upper-case name assigned on its own (compute_inverse=False) to a matrix
            # that is NOT the inverse of the lower-case one, and a word in which the two become adjacent
            for nm in names:
                if nm == names[0] or rng.random() < 0.5:
                    gens[nm.upper()] = _unimodular(rng, d)
            k = rng.randint(0, len(word))
            a = names[0]
            inp["word"] = word[:k] + rng.choice([a + a.upper(), a.upper() + a, a + a.upper() + a]) + word[k:]
        yield inp


def run_word(inp):
    cls = H.HyperbolicRepresentation if inp["hyp"] else P.ProjectiveRepresentation
    rep = cls()
    for k, M in _gens(inp).items():
        # the user hands over a Transformation acting on columns by M
        if k.islower():
            rep[k] = (H.Isometry if inp["hyp"] else P.Transformation)(M, column_vectors=True)
    for k, M in _gens(inp).items():
        if k.isupper():          # an upper-case name of its own, assigned after (and instead of) the computed inverse
            rep.set_generator(k, (H.Isometry if inp["hyp"] else P.Transformation)(M, column_vectors=True), compute_inverse=False)
    T = rep[inp["word"]]
    pt = P.Point(np.array(inp["p"], dtype=float))
    out = (T @ pt).proj_data
    return {"row": np.asarray(out, dtype=float).tolist(), "class": type(T).__name__, "matrix_T": np.asarray(T.matrix, dtype=float).T.tolist()}


def lean_word(inp, obs):
    gens = []
    for k, m in inp["gens"].items():
        M = [[F(x) for x in r] for r in m]
        gens.append({"name": k, "m": m})
        if k.isupper() or k.upper() in inp["gens"]:
            continue                                   # the upper-case name has a matrix of its own
        Mi = np.round(np.linalg.inv(np.array([[float(x) for x in r] for r in M]))).astype(int)     # unimodular: exact integer inverse
        gens.append({"name": k.upper(), "m": [[str(int(x)) for x in r] for r in Mi]})
    ops = [{"op": "c03.word_act", "n": inp["d"], "gens": gens, "word": list(inp["word"]), "p": [str(x) for x in inp["p"]]}]
    for k, m in inp["gens"].items():
        if k.isupper():
            continue
        Mi = np.round(np.linalg.inv(np.array([[float(F(x)) for x in r] for r in m]))).astype(int)
        ops.append({"op": "c03.inv_check", "n": inp["d"], "A": m, "Ainv": [[str(int(x)) for x in r] for r in Mi]})
    return ops


def judge_word(inp, obs, lr):
    if "exc" in obs:
        return {"expected": "rep[word] @ point", "observed": obs, "tags": {"exc": obs["exc"]}}
    for r in lr[1:]:
        if r.get("ok") is not True:
            return {"expected": "exact integer inverse for the generated unimodular generator", "observed": r, "tags": {"harness": "inverse"}}
    res = lr[0]
    if "err" in res:
        return {"expected": res, "observed": obs, "tags": {"driver_err": res["err"][:40]}}
    col = Q.decf(res["ok"]["col"])
    want_cls = "Isometry" if inp["hyp"] else "Transformation"
    if obs["class"] != want_cls:
        return {"expected": want_cls, "observed": obs["class"], "tags": {"class": True}}
    if not O.allclose(obs["row"], col, 1e-9):
        return {"expected": {"column_action": col.tolist()}, "observed": {"rep[word]@p": obs["row"]},
                "tags": {"word_len": len(inp["word"]), "own_uppercase": any(k.isupper() for k in inp["gens"])}, "property_failure": True}
    if not O.allclose(obs["matrix_T"], Q.decf(res["ok"]["mat"]), 1e-9):
        return {"expected": "rep[word].matrix.T = product of the generators' column matrices", "observed": obs["matrix_T"], "tags": {"matrix": True}}
    return None


# ------------------------------------------------------------------ oracle: the group laws on the real code
def gen_laws(rng, n):
    for c in range(n):
        kind = O.KINDS[c % len(O.KINDS)]
        cx = kind in O.CX_KINDS and (c // len(O.KINDS)) % 3 == 2
        shape = rng.choice(O.SHAPES)
        ts = [] if rng.random() < 0.6 else N.bcast_partner(rng, shape)
        if not N.broadcastable(shape, ts) or list(np.broadcast_shapes(tuple(shape), tuple(ts))) != list(shape):
            ts = []
        history = []
        if c % 2 == 1:
            for _ in range(rng.randint(1, 3)):
                history.append({"target": rng.choice(["A", "A", "B", "X"]), "how": rng.choice(["item", "item", "slice", "ellipsis"])})
        yield {"op": "laws", "kind": kind, "cx": cx, "shape": shape, "tshape": ts, "n": rng.choice([2, 2, 3, 4]), "seed": rng.randrange(10 ** 9),
               "history": history, "identity": c // 3, "prequery": c % 3 == 0}


def run_laws(inp):
    g = O.G(inp["seed"])
    kind, n, cx = inp["kind"], inp["n"], inp["cx"]
    X = O.mk(kind, g, inp["shape"], n, cx)
    big = 0.3 if kind == "point" else 0.0          # G12 / G16: the law at large magnitudes, members of different kinds (points: well conditioned)
    A = O.transformations(g, inp["tshape"], n, kind, cx, mixed=big, top=6.0)
    B = O.transformations(g, inp["tshape"], n, kind, cx, mixed=big, top=6.0)
    bad = []
    # objects with a history: the laws must hold for a transformation (and an object) that has already been used (inverted, composed,
    # applied) and then updated in place through the public item assignment, not only for freshly built ones
    hist = inp.get("history", [])
    if hist:
        for T in (A, B):
            T.inv()
            T @ T
        (A @ X)
        for step in hist:
            tgt = {"A": A, "B": B, "X": X}[step["target"]]
            shp = tuple(tgt.shape)
            if step["target"] == "X":
                src = O.mk(kind, g, shp, n, cx)
            else:
                src = O.transformations(g, shp, n, kind, cx)
            if shp and step["how"] == "item":
                k = int(g.integers(0, shp[0]))
                tgt[k] = type(src)(np.array(src.proj_data[k])) if g.random() < 0.5 else np.array(src.proj_data[k])
            elif shp and step["how"] == "slice":
                tgt[:] = src
            else:
                tgt[...] = src if g.random() < 0.5 else np.array(src.proj_data)
            if step["target"] != "X":
                tgt.inv()          # use it again between updates
    x0 = np.array(X.proj_data)
    a0 = None if X.aux_data is None else np.array(X.aux_data)

    def cmp(what, L, R, tol=1e-7):
        if type(L) is not type(X):
            bad.append({"what": what + ":type", "got": type(L).__name__, "expected": type(X).__name__})
            return
        if tuple(L.shape) != tuple(X.shape):
            bad.append({"what": what + ":shape", "got": list(L.shape), "expected": list(X.shape)})
            return
        Rp = R.proj_data if hasattr(R, "proj_data") else R[0]
        Ra = R.aux_data if hasattr(R, "proj_data") else R[1]
        if not O.data_proj_eq(kind, L.proj_data, Rp, tol):
            bad.append({"what": what + ":proj", "expected": "equal as projective objects"})
        elif (L.aux_data is None) != (Ra is None) or (Ra is not None and not O.aux_proj_eq(kind, L.aux_data, Ra, 10 * tol)):
            bad.append({"what": what + ":aux", "expected": "derived data equal projectively"})

    if inp.get("prequery") and not cx:
        for _, f, _ in O.query_set(kind, X, n) + O.query_set("transformation", A, n) + O.query_set("transformation", B, n):
            O._run_q(f)
        for who, o, k in (("A @ X", A @ X, kind), ("A @ B", A @ B, "transformation"), ("X", X, kind), ("A.inv()", A.inv(), "transformation")):
            why = O.fresh_diff(k, o, n, 1e-6, mutate=True)
            if why:
                bad.append({"what": "differs_from_fresh_object", "object": who, "query": why,
                            "expected": "queries on an image / on an object that was queried before = the same queries on a fresh object"})
                break
        x0 = np.array(X.proj_data)              # (the queries may have rescaled stored rows in place)
        a0 = None if X.aux_data is None else np.array(X.aux_data)
    AB = A @ B
    if type(AB) is not type(B) or tuple(AB.shape) != tuple(np.broadcast_shapes(tuple(A.shape), tuple(B.shape))):
        bad.append({"what": "compose:type/shape", "got": [type(AB).__name__, list(AB.shape)]})
    cmp("assoc", AB @ X, A @ (B @ X))
    hyp = not cx and kind != "simplex"
    src = inp.get("identity", 0) % 4
    if src == 0:
        I = H.identity(n) if hyp else P.identity(n)
    elif src == 1:
        rep0 = H.HyperbolicRepresentation() if hyp else P.ProjectiveRepresentation()
        rep0["a"] = O.isometries(g, [], n) if hyp else O.invertibles(g, [], n, cx)
        I = rep0[""]
    elif src == 2:
        I = H.Isometry.standard_rotation(0.0, dimension=n) if hyp else P.Transformation(np.identity(n + 1))
    else:
        I = (H.Isometry if hyp else P.Transformation)(np.identity(n + 1))
    cmp("identity", I @ X, (x0, a0))
    # an image is an object of its own: editing it in place must not reach back into X (nor into images computed earlier)
    earlier = A @ X
    e0 = np.array(earlier.proj_data)
    for nm, img in (("identity", I @ X), ("A", A @ X), ("AB", (A @ B) @ X)):
        try:
            shp = tuple(img.shape)
            other = O.mk(kind, g, shp, n, cx)
            if shp and g.random() < 0.6:
                img[int(g.integers(0, shp[0]))] = np.array(other.proj_data[0])
            else:
                img[...] = np.array(other.proj_data)
        except Exception as e:
            bad.append({"what": "edit_image_raised", "image": nm, "exc": type(e).__name__, "msg": str(e)[:100]})
            continue
        if not np.array_equal(np.array(X.proj_data), x0) or (a0 is not None and not np.array_equal(np.array(X.aux_data), a0)):
            bad.append({"what": "editing_image_changed_original", "image": nm + " @ X", "identity_source": ["identity()", "rep['']", "standard_rotation(0)", "Cls(eye)"][src],
                        "expected": "X unchanged after an in-place edit of T @ X"})
            break
        if not np.array_equal(np.array(earlier.proj_data), e0):
            bad.append({"what": "editing_image_changed_earlier_image", "image": nm})
            break
        if X.aux_data is not None and not O.aux_proj_eq(kind, X.aux_data, type(X)(np.array(X.proj_data)).aux_data, 1e-6):
            bad.append({"what": "original_aux_stale_after_editing_image", "image": nm})
            break
    cmp("inverse", A.inv() @ (A @ X), (x0, a0))
    cmp("inverse2", A @ (A.inv() @ X), (x0, a0))
    Ai = A.inv()
    AiA = Ai @ A
    eye = np.broadcast_to(np.identity(n + 1), np.asarray(AiA.matrix).shape)
    if not O.mats_proj_eq(AiA.matrix, eye, 1e-7) or not O.mats_proj_eq((A @ Ai).matrix, eye, 1e-7):
        bad.append({"what": "inv:not_inverse", "expected": "A.inv() @ A = identity = A @ A.inv()"})
    if type(Ai) is not type(A) or tuple(Ai.shape) != tuple(A.shape):
        bad.append({"what": "inv:type/shape", "got": [type(Ai).__name__, list(Ai.shape)]})
    # the caller's object is not modified by apply
    if not np.array_equal(np.array(X.proj_data), x0) or (a0 is not None and not np.array_equal(np.array(X.aux_data), a0)):
        bad.append({"what": "apply_mutates_argument"})
    # derived data of the image = derived data recomputed from the image's primary data
    Y = A @ X
    if Y.aux_data is not None:
        fr = type(Y)(np.array(Y.proj_data))
        if not O.aux_proj_eq(kind, Y.aux_data, fr.aux_data, 1e-6):
            bad.append({"what": "aux_after_apply"})
    return {"bad": bad}


# ------------------------------------------------------------------ oracle: transformations of DIFFERENT classes in every binary operation
MIX_KINDS = ["transformation", "transformation", "point", "pair", "segment", "geodesic", "polygon", "tangent", "horosphere", "hyperplane", "subspace"]


def gen_mixcls(rng, n):
    for c in range(n):
        ashape = rng.choice(O.SHAPES[:9])
        yield {"op": "mixed_classes", "n": rng.choice([2, 2, 3]), "seed": rng.randrange(10 ** 9), "ashape": ashape,
               "xshape": N.bcast_partner(rng, ashape) if rng.random() < 0.7 else [], "acting": ["projective", "hyperbolic"][c % 2],
               "kind": MIX_KINDS[(c // 2) % len(MIX_KINDS)], "xfamily": ["other", "same"][(c // 2) % 5 == 4]}


def run_mixcls(inp):
    """the acting transformation A and the object X belong to different classes (a plain projective.Transformation acting on hyperbolic objects, among them
    hyperbolic.Isometry; an Isometry acting on projective objects, among them projective.Transformation): in every binary operation, in both orders,
    the result is an object of the class and composite shape of X, and the operator and the method spell the same action"""
    g = O.G(inp["seed"])
    n, kind = inp["n"], inp["kind"]
    bad = []
    proj_acting = inp["acting"] == "projective"
    A = O.invertibles(g, inp["ashape"], n) if proj_acting else O.isometries(g, inp["ashape"], n)
    B = O.invertibles(g, inp["ashape"], n) if proj_acting else O.isometries(g, inp["ashape"], n)
    x_hyp = proj_acting if inp["xfamily"] == "other" else not proj_acting          # the family of X: the other one (mostly) or the same one (control)
    if kind == "transformation":
        X = O.isometries(g, inp["xshape"], n) if x_hyp else O.invertibles(g, inp["xshape"], n)
    elif x_hyp:
        X = O.mk(kind, g, inp["xshape"], n)
    else:
        pk = kind if kind in O.CX_KINDS else "point"
        X = O.mk(pk, g, inp["xshape"], n, cx=True)
        X = type(X)(np.real(np.array(X.proj_data)))
        kind = pk
    xs, as_ = tuple(X.shape), tuple(A.shape)
    x0 = np.array(X.proj_data)
    Am = np.array(A.matrix)

    def unit_image(xi, ai):
        """rows of unit xi of X times the matrix of unit ai of A (a transformation X is acted on like any other object: (A @ X).matrix = X.matrix . A.matrix)"""
        return x0[xi] @ Am[ai]

    def check(what, R, exp_shape, pick):
        if type(R) is not type(X):
            bad.append({"what": what + ":type", "got": type(R).__name__, "expected": type(X).__name__, "acting": type(A).__name__,
                        "expected_text": "the result of acting has the class of the object acted on"})
            return False
        if tuple(R.shape) != tuple(exp_shape):
            bad.append({"what": what + ":shape", "got": list(R.shape), "expected": list(exp_shape)})
            return False
        for idx in np.ndindex(*exp_shape):
            xi, ai = pick(idx)
            if not O.data_proj_eq(kind, np.array(R.proj_data)[idx], unit_image(xi, ai), 1e-7):
                bad.append({"what": what + ":values", "idx": list(idx), "expected": "unit of X times the matrix of the unit of A"})
                return False
        return True

    def ew(idx):
        return (tuple(0 if d == 1 else i for d, i in zip(xs, idx[len(idx) - len(xs):])),
                tuple(0 if d == 1 else i for d, i in zip(as_, idx[len(idx) - len(as_):])))

    bshape = tuple(np.broadcast_shapes(xs, as_))
    ok = check("A @ X", A @ X, bshape, ew)
    ok = check("A.apply(X)", A.apply(X), bshape, ew) and ok
    ok = check("A.apply(X, elementwise)", A.apply(X, broadcast="elementwise"), bshape, ew) and ok
    ok = check("A.apply(X, pairwise)", A.apply(X, broadcast="pairwise"), xs + as_, lambda idx: (idx[:len(xs)], idx[len(xs):])) and ok
    ok = check("A.apply(X, pairwise_reversed)", A.apply(X, broadcast="pairwise_reversed"), as_ + xs, lambda idx: (idx[len(as_):], idx[:len(as_)])) and ok
    if not ok:
        return {"bad": bad}

    def same(what, L, R):
        if type(L) is not type(X) or type(R) is not type(X):
            bad.append({"what": what + ":type", "got": [type(L).__name__, type(R).__name__], "expected": type(X).__name__, "acting": type(A).__name__})
        elif tuple(L.shape) != tuple(R.shape) or not O.data_proj_eq(kind, L.proj_data, R.proj_data, 1e-7):
            bad.append({"what": what, "expected": "equal as projective objects"})

    Xb = type(X)(np.broadcast_to(x0, bshape + x0.shape[len(xs):]).copy())
    same("A.inv() @ (A @ X) = X", A.inv() @ (A @ X), Xb)
    same("A @ (A.inv() @ X) = X", A @ (A.inv() @ X), Xb)
    same("(A @ B) @ X = A @ (B @ X)", (A @ B) @ X, A @ (B @ X))
    if kind == "transformation":
        # X acts in turn: both orders of the mixed pair, and the composites acting on points of either family
        same_cls = lambda what, R, cls: None if type(R) is cls else bad.append({"what": what + ":type", "got": type(R).__name__, "expected": cls.__name__})
        same_cls("X @ A", X @ A, type(A))
        same_cls("X.apply(A)", X.apply(A), type(A))
        same_cls("X.inv() @ (X @ A)", X.inv() @ (X @ A), type(A))
        first = lambda T: T if not T.shape else type(T)(np.array(T.proj_data).reshape((-1, n + 1, n + 1))[0])
        for pts in (H.Point(O.klein(g, [3], n), model="klein"), P.Point(g.normal(size=(3, n + 1)))):
            for F_, G_, nm in ((A, X, "(A @ X) @ p = A @ (X @ p)"), (X, A, "(X @ A) @ p = X @ (A @ p)")):
                F1, G1 = first(F_), first(G_)
                L, R = (F1 @ G1) @ pts, F1 @ (G1 @ pts)
                if type(L) is not type(pts) or type(R) is not type(pts) or not O.rows_proj_eq(L.proj_data, R.proj_data, 1e-7):
                    bad.append({"what": nm, "points": type(pts).__module__.split(".")[-1], "expected": "left action, result of the class of the points"})
    if not np.array_equal(np.array(X.proj_data), x0) or not np.array_equal(np.array(A.matrix), Am):
        bad.append({"what": "operands_modified"})
    return {"bad": bad}


def gen_rep(rng, n):
    for c in range(n):
        # a small deterministic automaton over the generators and their inverses (no label followed by its inverse is required)
        nst = rng.randint(1, 3)
        aut = {str(v): {l: rng.randrange(nst) for l in "abAB" if rng.random() < 0.6} for v in range(nst)}
        words = ["".join(rng.choice("abAB") for _ in range(rng.randint(0, 7))) for _ in range(3)]
        own = None
        if c % 4 >= 2:
            # semigroup generators: upper-case names given matrices of their own (set_generator(..., compute_inverse=False)), which are NOT the inverses
            # of the lower-case ones, and words in which a name and its opposite-case name are adjacent (no free reduction is legitimate)
            own = rng.choice(["A", "B", "AB"])
            for j in range(len(words)):
                x = rng.choice(list(own)).lower()
                k = rng.randint(0, len(words[j]))
                words[j] = words[j][:k] + rng.choice([x + x.upper(), x.upper() + x, x + x.upper() + x.upper() + x]) + words[j][k:]
        yield {"op": "rep", "n": rng.choice([2, 3]), "seed": rng.randrange(10 ** 9), "hyp": c % 2 == 0,
               "words": words, "shape": rng.choice(O.SHAPES[:7]),
               "automaton": aut, "length": rng.choice([2, 3, 3, 4]), "own_uppercase": own,
               "mixed": None if c % 3 else {"int": rng.choice("ab"), "order": rng.choice(["ab", "ba"]), "dtype": rng.choice(["int", "int", "int32", "float32"])}}


def run_rep(inp):
    g = O.G(inp["seed"])
    n = inp["n"]
    bad = []
    if inp["hyp"]:
        rep = H.HyperbolicRepresentation()
        gens = {k: O.isometries(g, [], n) for k in "ab"}
        pts = H.Point(O.klein(g, inp["shape"], n), model="klein")
    else:
        rep = P.ProjectiveRepresentation()
        gens = {k: O.invertibles(g, [], n) for k in "ab"}
        pts = P.Point(g.normal(size=tuple(inp["shape"]) + (n + 1,)))
    mixed = inp.get("mixed")
    if mixed:
        # generators of mixed dtype (one with integer entries and integer dtype), assigned in either order
        Tcls = H.Isometry if inp["hyp"] else P.Transformation
        if inp["hyp"]:
            M = np.identity(n + 1, dtype=np.int64)
            i, j = 1, 2
            M[i, i], M[i, j], M[j, i], M[j, j] = 0, -1, 1, 0             # a quarter turn: an isometry with integer entries
        else:
            M = np.identity(n + 1, dtype=np.int64)
            M[0, 1], M[1, 2 % (n + 1)] = 2, -1                            # unimodular
            M[2 % (n + 1), 0] += 1
        which = mixed["int"]
        gens[which] = Tcls(M.astype({"int": np.int64, "int32": np.int32, "float32": np.float32}[mixed["dtype"]]))
        order = list(mixed["order"])
    else:
        order = list(gens)
    for k in order:
        rep[k] = gens[k]
    col = {k: np.array(T.matrix, dtype=float).T for k, T in gens.items()}          # the matrix acting on columns
    col.update({k.upper(): np.linalg.inv(M) for k, M in list(col.items())})
    for K in (inp.get("own_uppercase") or ""):
        TK = O.isometries(g, [], n) if inp["hyp"] else O.invertibles(g, [], n)
        rep.set_generator(K, TK, compute_inverse=False)
        col[K] = np.array(TK.matrix, dtype=float).T

    def colmat(w):
        M = np.identity(n + 1)
        for ch in w:
            M = M @ col[ch]
        return M

    for k, T in gens.items():
        if not O.allclose(rep[k].matrix, T.matrix, 1e-12):
            bad.append({"what": "rep[g] != g", "g": k})
    for w in inp["words"]:
        R = rep[w] @ pts
        want = np.einsum("ij,...j->...i", colmat(w), np.array(pts.proj_data))
        if type(R) is not type(pts) or tuple(R.shape) != tuple(pts.shape):
            bad.append({"what": "type/shape", "word": w})
        elif not O.rows_proj_eq(R.proj_data, want, 1e-7) or not O.allclose(R.proj_data, want, 1e-6):
            bad.append({"what": "word_action", "word": w, "expected": "rep[w] @ p = (matrix of w) . (column p)"})
    # G2: what rep[...] hands out is the caller's: overwriting it must not change the representation
    for k in order:
        M = rep[k]
        m0 = np.array(M.matrix)
        M.proj_data[...] = 0
        if not O.allclose(rep[k].matrix, m0, 1e-12):
            bad.append({"what": "rep_generator_aliased", "g": k, "expected": "rep[g] unchanged after overwriting the matrix it returned"})
    wv = rep[inp["words"][0]]
    w0 = np.array(wv.matrix)
    wv.proj_data[...] = 0
    if not O.allclose(rep[inp["words"][0]].matrix, w0, 1e-12):
        bad.append({"what": "rep_word_aliased", "word": inp["words"][0]})
    # G2: one-shot iterables, tuples where lists are accepted
    for nm, ws in (("tuple", tuple(inp["words"])), ("iterator", iter(list(inp["words"]))), ("generator", (w for w in inp["words"]))):
        try:
            E = rep.elements(ws)
            if not O.allclose(E.matrix, rep.elements(list(inp["words"])).matrix, 1e-12):
                bad.append({"what": "elements_iterable", "container": nm})
        except Exception as e:
            bad.append({"what": "elements_iterable_raised", "container": nm, "exc": type(e).__name__})
    # G3: an unrelated representation with the same generator names, used in between, changes nothing
    other = type(rep)()
    for k in order:
        other[k] = O.isometries(g, [], n) if inp["hyp"] else O.invertibles(g, [], n)
    before = [np.array(rep[w].matrix) for w in inp["words"]]
    other.elements(list(inp["words"]))
    other.freely_reduced_elements(2)
    if not all(O.allclose(rep[w].matrix, b, 1e-12) for w, b in zip(inp["words"], before)):
        bad.append({"what": "representations_not_independent"})
    # the batched APIs return, word by word, the single-word image
    batched = [("elements", rep.elements(inp["words"]))]
    batched.append(("isometries", rep.isometries(inp["words"])) if inp["hyp"] else ("transformations", rep.transformations(inp["words"])))
    for nm, E in batched:
        for j, w in enumerate(inp["words"]):
            if not O.allclose(np.array(E.matrix, dtype=float)[j], np.array(rep[w].matrix, dtype=float), 1e-9):
                bad.append({"what": "batched_vs_single", "api": nm, "word": w, "expected": "rep.%s(words)[j] = rep[words[j]]" % nm})
                break
    u, v = inp["words"][0], inp["words"][1]
    if not O.allclose((rep[u] @ rep[v]).matrix, rep[u + v].matrix, 1e-6):
        bad.append({"what": "rep[u]@rep[v] != rep[uv]", "u": u, "v": v})
    # every other way of obtaining images of words: each returned element must act on points as the matrix of ITS word
    from geometry_tools.automata import fsa

    def check_elements(what, E, words):
        E = type(rep["a"])(np.array(E.proj_data)) if hasattr(E, "proj_data") else E
        if len(words) != (E.shape[0] if E.shape else 1):
            bad.append({"what": what + ":count", "got": [list(E.shape), len(words)]})
            return
        if len(words) == 0:
            return
        R = E.apply(pts, "pairwise")
        for j, w in enumerate(words):
            want = np.einsum("ij,...j->...i", colmat(w), np.array(pts.proj_data))
            if not O.rows_proj_eq(R.proj_data[..., j, :], want, 1e-6):
                bad.append({"what": what, "word": w, "expected": "element returned for a word acts on points as the word's matrix acts on columns"})
                return

    L = inp.get("length", 3)
    for maxlen in (True, False):
        E, ws = rep.freely_reduced_elements(L, maxlen=maxlen, with_words=True)
        check_elements("freely_reduced_elements(maxlen=%s)" % maxlen, E, list(ws))
        E2 = rep.freely_reduced_elements(L, maxlen=maxlen)
        if not O.allclose(E2.proj_data, E.proj_data, 1e-9):
            bad.append({"what": "freely_reduced_elements: with_words changes the elements"})
    gd = inp.get("automaton")
    if gd:
        aut = fsa.FSA({int(v): {l: int(w) for l, w in d.items()} for v, d in gd.items()}, start_vertices=[0])
        states = sorted(int(v) for v in gd)
        opts = [{}] + [{"start_state": q} for q in states] + [{"end_state": q} for q in states]
        for o in opts:
            for maxlen in (True, False):
                try:
                    E, ws = rep.automaton_accepted(aut, L, maxlen=maxlen, with_words=True, **o)
                except Exception as e:
                    bad.append({"what": "automaton_accepted raised", "opts": o, "exc": type(e).__name__, "msg": str(e)[:100]})
                    continue
                check_elements("automaton_accepted(%s,maxlen=%s)" % (sorted(o.items()), maxlen), E, list(ws))
                E2 = rep.automaton_accepted(aut, L, maxlen=maxlen, **o)
                if np.asarray(E2.proj_data).shape != np.asarray(E.proj_data).shape or not O.allclose(E2.proj_data, E.proj_data, 1e-9):
                    bad.append({"what": "automaton_accepted: with_words changes the elements", "opts": o})
    # composite of words, pairwise: entry [i][j] is word j applied to point i
    E = rep.elements(inp["words"])
    R = E.apply(pts, "pairwise")
    if tuple(R.shape) != tuple(pts.shape) + (len(inp["words"]),):
        bad.append({"what": "elements_pairwise_shape", "got": list(R.shape)})
    else:
        for j, w in enumerate(inp["words"]):
            want = np.einsum("ij,...j->...i", colmat(w), np.array(pts.proj_data))
            if not O.rows_proj_eq(R.proj_data[..., j, :], want, 1e-7):
                bad.append({"what": "elements_pairwise", "word": w})
    # histories (wave 6): a generator is assigned again on the same object (the in-place deformation pattern), directly or
    # through its inverse name; words containing the inverse letter must act through the inverse of the *current* matrix
    if not inp.get("own_uppercase"):
        for step, name in enumerate(["a", "B", "a"]):
            Tn = O.isometries(g, [], n) if inp["hyp"] else O.invertibles(g, [], n)
            rep[name] = Tn
            Mn = np.array(Tn.matrix, dtype=float).T
            col[name] = Mn
            col[name.swapcase()] = np.linalg.inv(Mn)
            for w in list(inp["words"]) + ["A", "b", "aAbB", "BA"]:
                R = rep[w] @ pts
                want = np.einsum("ij,...j->...i", colmat(w), np.array(pts.proj_data))
                if not O.rows_proj_eq(R.proj_data, want, 1e-7):
                    bad.append({"what": "word_action_after_reassignment", "word": w, "reassigned": name, "step": step,
                                "expected": "after rep[g] = M', every word acts as the product of the current generator matrices (inverse letters through the inverse of M')"})
                    break
    return {"bad": bad}


# ------------------------------------------------------------------ oracle: the action is the geometric one (incidence is preserved)
def gen_inc(rng, n):
    for c in range(n):
        yield {"op": "incidence", "kind": ["hyperplane", "dualpoint", "subspace", "geodesic", "convexpolygon", "convexpolygon", "dualobject"][c % 7],
               "cx": (c // 7) % 2 == 1,
               "shape": rng.choice(O.SHAPES[:6]), "n": rng.choice([2, 3]), "seed": rng.randrange(10 ** 9)}


def run_inc(inp):
    g = O.G(inp["seed"])
    kind, n, shape = inp["kind"], inp["n"], tuple(inp["shape"])
    bad = []
    J = np.diag([-1.0] + [1.0] * n)
    if kind == "dualobject":
        # a generic object carrying dual data (dual_ndims=1): a point w and a functional f with f.w = 0 stay incident; real and complex matrices
        cx = inp.get("cx", False)
        cnt = shape
        rnd = lambda sh: g.normal(size=sh) + (1j * g.normal(size=sh) if cx else 0)
        w = rnd(cnt + (n + 1,))
        f = rnd(cnt + (n + 1,))
        f = f - w * (np.sum(f * w, axis=-1) / np.sum(w * w, axis=-1))[..., None]        # f.w = 0 (bilinear pairing, no conjugation)
        X = P.ProjectiveObject(w, dual_data=f, unit_ndims=1, dual_ndims=1)
        A, B = O.invertibles(g, [], n, cx), O.invertibles(g, [], n, cx)
        Y = A @ X
        pair = np.sum(np.array(Y.proj_data) * np.array(Y.dual_data), axis=-1)
        if np.abs(pair).max() > 1e-7 * (1 + np.abs(Y.proj_data).max() * np.abs(Y.dual_data).max()):
            bad.append({"what": "dual_incidence", "complex": cx, "expected": "image functional vanishes on the image point (f.w = 0 is preserved)"})
        L, R = (A @ B) @ X, A @ (B @ X)
        if not (O.rows_proj_eq(L.dual_data, R.dual_data, 1e-7) and O.rows_proj_eq(L.proj_data, R.proj_data, 1e-7)):
            bad.append({"what": "dual_assoc", "complex": cx})
        Z = A.inv() @ (A @ X)
        if not (O.rows_proj_eq(Z.dual_data, f, 1e-7) and O.rows_proj_eq(Z.proj_data, w, 1e-7)):
            bad.append({"what": "dual_inverse", "complex": cx})
        return {"bad": bad}
    if kind == "convexpolygon":
        # the one class with dual data: a functional f (the chart is the complement of the hyperplane f.w = 0); any invertible A, real or complex
        cx = inp.get("cx", False)
        verts = np.concatenate([np.ones((5, 1)), O.klein(g, (5,), n)], axis=-1)
        f = np.concatenate([[1.0], g.uniform(-0.3, 0.3, n)])
        X = P.ConvexPolygon(verts, dual_data=f)
        A, B = O.invertibles(g, [], n, cx), O.invertibles(g, [], n, cx)
        # points of the dual hyperplane: a basis of the kernel of f
        W = np.concatenate([-f[1:, None] / f[0], np.identity(n)], axis=1)
        Y = A @ X
        if type(Y) is not type(X) or Y.dual_data is None:
            bad.append({"what": "dual:type"})
        else:
            img = W @ np.array(A.matrix)
            if np.abs(img @ np.array(Y.dual_data)).max() > 1e-7 * (1 + np.abs(img).max() * np.abs(Y.dual_data).max()):
                bad.append({"what": "dual_incidence", "expected": "the image functional vanishes on the images of the points of the dual hyperplane"})
            sg = np.sign(np.real(np.array(Y.proj_data) @ np.array(Y.dual_data)))
            if not cx and not (np.all(sg > 0) or np.all(sg < 0)):
                bad.append({"what": "dual_chart", "expected": "all image vertices on one side of the image hyperplane"})
            L, R = (A @ B) @ X, A @ (B @ X)
            if not (O.rows_proj_eq(L.dual_data, R.dual_data, 1e-7) and O.rows_proj_eq(L.proj_data, R.proj_data, 1e-7) and O.rows_proj_eq(L.aux_data, R.aux_data, 1e-7)):
                bad.append({"what": "dual_assoc"})
            Z = A.inv() @ (A @ X)
            if not (O.rows_proj_eq(Z.dual_data, f, 1e-7) and O.rows_proj_eq(Z.proj_data, verts, 1e-7)):
                bad.append({"what": "dual_inverse"})
        # composite polygons acted on by composite maps (wave 6: the dual block was multiplied with the unit rank of the
        # primary data): member [i] (elementwise) / [i][j] (pairwise) of the image, *including its dual functional*, is the
        # image of member i under map i / j
        m = 2 + int(g.integers(0, 2))
        vs = np.concatenate([np.ones((m, 5, 1)), O.klein(g, (m, 5), n)], axis=-1)
        fs = np.concatenate([np.ones((m, 1)), g.uniform(-0.3, 0.3, (m, n))], axis=-1)
        Xc = P.ConvexPolygon(vs, dual_data=fs)
        Ms = np.array([np.array(O.invertibles(g, [], n, cx).matrix) for _ in range(m)])
        Ac = P.Transformation(Ms)
        single = lambda i, j: P.Transformation(Ms[j]) @ P.ConvexPolygon(vs[i], dual_data=fs[i])
        for mode in ("elementwise", "pairwise"):
            Yc = Ac.apply(Xc, broadcast=mode) if mode != "elementwise" else Ac @ Xc
            want_shape = (m,) if mode == "elementwise" else (m, m)
            if tuple(Yc.shape) != want_shape or Yc.dual_data is None or tuple(np.shape(Yc.dual_data)) != want_shape + (n + 1,):
                bad.append({"what": "dual_composite_shape", "mode": mode, "shape": list(Yc.shape),
                            "dual_shape": None if Yc.dual_data is None else list(np.shape(Yc.dual_data))})
                continue
            for i in range(m):
                for j in ([i] if mode == "elementwise" else range(m)):
                    S = single(i, j)
                    ix = (i,) if mode == "elementwise" else (i, j)
                    if not (O.rows_proj_eq(np.array(Yc.dual_data)[ix], S.dual_data, 1e-7)
                            and O.rows_proj_eq(np.array(Yc.proj_data)[ix], S.proj_data, 1e-7)):
                        bad.append({"what": "dual_composite_member", "mode": mode, "member": list(ix)})
        return {"bad": bad}
    A = O.isometries(g, [] if g.random() < 0.5 else shape, n)
    if kind in ("hyperplane", "dualpoint"):
        X = O.mk("hyperplane", g, shape, n)
        nrm = np.array(X.spacelike_vector)
        pts = np.array(X.ideal_basis)                  # points of the hyperplane
        if kind == "dualpoint":
            X = H.DualPoint(nrm.copy())
        Y = A @ X
        # images of the points, unit by unit
        Am = np.broadcast_to(np.array(A.matrix), shape + (n + 1, n + 1))
        img = np.einsum("...kj,...ji->...ki", pts, Am)
        nrm2 = np.array(Y.spacelike_vector) if kind == "hyperplane" else np.array(Y.proj_data)
        inc = np.einsum("...ki,ij,...j->...k", img, J, nrm2)
        if np.abs(inc).max() > 1e-7:
            bad.append({"what": "normal_incidence", "expected": "the image normal is Minkowski-orthogonal to the images of the points of the hyperplane"})
        if kind == "hyperplane" and np.abs(np.einsum("...ki,ij,...j->...k", np.array(Y.ideal_basis), J, nrm2)).max() > 1e-7:
            bad.append({"what": "image_not_a_hyperplane"})
    else:
        # the image of the span is the span of the images: a point on the line through the two rows stays on the image's line
        X = O.mk(kind, g, shape, n)
        d = np.array(X.proj_data)
        lam = g.uniform(0.2, 0.8, shape + (1,))
        w = lam * d[..., 0, :] + (1 - lam) * d[..., 1, :]
        Am = np.broadcast_to(np.array(A.matrix), shape + (n + 1, n + 1))
        wi = np.einsum("...j,...ji->...i", w, Am)
        Y = np.array((A @ X).proj_data)
        for idx in np.ndindex(*shape):
            M = np.vstack([Y[idx][:2], wi[idx]])
            if np.linalg.matrix_rank(M, tol=1e-8) > 2:
                bad.append({"what": "span_incidence", "idx": list(idx)})
                break
    return {"bad": bad}


CLAUSES = [
    Clause("incidence", "oracle", gen_inc, run_inc, O.judge_bad, site="projective.Transformation.apply (dual / normal data)",
           budget={"quick": 180, "thorough": 3000},
           what="the action is the geometric one: A@Hyperplane / A@DualPoint is Minkowski-orthogonal to the images of the points of the original hyperplane, A@Subspace / A@Geodesic "
                "contains the images of points of the original, and for the class with dual data (ConvexPolygon with a supplied functional, any invertible A) the image functional "
                "vanishes on the images of the dual hyperplane, keeps all vertices on one side, and satisfies the action laws"),
    Clause("apply_per_unit", "oracle", O.gen_apply, O.run_apply, O.judge_bad, site="projective.Transformation.apply",
           budget={"quick": 198, "thorough": 3000},
           what="T.apply(X, elementwise|pairwise|pairwise_reversed): type, composite shape law, shape and values of primary AND derived data of the result at every index = "
                "transformation unit applied to object unit (11 kinds, composite polygons incl.), objects with per-unit scales 1e-12..1e12, objects and transformations that "
                "were queried before being transformed compared with fresh objects"),
    Clause("apply_corr", "corr", gen_apply, run_apply, judge_apply, lean=lean_apply, site="projective.Transformation.apply",
           budget={"quick": 396, "thorough": 5000},
           what="T.apply(X, mode) for each of the 11 kinds (objects built by the library, their primary and derived data sent exactly), arbitrary dyadic "
                "matrices T of composite shape, 3 modes: kind, composite shape, primary and derived data vs Lean Obj.apply over Q"),
    Clause("word_corr", "corr", gen_word, run_word, judge_word, lean=lean_word, site="projective.ProjectiveRepresentation.__getitem__ / Transformation.apply",
           budget={"quick": 300, "thorough": 3000},
           what="rep[word] @ point for projective and hyperbolic representations with unimodular integer generators (words with inverses, length <= 8) vs the Lean "
                "column action wordMat·p (exact), and rep[word].matrix.T vs wordMat"),
    Clause("group_laws", "oracle", gen_laws, run_laws, O.judge_bad, site="projective.Transformation.apply/__matmul__/inv",
           budget={"quick": 990, "thorough": 8000},
           what="(A@B)@X = A@(B@X), identity, A.inv()@(A@X) = X = A@(A.inv()@X) as projective objects incl. derived data, type and composite shape preserved, "
                "argument not mutated, derived data of the image = recomputed, A.inv()@A = identity; 11 kinds, real and complex, composite shapes, composite transformations; "
                "half of the cases on transformations/objects WITH A HISTORY (already inverted/composed/applied, then updated in place by item, slice or ellipsis assignment)"),
    Clause("mixed_classes", "oracle", gen_mixcls, run_mixcls, O.judge_bad, site="projective.Transformation.apply/__matmul__/inv (operands of different classes)",
           budget={"quick": 154, "thorough": 3000},
           what="the acting transformation and the object acted on are of DIFFERENT classes (projective.Transformation on the 10 hyperbolic kinds incl. hyperbolic.Isometry; "
                "Isometry on projective objects incl. projective.Transformation; same-family controls): A @ X, A.apply(X) in the three broadcast modes have the class and composite "
                "shape law of X and, at every index, the rows of the unit of X times the matrix of the unit of A; inverse and associativity laws with the class of X; both orders of a "
                "mixed pair of transformations, and their composites acting on points of either family"),
    Clause("rep_action", "oracle", gen_rep, run_rep, O.judge_bad, site="projective.ProjectiveRepresentation / hyperbolic.HyperbolicRepresentation",
           budget={"quick": 300, "thorough": 3000},
           what="rep[g] = g, rep[w] @ points = (matrix of w)·column for words with inverses, rep[u]@rep[v] = rep[uv], rep.elements(words).apply(points,'pairwise')[i][j] = word j on point i; "
                "every (element, word) pair returned by freely_reduced_elements and by automaton_accepted (random automata; default / every start_state / every end_state; "
                "maxlen on and off; with and without words) acts on points as the word's matrix"),
]
