"""C11 histories: operations and read-only queries on polygons, segments and tangent vectors (real code)."""
import itertools, math, warnings, copy
from fractions import Fraction as F
import numpy as np
from vlib.runner import Clause
from props import _nd as N
from props import _objs as O
from geometry_tools import utils, hyperbolic as H, projective as P

AUXK = ["polygon", "segment", "tangent", "ppolygon"]
HSHAPES = [[], [2], [2, 3]]
OPS = ["copy", "apply", "reshape", "flatten", "index", "setitem", "stack", "combine", "astype"]
QUERIES = {
    "polygon": ["coords", "get_edges", "get_vertices", "edge_circles", "circle_parameters", "edge_ideal", "self_hyperboloid", "self_distance", "helpers_on_own_arrays"],
    "segment": ["coords", "circle_parameters", "endpoint_coords", "ideal_endpoint_coords", "geodesic", "end_pair", "sphere_parameters",
                "endpoint_distance", "endpoint_origin_to", "self_hyperboloid", "self_distance", "helpers_on_own_arrays"],
    "tangent": ["coords", "normalized", "origin_to", "angle", "point_along", "isometry_to", "point_vector", "base_distance",
                "self_hyperboloid", "self_distance", "helpers_on_own_arrays"],
    "ppolygon": ["p_edges", "p_vertices", "p_affine", "p_chart"],
}
TOL = 1e-6


def rows_pos_eq(a, b, tol=1e-9):
    """every row of a is a POSITIVE multiple of the corresponding row of b (what in-place normalisation may do)"""
    a, b = np.asarray(a), np.asarray(b)
    if a.shape != b.shape or not (np.all(np.isfinite(a)) and np.all(np.isfinite(b))):
        return False
    for x, y in zip(a.reshape(-1, a.shape[-1]), b.reshape(-1, b.shape[-1])):
        i = int(np.argmax(np.abs(y)))
        if abs(y[i]) < 1e-300:
            if np.abs(x).max() > tol:
                return False
            continue
        c = x[i] / y[i]
        if not (np.real(c) > 0 and abs(np.imag(c)) <= tol * abs(c)):
            return False
        if np.abs(x - c * y).max() > tol * (1 + np.abs(x).max()):
            return False
    return True


class HarnessGiveUp(Exception):
    pass


class Hist:
    """one history on the real code; keeps every object ever produced alive and re-checks all of them"""

    def __init__(self, kind, shape, n, seed):
        self.kind, self.n, self.g = kind, n, O.G(seed)
        self.dtype = [np.complex128, np.float32, np.float64, np.complex128][int(self.g.integers(0, 4))] if kind == "ppolygon" else np.float64
        self.tol = 2e-3 if self.dtype == np.float32 else TOL
        self.inputs = []        # caller-supplied arrays (name, array, snapshot)
        self.objs = []
        self.bad = []
        self.nv = 4
        self.force_int = False
        self.cur = self.make(tuple(shape))
        self.bystander = self.make(tuple(shape))          # an unrelated object of the same class, dimension and shape (G3)
        self.objs.append(self.cur)

    # ---- construction from caller-supplied arrays (kept, and watched)
    def supply(self, name, arr):
        self.inputs.append((name, arr, arr.copy()))
        return arr

    def rescale(self, proj, unit_rank=2):
        """another representative of the same projective points: every row times its own non-zero factor of either sign (powers of two, so
        that exactly null rows stay exactly null)"""
        g = self.g
        f = g.choice([0.25, 0.5, 1.0, 2.0, 4.0], proj.shape[:-1] + (1,)) * g.choice([-1.0, 1.0], proj.shape[:-1] + (1,))
        if g.random() < 0.35:
            us = O.unit_scale(g, proj.shape[:-unit_rank])                       # one homogeneous factor per unit, 1e-12 .. 1e12
            if unit_rank == 2:
                # (not for units with an ideal row: in-place normalisation later rescales the other rows only, and the library's quadratic for
                #  the ideal endpoints cancels catastrophically when the two endpoints differ in scale by 1e12 -- conditioning, not logic)
                nn = -proj[..., 0] ** 2 + np.sum(proj[..., 1:] ** 2, axis=-1)
                has_null = np.any(np.abs(nn) < 1e-9 * np.sum(proj ** 2, axis=-1), axis=-1)
                us = np.where(has_null, 1.0, us)
            f = f * us.reshape(us.shape + (1,) * unit_rank)
        return proj * f

    NULLS = [(1, -1, 0), (1, 0, 1), (1, 0, -1), (5, 3, 4), (5, -3, 4), (5, 4, -3), (5, -4, -3), (13, 5, 12), (13, -12, 5), (17, 8, -15), (5, 3, -4)]

    def pts(self, shape, ideal=False):
        """projective rows (x0, x); ideal ones are EXACTLY null integer vectors (the where= branch of normalize), never the half-space point at infinity"""
        n, g = self.n, self.g
        if not ideal:
            out = np.concatenate([np.ones(tuple(shape) + (1,)), O.klein(g, shape, n)], axis=-1)
            if g.random() < 0.3 and out.size:
                # G8: an exact special position among ordinary ones: one point exactly at the origin of the ball, stored as (1, 0, ..., 0)
                flat = out.reshape(-1, n + 1)
                flat[int(g.integers(0, len(flat))), 1:] = 0.0
                out = flat.reshape(out.shape)
            return out
        cnt = int(np.prod(shape)) if len(shape) else 1
        rows = np.zeros((cnt, n + 1))
        for r in range(cnt):
            v = self.NULLS[int(g.integers(0, len(self.NULLS)))]
            rows[r, 0] = v[0]
            if n == 1:
                rows[r, 1] = -v[0]
            else:
                pos = g.permutation(np.arange(1, n + 1))[:2]
                rows[r, pos[0]], rows[r, pos[1]] = v[1], v[2]
                if rows[r, 1] == rows[r, 0]:
                    rows[r, 1] = -rows[r, 1]
        return rows.reshape(tuple(shape) + (n + 1,))

    @staticmethod
    def lightlike_mask(x1, x2):
        """per unit: x1 - x2 is (numerically) lightlike or zero. The library's quadratic for the ideal endpoints divides by <x1-x2, x1-x2>, so for such
        REPRESENTATIVES (e.g. (2,0,0) and (1,0,-1); also reached when a query normalises a stored row in place) a recomputation gives NaN although
        the segment is a perfectly good one: known representation-dependent limitation (finding "segment a = 0"), outside this property; such
        units are neither generated nor compared"""
        d = np.real(np.asarray(x1, dtype=complex) - np.asarray(x2, dtype=complex))
        q = -d[..., 0] ** 2 + np.sum(d[..., 1:] ** 2, axis=-1)
        return np.abs(q) <= 1e-9 * np.sum(d ** 2, axis=-1)

    @classmethod
    def lightlike_difference(cls, x1, x2):
        return bool(np.any(cls.lightlike_mask(x1, x2)))

    def degenerate_units(self, obj):
        """mask over the units (segments) / edges (polygons) of obj whose stored endpoint representatives have a lightlike difference; None if there are none"""
        proj = np.asarray(obj.proj_data)
        if np.iscomplexobj(proj) and not np.any(np.imag(proj) != 0):
            proj = np.real(proj)               # real data stored with a complex dtype (astype)
        if self.kind == "segment" and not np.iscomplexobj(proj):
            m = self.lightlike_mask(proj[..., 0, :], proj[..., 1, :])
        elif self.kind == "polygon" and not np.iscomplexobj(proj):
            m = self.lightlike_mask(proj, np.roll(proj, -1, axis=-2))
            aux = None if obj.aux_data is None else np.asarray(obj.aux_data)
            if aux is not None and aux.shape[:-2] == m.shape and not np.any(np.imag(aux) != 0):
                # the stored edges keep the representatives they were built from (projectively the same, which is all the property asks)
                m = m | self.lightlike_mask(aux[..., 0, :], aux[..., 1, :])
        else:
            return None
        return m if np.any(m) else None

    def inexactly_null(self, obj):
        """some stored row is null up to rounding but not exactly (eigenvector output): one in-place normalisation multiplies it by ~1e8,
        after which nothing computed from it is well conditioned; the in-place coordinate queries are not run on such objects"""
        d = np.asarray(obj.proj_data, dtype=float)
        nn = -d[..., 0] ** 2 + np.sum(d[..., 1:] ** 2, axis=-1)
        sz = np.sum(d ** 2, axis=-1)
        return bool(np.any((nn != 0) & (np.abs(nn) < 1e-9 * sz)))

    def _tick(self):
        """rejection loops of the generator are bounded: after 300 rejected draws (large composite shapes make "every unit is
        well separated" improbable) the history ends here — a harness limit, never an observation of the implementation
        (soak finding: an unbounded loop ran into the check's global time limit and was reported as an `op_raised` Timeout)"""
        self._ticks = getattr(self, "_ticks", 0) + 1
        if self._ticks > 300:
            self._ticks = 0
            raise HarnessGiveUp()

    def make(self, shape):
        g, n, kind = self.g, self.n, self.kind
        shape = tuple(shape)
        style = g.random()
        if kind != "ppolygon" and (self.force_int or g.random() < 0.12):
            obj = self.make_int(shape)
            if obj is not None:
                return obj
        if kind == "ppolygon":
            d = g.normal(size=shape + (self.nv, n + 1))
            if np.iscomplexobj(np.zeros(1, dtype=self.dtype)):
                d = d + 1j * g.normal(size=shape + (self.nv, n + 1))
            raw = self.supply("ppolygon_proj", d.astype(self.dtype))
            return P.Polygon(raw)
        if kind == "polygon":
            if style < 0.4:
                k = self.supply("polygon_klein", O.klein(g, shape + (self.nv,), n))
                return H.Polygon(H.Point(k, model="klein"))
            while True:
                self._tick()
                v = self.pts(shape + (self.nv,))
                idl = self.pts(shape + (self.nv,), ideal=True)
                mask = g.random(shape + (self.nv, 1)) < 0.2                       # some ideal vertices
                raw = np.where(mask, idl, v)
                kk = raw[..., 1:] / raw[..., :1]
                dist = np.linalg.norm(kk[..., :, None, :] - kk[..., None, :, :], axis=-1) + 10 * np.identity(self.nv)
                if dist.min() > 0.1:                                        # vertices pairwise distinct (no degenerate edge)
                    break
            for _ in range(20):
                cand = self.rescale(raw)
                if not self.lightlike_difference(cand, np.roll(cand, -1, axis=-2)):
                    break
            raw = self.supply("polygon_proj", cand)
            return H.Polygon(raw)
        if kind == "segment" and len(shape) >= 1 and shape[-1] >= 2 and g.random() < 0.15:
            # G18: the history starts from a helper object another object handed out (the edges of a polygon), not from a user-built one
            k = shape[-1]
            while True:
                self._tick()
                v = self.pts(shape)
                kk = v[..., 1:] / v[..., :1]
                dist = np.linalg.norm(kk[..., :, None, :] - kk[..., None, :, :], axis=-1) + 10 * np.identity(k)
                if dist.min() > 0.15:
                    break
            for _ in range(20):
                cand = self.rescale(v)
                if not self.lightlike_difference(cand, np.roll(cand, -1, axis=-2)):
                    break
            raw = self.supply("helper_polygon_proj", cand)
            return H.Polygon(raw).get_edges()
        if kind == "tangent" and g.random() < 0.15:
            # G18: a tangent vector handed out by a point query
            while True:
                self._tick()
                a, b = self.pts(shape), self.pts(shape)
                if np.min(np.linalg.norm(a[..., 1:] - b[..., 1:], axis=-1)) > 0.15:
                    break
            a, b = self.supply("helper_from", a), self.supply("helper_to", b)
            return H.Point(a).unit_tangent_towards(H.Point(b))
        if kind == "segment":
            if style < 0.3:
                while True:
                    self._tick()
                    a, b = O.klein(g, shape, n), O.klein(g, shape, n)
                    if np.min(np.linalg.norm(a - b, axis=-1)) > 0.15:
                        break
                self.supply("seg_a", a)
                self.supply("seg_b", b)
                return H.Segment(H.Point(a, model="klein"), H.Point(b, model="klein"))
            # endpoints interior or ideal in every combination, arbitrary representatives (either sign, any scale)
            while True:
                self._tick()
                ends = []
                for _ in range(2):
                    c = g.random()
                    if c < 0.5:
                        ends.append(self.pts(shape))
                    elif c < 0.85:
                        ends.append(self.pts(shape, ideal=True))
                    else:
                        # an ideal point as the library itself produces it: fixed point of a loxodromic isometry (eigenvector, arbitrary sign)
                        T = O.isometries(g, shape, n)
                        L = H.Isometry.standard_loxodromic(n, float(g.uniform(1.5, 3.0)))
                        Xi = H.Isometry(utils.matrix_product(utils.matrix_product(utils.invert(T.proj_data), L.proj_data), T.proj_data))
                        ends.append(np.real(np.array(Xi.fixed_point().proj_data)))
                ka, kb = ends[0][..., 1:] / ends[0][..., :1], ends[1][..., 1:] / ends[1][..., :1]
                if np.min(np.linalg.norm(ka - kb, axis=-1)) > 0.15:
                    break
            for _ in range(20):
                cand = self.rescale(np.stack(ends, axis=-2))
                if not self.lightlike_difference(cand[..., 0, :], cand[..., 1, :]):
                    break
            raw = self.supply("seg_proj", cand)
            return H.Segment(raw)
        if style < 0.4:
            k = self.supply("tan_point", O.klein(g, shape, n))
            v = self.supply("tan_vector", g.normal(size=shape + (n + 1,)))
            return H.TangentVector(H.Point(k, model="klein"), v)
        p = self.rescale(self.pts(shape), unit_rank=1)
        v = g.normal(size=shape + (n + 1,))
        raw = self.supply("tan_proj", np.stack([p, v], axis=-2))
        return H.TangentVector(raw)

    def make_int(self, shape):
        """the same classes with INTEGER-typed primary data (derived data is not integral): dtype must never leak from one block to the other"""
        g, n, kind = self.g, self.n, self.kind
        rows = 2 if kind != "polygon" else self.nv
        for _ in range(40):
            raw = np.zeros(shape + (rows, n + 1), dtype=np.int64)
            raw[..., 0] = g.integers(4, 8, size=shape + (rows,))
            raw[..., 1:] = g.integers(-2, 3, size=shape + (rows, n))
            if kind == "tangent":
                raw[..., 1, :] = g.integers(-3, 4, size=shape + (n + 1,))
            kk = raw[..., 1:] / raw[..., :1]
            if kind == "tangent":
                ok = np.all(np.abs(raw[..., 1, 1:]).sum(axis=-1) > 0)
            else:
                dist = np.linalg.norm(kk[..., :, None, :] - kk[..., None, :, :], axis=-1) + 10 * np.identity(rows)
                ok = dist.min() > 0.2
            with np.errstate(all="ignore"):
                ref = self.reference_aux(raw)
            if ok and kind == "segment":
                J = np.diag([-1.0] + [1.0] * n)
                d = (raw[..., 0, :] - raw[..., 1, :]).astype(float)
                ok = np.all(np.abs(np.einsum("...i,ij,...j->...", d, J, d)) > 0.5)          # x1 - x2 not lightlike (the library divides by it)
            if ok and kind == "polygon":
                keep, self.kind = self.kind, "segment"
                with np.errstate(all="ignore"):
                    ref = self.reference_aux(ref)           # the ideal endpoints of every edge
                self.kind = keep
                if np.all(np.isfinite(ref)):
                    J = np.diag([-1.0] + [1.0] * n)
                    e = raw.astype(float)
                    d = e - np.roll(e, -1, axis=-2)
                    ok = np.all(np.abs(np.einsum("...i,ij,...j->...", d, J, d)) > 0.5)      # v_k - v_{k+1} not lightlike (the library divides by it)
            if ok and np.all(np.isfinite(ref)) and np.abs(ref).max() < 1e6 and np.all(np.abs(ref).max(axis=-1) > 1e-6):
                self.supply("int_proj", raw)
                cls = {"polygon": H.Polygon, "segment": H.Segment, "tangent": H.TangentVector}[kind]
                with np.errstate(all="ignore"):
                    return cls(raw)
        return None

    def reference_aux(self, proj):
        """derived data from primary data by an independent few-line reference (not the library's _compute_aux_data)"""
        if self.kind in ("polygon", "ppolygon"):
            proj = np.asarray(proj)
            out = np.empty(proj.shape[:-1] + (2, proj.shape[-1]), dtype=proj.dtype)
            k = proj.shape[-2]
            for v in range(k):                                   # edge v joins vertex v and vertex v+1 (cyclically)
                out[..., v, 0, :] = proj[..., v, :]
                out[..., v, 1, :] = proj[..., (v + 1) % k, :]
            return out
        proj = np.asarray(np.real(proj), dtype=float)
        n1 = proj.shape[-1]
        J = np.diag([-1.0] + [1.0] * (n1 - 1))
        if self.kind == "tangent":
            p, v = proj[..., 0, :], proj[..., 1, :]
            vp = np.einsum("...i,ij,...j->...", v, J, p)
            pp = np.einsum("...i,ij,...j->...", p, J, p)
            return np.stack([p, v - p * (vp / pp)[..., None]], axis=-2)
        out = np.empty_like(proj)
        for idx in np.ndindex(*proj.shape[:-2]):
            x1, x2 = proj[idx]
            A, B, C = x1 @ J @ x1, x1 @ J @ x2, x2 @ J @ x2          # <s x1 + t x2, s x1 + t x2> = A s^2 + 2 B s t + C t^2
            d = math.sqrt(max(B * B - A * C, 0.0))
            q = -(B + (d if B >= 0 else -d))                       # cancellation-free roots (s:t) = (q:A) and (C:q)
            out[idx] = [q * x1 + A * x2, C * x1 + q * x2]
        return out

    def iso(self, shape=()):
        if self.kind == "ppolygon":
            T = O.invertibles(self.g, shape, self.n, np.iscomplexobj(np.zeros(1, dtype=self.dtype)))
            return P.Transformation(np.array(T.proj_data).astype(self.dtype))
        return O.isometries(self.g, shape, self.n)

    # ---- the invariant
    def coherent(self, obj):
        """stored derived data = fresh recomputation = independent reference, also as seen through the public accessors"""
        with warnings.catch_warnings():
            warnings.simplefilter("ignore")
            fr = type(obj)(np.array(obj.proj_data))
        if obj.aux_data is None:
            return "no aux_data"
        aux, proj = np.asarray(obj.aux_data), np.asarray(obj.proj_data)
        if tuple(aux.shape[:len(obj.shape)]) != tuple(obj.shape):
            return "aux shape"
        tol = max(self.tol, 2e-3 if proj.dtype == np.float32 or aux.dtype == np.float32 else 0)
        deg = self.degenerate_units(obj)
        if deg is not None and self.kind == "segment":
            # units whose stored representatives have a lightlike difference are left out (see lightlike_mask); the others are compared as usual
            keep = ~deg
            if not np.any(keep):
                return None
            with np.errstate(all="ignore"):
                ref = self.reference_aux(proj[keep])
            if not O.aux_proj_eq("segment", aux[keep], np.asarray(fr.aux_data)[keep], tol):
                return "aux != fresh recomputation"
            if not O.aux_proj_eq("segment", aux[keep], ref, max(tol, 1e-5)):
                return "aux != reference derived data"
            return None
        if not O.aux_proj_eq(self.kind, aux, fr.aux_data, tol):
            return "aux != fresh recomputation"
        ref = self.reference_aux(proj)
        if not O.aux_proj_eq(self.kind, aux, ref, max(tol, 1e-5)):
            return "aux != reference derived data"
        # the same through the accessors a user (or the drawing code) goes through
        with warnings.catch_warnings():
            warnings.simplefilter("ignore")
            try:
                if self.kind in ("polygon", "ppolygon"):
                    if not O.rows_proj_eq(obj.get_edges().proj_data, ref, max(tol, 1e-5)):
                        return "get_edges() != reference edges"
                    if not O.rows_proj_eq(obj.get_vertices().proj_data, proj, 1e-12):
                        return "get_vertices() != vertices"
                    if not O.rows_proj_eq(obj.edges, ref, max(tol, 1e-5)) or not O.rows_proj_eq(obj.vertices, proj, 1e-12):
                        return "edges/vertices properties"
                    if self.kind == "polygon" and not np.iscomplexobj(proj):
                        ie = np.asarray(obj.get_edges().ideal_endpoint_coords("projective"))
                        ir = np.asarray(type(obj.get_edges())(np.array(ref)).ideal_endpoint_coords("projective"))
                        if deg is not None:
                            ie, ir = ie[~deg], ir[~deg]            # edges with a lightlike difference of representatives: see lightlike_mask
                        if ie.size and not O.aux_proj_eq("segment", ie, ir, 1e-5):
                            return "get_edges() ideal endpoints != those of the reference edges"
                elif self.kind == "segment" and not np.iscomplexobj(proj):
                    if not O.aux_proj_eq("segment", obj.ideal_endpoint_coords("projective"), ref, 1e-5):
                        return "ideal_endpoint_coords() != reference"
                    if not O.aux_proj_eq("segment", obj.geodesic().proj_data, ref, 1e-5):
                        return "geodesic() != reference"
                    if not O.rows_proj_eq(obj.get_endpoints().proj_data, proj, 1e-12):
                        return "get_endpoints()"
                elif self.kind == "tangent" and not np.iscomplexobj(proj):
                    if not rows_pos_eq(obj.vector, ref[..., 1, :], 1e-5) or not O.rows_proj_eq(obj.point, proj[..., 0, :], 1e-12):
                        return "vector/point accessors"
            except Exception as e:
                return "accessor raised %s" % type(e).__name__
        return None

    def check_all(self, step, opname):
        for j, o in enumerate(self.objs):
            why = self.coherent(o)
            if why:
                self.bad.append({"what": "aux_stale", "why": why, "after": opname, "step": step, "object": j, "is_current": o is self.cur,
                                 "expected": "aux_data ~ type(obj)(obj.proj_data).aux_data ~ reference derived data of proj_data, also through the accessors"})
                return False
        # G1 / G2: every object answers its queries as a fresh object with the same primary data does, also after the arrays it handed out
        # were overwritten; G3: so does an unrelated object of the same class that was never part of the history
        pick = [self.cur, self.objs[int(self.g.integers(0, len(self.objs)))], self.bystander]
        for j, o in enumerate(pick):
            if np.issubdtype(np.asarray(o.proj_data).dtype, np.integer) and self.kind == "tangent":
                continue
            if self.degenerate_units(o) is not None:
                continue            # a fresh object cannot recompute these units (see lightlike_mask)
            why = O.fresh_diff(self.kind, o, self.n, max(self.tol, 1e-6), mutate=(step % 2 == 0))
            if why:
                self.bad.append({"what": "differs_from_fresh_object", "why": why, "after": opname, "step": step, "bystander": o is self.bystander,
                                 "expected": "every query on an object with a history = the same query on a fresh object with the same primary data"})
                return False
        for name, arr, snap in self.inputs:
            if not np.array_equal(arr, snap):
                if not (rows_pos_eq(arr, snap) if name == "tan_vector" else O.rows_proj_eq(arr, snap, 1e-9)):
                    self.bad.append({"what": "caller_array_moved", "after": opname, "step": step, "array": name})
                    return False
        return True

    # ---- operations
    def do(self, op, step):
        g, X = self.g, self.cur
        cls = type(X)
        shape = tuple(X.shape)
        tot = int(np.prod(shape)) if shape else 1
        if op in ("stack", "combine") and tot > 30:
            op = "index"                    # keep composites small: the history goes on with a part of the object
        if op == "copy":
            Y = cls(X)
        elif op == "apply":
            A = self.iso(() if g.random() < 0.6 else shape)
            Y = A @ X
        elif op == "reshape":
            cands = [(tot,), (1, tot), (tot, 1)] + [(a, tot // a) for a in (2, 3) if tot % a == 0] + ([()] if tot == 1 else [])
            Y = X.reshape(cands[int(g.integers(0, len(cands)))])
        elif op == "flatten":
            Y = X.flatten_to_unit()
        elif op == "index":
            style = g.random()
            nv = X.proj_data.shape[-2]
            if self.kind in ("polygon", "ppolygon") and nv >= 4 and style < 0.3:
                # keys that reach into the VERTEX axis: the result is the polygon on a sub-list of the vertices (edges must follow)
                vk = [slice(1, None), slice(None, None, -1), slice(None, 3), [0, 2, 3], slice(None, None, 1)][int(g.integers(0, 5))]
                key = (Ellipsis, vk, slice(None)) if g.random() < 0.5 or not shape else tuple([slice(None)] * len(shape)) + (vk,)
                Y = X[key]
            elif self.kind == "segment" and style < 0.15:
                Y = X[..., ::-1, :]                 # the same segments with their endpoints exchanged
            elif not shape:
                if style < 0.6:
                    return True        # nothing to index: no-op
                Y = X[...]
            elif style < 0.55:
                key = tuple(int(g.integers(0, d)) for d in shape[:int(g.integers(1, len(shape) + 1))])
                Y = X[key if len(key) > 1 else key[0]]
            elif style < 0.7:
                lo = int(g.integers(0, shape[0]))
                Y = X[lo:int(g.integers(lo + 1, shape[0] + 1))]
            elif style < 0.8:
                Y = X[::-1] if g.random() < 0.5 else X[::2]
            elif style < 0.9:
                Y = X[[int(t) for t in g.integers(0, shape[0], size=int(g.integers(1, 4)))]]      # fancy index (repeats allowed)
            else:
                Y = X[:, -1] if len(shape) > 1 else X[...]
        elif op == "setitem":
            if len(self.objs) > 1 and g.random() < 0.35:
                # assign into an EARLIER object (an original of which the current one may be a copy, a reshape or a flattening, or vice versa):
                # objects made from one another may share arrays, and none of the others may move
                older = [o for o in self.objs if o is not X and type(o) is cls and tuple(o.shape)]
                if older:
                    T = older[int(g.integers(0, len(older)))]
                    keep, self.nv = self.nv, int(np.asarray(T.proj_data).shape[-2])
                    self.force_int = np.issubdtype(np.asarray(T.proj_data).dtype, np.integer)
                    V = self.make(tuple(T.shape)[1:])
                    self.nv, self.force_int = keep, False
                    T[int(g.integers(0, T.shape[0]))] = V if g.random() < 0.5 else np.array(V.proj_data)
                    self.objs.append(V)
                    return self.check_all(step, "setitem_on_earlier_object")
            if shape:
                style = g.random()
                if style < 0.5:
                    key = tuple(int(g.integers(0, d)) for d in shape[:int(g.integers(1, len(shape) + 1))])
                    vshape = shape[len(key):]
                    key = key if len(key) > 1 else key[0]
                elif style < 0.6:
                    key, vshape = -int(g.integers(1, shape[0] + 1)), shape[1:]           # negative index
                elif style < 0.75:
                    lo = int(g.integers(0, shape[0]))
                    hi = int(g.integers(lo + 1, shape[0] + 1))
                    key = slice(lo, hi)                                                     # slice: a block of units, or one unit broadcast over it
                    vshape = ((hi - lo,) + shape[1:]) if g.random() < 0.5 else shape[1:]
                elif style < 0.9:
                    mask = g.random(shape[0]) < 0.5
                    mask[int(g.integers(0, shape[0]))] = True
                    key = mask                                                              # boolean mask over the first axis
                    vshape = ((int(mask.sum()),) + shape[1:]) if g.random() < 0.5 else shape[1:]
                else:
                    key, vshape = Ellipsis, (shape if g.random() < 0.5 else shape[1:])      # everything at once
            else:
                key, vshape = Ellipsis, ()
            self.force_int = np.issubdtype(np.asarray(X.proj_data).dtype, np.integer)
            V = self.make(vshape)
            self.force_int = False
            c = g.random()
            if c < 0.4:
                val = V                                     # an object
            elif c < 0.8:
                val = self.supply("setitem_value", np.array(V.proj_data))      # a raw array of primary data
            elif np.issubdtype(np.asarray(X.proj_data).dtype, np.integer):
                val = V                                     # (floats assigned into integer data would be truncated by numpy itself)
            else:
                val = self.iso() @ V
            X[key] = val
            Y = X
            if val is not V and hasattr(val, "proj_data"):
                self.objs.append(val)
            self.objs.append(V)
        elif op == "stack":
            Z = self.make(shape) if g.random() < 0.5 else self.iso() @ X
            self.objs.append(Z)
            Y = cls([X, Z] if g.random() < 0.5 else [Z, X, Z])
        elif op == "combine":
            Z = self.make(shape if g.random() < 0.5 else (2,))
            self.objs.append(Z)
            Y = cls.combine([X, Z])
            if type(Y) is not cls:
                self.bad.append({"what": "combine_type", "got": type(Y).__name__})
                return False
            want = tot + (int(np.prod(Z.shape)) if Z.shape else 1)
            if tuple(Y.shape) != (want,):
                self.bad.append({"what": "combine_shape", "got": list(Y.shape), "expected": [want]})
                return False
            # units in order: first X's (row-major), then Z's
            fx, fz = np.array(X.proj_data).reshape((-1,) + X.proj_data.shape[-2:]), np.array(Z.proj_data).reshape((-1,) + Z.proj_data.shape[-2:])
            if not np.array_equal(np.array(Y.proj_data), np.concatenate([fx, fz], axis=0)):
                self.bad.append({"what": "combine_units", "expected": "flattened units of the arguments, in order"})
                return False
        elif op == "astype":
            with warnings.catch_warnings():
                warnings.simplefilter("ignore")
                if self.kind == "ppolygon":
                    Y = X.astype("complex128") if g.random() < 0.7 else X.astype(X.proj_data.dtype)
                elif g.random() < 0.5:
                    Y = X.astype("float64")
                else:
                    C = X.astype("complex128")
                    self.objs.append(C)
                    Y = C.astype("float64")
        else:
            raise ValueError(op)
        if type(Y) is not cls:
            self.bad.append({"what": "type_changed", "after": op, "got": type(Y).__name__})
            return False
        self.cur = Y
        if self.kind in ("polygon", "ppolygon"):
            self.nv = int(np.asarray(Y.proj_data).shape[-2])
        if Y is not X:
            self.objs.append(Y)
        return self.check_all(step, op)

    # ---- queries
    def snapshot(self):
        snap = []
        for o in self.objs:
            snap.append((np.array(o.proj_data), None if o.aux_data is None else np.array(o.aux_data)))
        return snap, [a.copy() for _, a, _ in self.inputs]

    def same_geometry(self, new, old, tol=1e-9):
        """the property: the represented geometry is unchanged.  Point rows may be rescaled by any non-zero scalar (the sheet of the
        representative is not part of the point); a tangent vector's direction row (index 1 of the unit) only by a positive one."""
        new, old = np.asarray(new), np.asarray(old)
        if new.shape != old.shape:
            return False
        if self.kind == "tangent" and new.ndim >= 2 and new.shape[-2] == 2:
            return O.rows_proj_eq(new[..., 0, :], old[..., 0, :], tol) and rows_pos_eq(new[..., 1, :], old[..., 1, :], tol)
        undefined = np.any(np.isnan(old), axis=-1) & np.any(np.isnan(new), axis=-1)
        if np.any(undefined):
            # rows that were not defined before and are not defined after (derived data the library could not compute: see lightlike_mask) did not move
            new, old = new[~undefined], old[~undefined]
            if new.size == 0:
                return True
        return O.rows_proj_eq(new, old, tol)

    def unmoved(self, snap, q, step):
        osnap, isnap = snap
        for j, (o, (p0, a0)) in enumerate(zip(self.objs, osnap)):
            if not self.same_geometry(o.proj_data, p0, max(1e-9, self.tol * 1e-3)):
                self.bad.append({"what": "query_moved_object", "query": q, "step": step, "object": j, "block": "proj",
                                 "expected": "stored rows unchanged as projective points (tangent directions: up to a positive scalar)"})
                return False
            if a0 is not None and not self.same_geometry(o.aux_data, a0, 1e-7):
                self.bad.append({"what": "query_moved_object", "query": q, "step": step, "object": j, "block": "aux"})
                return False
        for (name, arr, _), a0 in zip(self.inputs, isnap):
            ok = rows_pos_eq(arr, a0) if name == "tan_vector" else O.rows_proj_eq(arr, a0, 1e-9)
            if not ok:
                self.bad.append({"what": "query_moved_caller_array", "query": q, "step": step, "array": name})
                return False
        return True

    @staticmethod
    def frames_of(arr):
        """the stored array itself (or a VIEW of its first two rows per unit) when it is a stack of valid partial flags for the module-level
        frame helpers: real floating-point data, first row timelike, second row with a non-negligible component orthogonal to the first; else None"""
        if not isinstance(arr, np.ndarray) or arr.dtype.kind != "f" or arr.ndim < 2 or arr.shape[-2] < 2 or arr.size == 0:
            return None
        fr = arr if arr.shape[-2] == 2 else arr[..., :2, :]
        if not np.all(np.isfinite(fr)):
            return None
        a, b = np.array(fr[..., 0, :], dtype=float), np.array(fr[..., 1, :], dtype=float)
        mink = lambda x, y: -x[..., 0] * y[..., 0] + np.sum(x[..., 1:] * y[..., 1:], axis=-1)
        aa = mink(a, a)
        if not np.all(aa < -1e-3 * np.sum(a * a, axis=-1)):
            return None
        r = b - (mink(a, b) / aa)[..., None] * a
        if not np.all(mink(r, r) > 1e-6 * np.sum(b * b, axis=-1)) or not np.all(np.sum(b * b, axis=-1) > 0):
            return None
        return fr

    def helpers_on_own_arrays(self, X):
        """the module-level helpers of geometry_tools.utils / hyperbolic are handed the object's OWN stored arrays (as the library's methods and as
        user code do: utils.find_isometry(seg.minkowski, seg.proj_data)); the snapshot taken before is compared afterwards by `unmoved`.
        (utils.normalize is not in the list: rescaling rows in place by positive factors is its documented way of working.)"""
        done = False
        for arr in (X.proj_data, X.aux_data):
            fr = self.frames_of(arr)
            if fr is None:
                continue
            done = True
            form = X.minkowski
            utils.indefinite_orthogonalize(form, fr)
            utils.find_isometry(form, fr)
            utils.find_isometry(form, fr, force_oriented=True)
            sz = np.sqrt(np.sum(np.asarray(fr, dtype=float) ** 2, axis=-1))
            if np.all((sz > 1e-3) & (sz < 1e3)):
                # (the complement is found as a kernel with an ABSOLUTE tolerance on singular values: representatives of ordinary size only)
                utils.orthogonal_complement(fr, form)
                utils.orthogonal_complement(fr, form, normalize=None)
            utils.projection(fr[..., 1, :], fr[..., 0, :], form)
            utils.apply_bilinear(fr[..., 0, :], fr[..., 1, :], form)
            utils.normsq(fr, form)
            utils.matrix_product(fr, form)
            for idx in itertools.islice(np.ndindex(*fr.shape[:-2]), 3):
                fl = fr[idx]                                  # one partial flag (a view of the stored array); timelike_to wants timelike rows only
                if not (-fl[1, 0] ** 2 + np.sum(fl[1, 1:] ** 2) < -1e-3 * np.sum(fl[1] ** 2)):
                    fl = fl[:1]
                H.timelike_to(fl)
                H.timelike_to(fl, force_oriented=True)
                H.project_to_hyperboloid(fr[idx][0], fr[idx][1])
        return done

    def query(self, q, step):
        X, g, kind = self.cur, self.g, self.kind
        if len(self.objs) > 1 and g.random() < 0.25:
            same = [o for o in self.objs if type(o) is type(self.cur) and (self.kind == "ppolygon" or not np.iscomplexobj(o.proj_data))]
            if same:
                X = same[int(g.integers(0, len(same)))]          # query an earlier object: the current one (maybe its copy) must not move either
        snap = self.snapshot()
        extra = []
        with warnings.catch_warnings():
            warnings.simplefilter("ignore")
            try:
                if q == "coords":
                    for m in (("projective",) if kind == "tangent" else ("klein", "projective")):
                        X.coords(m)
                    pts = H.Point(X)           # shares nothing? (copy of proj_data) -- then every model, incl. the in-place hyperboloid one
                    for m in (("projective", "hyperboloid") if kind == "tangent" else O.MODELS):
                        pts.coords(m)
                    extra.append(pts)
                elif q == "p_edges":
                    X.get_edges().endpoint_projective_coords()
                elif q == "p_vertices":
                    X.get_vertices().projective_coords()
                elif q == "p_affine":
                    c = int(g.integers(0, self.n + 1))
                    if np.all(np.asarray(X.proj_data)[..., c] != 0):
                        X.affine_coords(chart_index=c)
                elif q == "p_chart":
                    X.in_standard_chart()
                elif q in ("self_hyperboloid", "self_distance") and self.inexactly_null(X):
                    X.coords("projective")
                elif q == "self_hyperboloid":
                    # every class here is a Point subclass: the inherited coordinate queries act on (and write into) the object's own data
                    X.coords("hyperboloid")
                    X.hyperboloid_coords()
                    X.coords("projective")
                elif q == "self_distance":
                    keep, self.nv = self.nv, int(np.asarray(X.proj_data).shape[-2])
                    W = self.make(tuple(X.shape))
                    self.nv = keep
                    self.objs.append(W)
                    snap = self.snapshot()
                    if not self.inexactly_null(W):
                        X.distance(W)
                        W.distance(X)
                elif q == "get_edges":
                    X.get_edges().endpoint_coords("poincare")
                elif q == "get_vertices":
                    X.get_vertices().coords("hyperboloid")
                elif q == "edge_circles":
                    X.get_edges().circle_parameters(model=["poincare", "halfspace"][int(g.integers(0, 2))])
                elif q == "circle_parameters":
                    if kind == "polygon":
                        try:
                            X.circle_parameters()          # raises TypeError on the pinned tree (reported); must still not move anything
                        except TypeError:
                            pass
                    else:
                        X.circle_parameters(model=["poincare", "halfspace"][int(g.integers(0, 2))], degrees=bool(g.integers(0, 2)))
                elif q == "edge_ideal":
                    X.get_edges().ideal_endpoint_coords("klein")
                elif q == "endpoint_coords":
                    for m in O.MODELS:
                        X.endpoint_coords(m)
                elif q == "ideal_endpoint_coords":
                    for m in ("klein", "poincare", "projective"):
                        X.ideal_endpoint_coords(m)
                elif q == "geodesic":
                    X.geodesic().circle_parameters()
                elif q == "end_pair":
                    a, b = X.get_end_pair(as_points=True)
                    a.distance(b)
                    X.get_end_pair()
                    X.get_endpoints().coords("hyperboloid")
                elif q == "sphere_parameters":
                    X.sphere_parameters(model=["poincare", "halfspace"][int(g.integers(0, 2))])
                elif q == "endpoint_distance":
                    a, b = X.get_end_pair(as_points=True)
                    a.distance(b)
                    b.distance(a)
                elif q == "endpoint_origin_to":
                    a, b = X.get_end_pair(as_points=True)
                    a.origin_to()
                    b.origin_to()
                elif q == "normalized":
                    X.normalized()
                elif q == "origin_to":
                    X.origin_to()
                elif q == "angle":
                    W = H.TangentVector(H.Point(np.array(X.proj_data[..., 0, :])), g.normal(size=tuple(X.shape) + (self.n + 1,)))
                    extra.append(W)
                    self.objs.append(W)
                    snap = self.snapshot()
                    X.angle(W)
                elif q == "point_along":
                    X.normalized().point_along(0.5)
                    X.point_along(0.3)
                elif q == "isometry_to":
                    W = self.iso() @ X
                    self.objs.append(W)
                    snap = self.snapshot()
                    X.isometry_to(W)
                elif q == "point_vector":
                    p = H.Point(X.point)
                    p.coords("hyperboloid")
                    _ = X.vector
                elif q == "base_distance":
                    p = H.Point(X.point)
                    p.distance(H.Point.get_origin(self.n, tuple(X.shape)))
                    p.origin_to()
                elif q == "helpers_on_own_arrays":
                    if not self.helpers_on_own_arrays(X):
                        X.coords("projective")
                else:
                    raise ValueError(q)
            except Exception as e:
                if self.degenerate_units(X) is None:
                    self.bad.append({"what": "query_raised", "query": q, "step": step, "exc": type(e).__name__, "msg": str(e)[:120]})
                    return False
                # the queried object has units whose derived data cannot be recomputed (NaN: see lightlike_mask): a refusal is not held against it
        return self.unmoved(snap, q, step) and self.check_all(step, "query:" + q)


def run_hist(inp):
    try:
        h = Hist(inp["kind"], inp["shape"], inp["n"], inp["seed"])
    except HarnessGiveUp:
        return {"bad": [], "steps": 0, "objects": 0, "gave_up": True}
    if not h.check_all(0, "construct"):
        return {"bad": h.bad}
    for step, op in enumerate(inp["ops"], 1):
        if op.startswith("q:"):
            ok = h.query(op[2:], step)
        else:
            try:
                h._ticks = 0
                ok = h.do(op, step)
            except HarnessGiveUp:
                break
            except Exception as e:
                if type(e).__name__ == "Timeout":
                    raise              # the runner's own time limit is not an observation of the implementation
                h.bad.append({"what": "op_raised", "op": op, "step": step, "exc": type(e).__name__, "msg": str(e)[:160]})
                ok = False
        if not ok:
            break
    return {"bad": h.bad, "steps": len(inp["ops"]), "objects": len(h.objs)}


def gen_hist(rng, n):
    exhaustive = n >= 20000
    if exhaustive:
        # thorough: EVERY history of depth <= 4 (2800) over the seven operations that rewrite or re-index data for each class on one composite shape
        # (a different one per class) and of depth <= 3 (399) on the two other shapes, each operation followed by one query; the two
        # value-preserving operations (copy, astype) are inserted at random positions  (~11000 histories: the tier stays under ten minutes)
        core = [o for o in OPS if o not in ("copy", "astype")]
        for ki, kind in enumerate(AUXK[:3]):
            for si, shape in enumerate(HSHAPES):
                for depth in range(1, 5 if si == ki % len(HSHAPES) else 4):
                    for ops in itertools.product(core, repeat=depth):
                        seq = []
                        for o in ops:
                            if rng.random() < 0.15:
                                seq.append(rng.choice(["copy", "astype"]))
                            seq += [o, "q:" + rng.choice(QUERIES[kind])]
                        yield {"op": "history", "kind": kind, "shape": shape, "n": 2, "seed": rng.randrange(10 ** 9), "ops": seq}
        for c in range(1200):          # projective polygons with complex / float32 / float64 data: random histories
            seq = []
            for _ in range(rng.randint(1, 6)):
                seq += [rng.choice(OPS), "q:" + rng.choice(QUERIES["ppolygon"])]
            yield {"op": "history", "kind": "ppolygon", "shape": HSHAPES[c % 3], "n": rng.choice([2, 3]), "seed": rng.randrange(10 ** 9), "ops": seq}
        return
    for c in range(n):
        kind = AUXK[c % len(AUXK)]
        shape = HSHAPES[(c // len(AUXK)) % 3]
        depth = rng.randint(1, 8)
        seq = []
        for _ in range(depth):
            seq.append(rng.choice(OPS))
            for _ in range(rng.choice([0, 1, 1, 2])):
                seq.append("q:" + rng.choice(QUERIES[kind]))
        yield {"op": "history", "kind": kind, "shape": shape, "n": rng.choice([2, 2, 3]), "seed": rng.randrange(10 ** 9), "ops": seq}


def judge_hist(inp, obs, lr):
    if "exc" in obs:
        return {"expected": "history to run", "observed": obs, "tags": {"exc": obs["exc"], "kind": inp["kind"]}}
    if obs.get("bad"):
        b = obs["bad"][0]
        tags = {"what": b.get("what"), "kind": inp["kind"]}
        for k in ("after", "op", "query", "exc", "block", "why"):
            if k in b:
                tags[k] = b[k]
        return {"expected": b.get("expected", "derived data coherent / query leaves objects in place"), "observed": b, "tags": tags}
    return None


# ---- queries on plain points and caller-supplied arrays (module-level functions write in place)
def gen_pq(rng, n):
    for c in range(n):
        yield {"op": "point_queries", "shape": rng.choice(O.SHAPES), "n": rng.choice([2, 3, 4]), "seed": rng.randrange(10 ** 9)}


def run_pq(inp):
    g = O.G(inp["seed"])
    shape, n = tuple(inp["shape"]), inp["n"]
    bad = []
    k1, k2 = O.klein(g, shape, n, 0.9), O.klein(g, shape, n, 0.9)
    sc = g.uniform(0.3, 3.0, shape + (1,)) * g.choice([-1.0, 1.0], shape + (1,))
    raw = np.concatenate([np.ones(shape + (1,)), k1], axis=-1) * sc          # caller's projective coordinates, either sign
    raw0 = raw.copy()
    Pt = H.Point(raw)
    Qt = H.Point(k2, model="klein")
    k2_0 = k2.copy()

    def klein_of(a):
        a = np.asarray(a)
        return a[..., 1:] / a[..., :1]

    def same(what):
        if not O.allclose(klein_of(Pt.proj_data), k1, 1e-9) or not O.allclose(klein_of(Qt.proj_data), k2_0, 1e-9):
            bad.append({"what": "point_moved", "query": what})
            return False
        if not np.array_equal(raw, raw0) and not O.rows_proj_eq(raw, raw0, 1e-9):
            bad.append({"what": "caller_array_moved", "query": what, "array": "Point(raw)"})
            return False
        if not np.array_equal(k2, k2_0):
            bad.append({"what": "caller_array_moved", "query": what, "array": "Point(k, model=klein)"})
            return False
        return True

    with warnings.catch_warnings():
        warnings.simplefilter("ignore")
        for m in O.MODELS:
            p0 = np.array(Pt.proj_data)
            Pt.coords(m)
            if not O.rows_proj_eq(Pt.proj_data, p0, 1e-9):
                bad.append({"what": "coords_moved_point", "model": m})
            if not same("coords:" + m):
                break
        p0, q0 = np.array(Pt.proj_data), np.array(Qt.proj_data)
        Pt.distance(Qt)
        Qt.distance(Pt)
        Pt.origin_to()
        Pt.unit_tangent_towards(Qt)
        if not (O.rows_proj_eq(Pt.proj_data, p0, 1e-9) and O.rows_proj_eq(Qt.proj_data, q0, 1e-9)):
            bad.append({"what": "query_moved_point", "query": "distance/origin_to/unit_tangent_towards"})
        same("distance/origin_to/unit_tangent_towards")
        # module-level functions on caller-supplied arrays
        arr = np.concatenate([np.ones(shape + (1,)), k1], axis=-1) * np.abs(sc)
        a0 = arr.copy()
        H.hyperboloid_coords(arr)
        if not O.rows_proj_eq(arr, a0, 1e-9):
            bad.append({"what": "caller_array_moved", "query": "hyperbolic.hyperboloid_coords(array)"})
        H.kleinian_coords(arr)
        if not O.rows_proj_eq(arr, a0, 1e-9):
            bad.append({"what": "caller_array_moved", "query": "hyperbolic.kleinian_coords(array)"})
        if shape == ():          # (spacelike_to / timelike_to read a 2-d array as ONE partial flag, not as a composite)
            v = g.normal(size=shape + (n + 1,))
            v[..., 0] = 0.5 * np.linalg.norm(v[..., 1:], axis=-1) * g.uniform(-1, 1, shape)
            v0 = v.copy()
            H.spacelike_to(v)
            if not O.rows_proj_eq(v, v0, 1e-9):
                bad.append({"what": "caller_array_moved", "query": "hyperbolic.spacelike_to(array)"})
            t = arr.copy()
            t0 = t.copy()
            H.timelike_to(t)
            if not O.rows_proj_eq(t, t0, 1e-9):
                bad.append({"what": "caller_array_moved", "query": "hyperbolic.timelike_to(array)"})
        # the frame helpers on a caller-supplied stack of partial flags (point, direction): float64 and float32, composite shapes
        for dt, tl in ((np.float64, 1e-9), (np.float32, 1e-4)):
            fr = np.stack([np.concatenate([np.ones(shape + (1,)), k1], axis=-1) * np.abs(sc), g.normal(size=shape + (n + 1,))], axis=-2).astype(dt)
            f0 = fr.copy()
            form = H.minkowski(n + 1)
            for nm, call in (("utils.indefinite_orthogonalize(form, frames)", lambda: utils.indefinite_orthogonalize(form, fr)),
                             ("utils.find_isometry(form, frames)", lambda: utils.find_isometry(form, fr)),
                             ("utils.find_isometry(form, frames, force_oriented=True)", lambda: utils.find_isometry(form, fr, force_oriented=True)),
                             ("utils.orthogonal_complement(frames, form)", lambda: utils.orthogonal_complement(fr, form)),
                             ("utils.projection(rows, rows, form)", lambda: utils.projection(fr[..., 1, :], fr[..., 0, :], form))):
                call()
                if not O.rows_proj_eq(fr, f0, tl):
                    bad.append({"what": "caller_array_moved", "query": nm, "dtype": np.dtype(dt).name,
                                "expected": "the caller's frames represent the same vectors after the call"})
                    break
        # fixed points of an isometry: eig must not touch the matrix
        T = O.isometries(g, shape, 2)
        L = H.Isometry.standard_loxodromic(2, 2.0)
        X = H.Isometry(utils.matrix_product(utils.matrix_product(utils.invert(T.proj_data), L.proj_data), T.proj_data))
        m0 = np.array(X.proj_data)
        X.fixed_point_pair()
        X.fixed_point()
        X.axis()
        if not np.array_equal(np.array(X.proj_data), m0):
            bad.append({"what": "isometry_moved", "query": "fixed points"})
    return {"bad": bad}


# ------------------------------------------------------------------ correspondence: exact-rational histories vs the Lean state machine
from vlib import q as Q


def _riso(rng, n, k=3):
    """random rational matrix preserving the Minkowski form under the right action (A J A^T = J): product of boosts and rotations"""
    d = n + 1
    M = [[F(int(i == j)) for j in range(d)] for i in range(d)]

    def mul(A, B):
        return [[sum(A[i][k] * B[k][j] for k in range(d)) for j in range(d)] for i in range(d)]
    for _ in range(k):
        E = [[F(int(i == j)) for j in range(d)] for i in range(d)]
        if rng.random() < 0.5 or n < 2:
            ch, sh, _ = Q.rboost(rng, 3)
            i = rng.randint(1, n)
            E[0][0], E[0][i], E[i][0], E[i][i] = ch, sh, sh, ch
        else:
            c, s_ = Q.rrot(rng, 3)
            i, j = rng.sample(range(1, n + 1), 2)
            E[i][i], E[i][j], E[j][i], E[j][j] = c, -s_, s_, c
        M = mul(M, E)
    return M


def _rowmul(x, M):
    d = len(M)
    return [sum(x[k] * M[k][j] for k in range(d)) for j in range(d)]


PYTH = [(F(3, 5), F(4, 5)), (F(5, 13), F(12, 13)), (F(4, 5), F(3, 5)), (F(1), F(0)), (F(0), F(1)), (F(8, 17), F(15, 17))]


def _runit(rng, kind, n):
    """one exact-rational unit of primary data for which every root the library takes is rational"""
    B = _riso(rng, n, 2)
    lam = F(rng.randint(1, 4), rng.randint(1, 3))
    if kind == "point":
        p = Q.rball(rng, n, F(4, 5), 6)
        a = sum(x * x for x in p)
        s = lam * rng.choice([1, -1])
        return [s * (1 + a)] + [s * 2 * x for x in p]
    if kind in ("polygon", "ppolygon"):
        return [[F(1)] + Q.rball(rng, n, F(9, 10), 8) for _ in range(3)]
    e0 = [F(1)] + [F(0)] * n
    c, s_ = rng.choice(PYTH)
    rad = F(rng.randint(1, 4), 5)
    w = [F(0), rad * c, rad * s_] + [F(0)] * (n - 2)
    sgn = lambda: rng.choice([1, -1])
    if kind == "segment":
        # every combination interior/ideal for the two endpoints, each with its own non-zero factor of either sign; the discriminant of the
        # library's quadratic is a rational square in all of them (Gram entries are isometry-invariant, an ideal endpoint makes it 4<x1,x2>^2)
        mu = F(rng.randint(1, 3), rng.randint(1, 2)) * sgn()
        lam = lam * sgn()
        while True:
            style = rng.choice(["oo", "oo", "oi", "io", "ii"])
            ip = lambda: [F(1)] + Q.rball(rng, n, F(9, 10), 6)
            idl = lambda: [F(1)] + (Q.rsphere(rng, n) if n > 1 else [F(rng.choice([1, -1]))])
            if style == "oo":
                x1, x2 = [F(1)] + w[1:], e0                       # Klein point with rational norm, and the origin
            elif style == "oi":
                x1, x2 = ip(), idl()
            elif style == "io":
                x1, x2 = idl(), ip()
            else:
                x1, x2 = idl(), idl()
            r1, r2 = [lam * t for t in _rowmul(x1, B)], [mu * t for t in _rowmul(x2, B)]
            mk = lambda x, y: -x[0] * y[0] + sum(a * b for a, b in zip(x[1:], y[1:]))
            a = mk(r1, r1) - 2 * mk(r1, r2) + mk(r2, r2)
            if a != 0 and x1 != x2:                                  # (a = 0: the library divides by zero)
                return [r1, r2]
    if kind == "tangent":
        nu = F(rng.randint(-2, 2), 2)
        v = [w[k] + nu * e0[k] for k in range(n + 1)]
        s1, s2 = lam * sgn(), sgn()
        return [[s1 * t for t in _rowmul(e0, B)], [s2 * t for t in _rowmul(v, B)]]
    raise ValueError(kind)


def _rcomp(rng, kind, shape, n):
    cnt = int(np.prod(shape)) if shape else 1
    units = [_runit(rng, kind, n) for _ in range(cnt)]
    flat = []
    for u in units:
        if kind == "point":
            flat += u
        else:
            for row in u:
                flat += row
    ushape = [n + 1] if kind == "point" else [len(units[0]), n + 1]
    return N.enc_q(list(shape) + ushape, flat)


CORR_OPS = ["copy", "apply", "reshape", "flatten", "index", "setitem", "stack", "combine", "astype"]
CORR_Q = {"point": ["hyperboloid", "origin_to", "coords"], "polygon": ["coords"], "ppolygon": ["coords"], "segment": ["circle_parameters", "coords"],
          "tangent": ["normalized", "tangent_origin_to", "coords"]}


def gen_corr(rng, n):
    for c in range(n):
        kind = ["polygon", "tangent", "segment", "point", "ppolygon"][c % 5]
        dim = 2
        shape = rng.choice(HSHAPES)
        ops = []
        cur = list(shape)
        for _ in range(rng.randint(1, 6)):
            op = rng.choice(CORR_OPS)
            tot = int(np.prod(cur)) if cur else 1
            if op == "apply":
                A = _riso(rng, dim, 2)
                ops.append({"op": "apply", "A": N.enc_q([dim + 1, dim + 1], [x for r_ in A for x in r_])})
            elif op == "reshape":
                cands = [[tot], [1, tot], [tot, 1]] + [[a, tot // a] for a in (2, 3) if tot % a == 0]
                cur = rng.choice(cands)
                ops.append({"op": "reshape", "s": cur})
            elif op == "flatten":
                cur = [tot]
                ops.append({"op": "flatten"})
            elif op == "index":
                if not cur:
                    continue
                k = rng.randrange(cur[0])
                cur = cur[1:]
                ops.append({"op": "index", "k": k})
            elif op == "setitem":
                if not cur:
                    continue
                ops.append({"op": "setitem", "k": rng.randrange(cur[0]), "v": _rcomp(rng, kind, cur[1:], dim)})
            elif op == "stack":
                m = rng.randint(1, 2)
                ops.append({"op": "stack", "others": [{"proj": _rcomp(rng, kind, cur, dim)} for _ in range(m)]})
                cur = [m + 1] + cur
            elif op == "combine":
                oshape = rng.choice([cur, [2], []])
                ops.append({"op": "combine", "others": [{"proj": _rcomp(rng, kind, oshape, dim)}]})
                cur = [tot + (int(np.prod(oshape)) if oshape else 1)]
            else:
                ops.append({"op": op})
            if rng.random() < 0.5:
                ops.append({"op": "q", "name": rng.choice(CORR_Q[kind])})
        yield {"kind": kind, "n": dim, "proj": _rcomp(rng, kind, shape, dim), "ops": ops}


_CLS = {"polygon": H.Polygon, "tangent": H.TangentVector, "segment": H.Segment, "point": H.Point, "ppolygon": P.Polygon}
_LEANKIND = {"ppolygon": "polygon"}


def _state(X):
    return {"proj": np.asarray(X.proj_data, dtype=float).tolist(), "aux": None if X.aux_data is None else np.asarray(X.aux_data, dtype=float).tolist(),
            "shape": list(X.shape)}


def run_corr(inp):
    cls = _CLS[inp["kind"]]
    X = cls(N.dec(inp["proj"]))
    out = [_state(X)]
    with warnings.catch_warnings():
        warnings.simplefilter("ignore")
        for s in inp["ops"]:
            op = s["op"]
            if op == "copy":
                X = cls(X)
            elif op == "astype":
                X = X.astype("float64")
            elif op == "flatten":
                X = X.flatten_to_unit()
            elif op == "apply":
                X = (P.Transformation if inp["kind"] == "ppolygon" else H.Isometry)(N.dec(s["A"])) @ X
            elif op == "reshape":
                X = X.reshape(tuple(s["s"]))
            elif op == "index":
                X = X[s["k"]]
            elif op == "setitem":
                X[s["k"]] = N.dec(s["v"])
            elif op == "stack":
                X = cls([X] + [cls(N.dec(o["proj"])) for o in s["others"]])
            elif op == "combine":
                X = cls.combine([X] + [cls(N.dec(o["proj"])) for o in s["others"]])
            elif op == "q":
                nm = s["name"]
                if nm == "coords":
                    if inp["kind"] == "ppolygon":
                        X.affine_coords(chart_index=0)
                    else:
                        X.coords("projective" if inp["kind"] == "tangent" else "klein")
                elif nm == "hyperboloid":
                    X.coords("hyperboloid")
                elif nm == "origin_to":
                    X.origin_to()
                elif nm == "normalized":
                    X.normalized()
                elif nm == "tangent_origin_to":
                    X.origin_to()
                elif nm == "circle_parameters":
                    X.circle_parameters()
            out.append(_state(X))
    return {"states": out}


def lean_corr(inp, obs):
    return [{"op": "c11.run", "kind": _LEANKIND.get(inp["kind"], inp["kind"]), "proj": inp["proj"], "ops": inp["ops"]}]


def judge_corr(inp, obs, lr):
    res = lr[0]
    kind = inp["kind"]
    if "err" in res:
        if res["err"] == "irrational-root":
            return None if "exc" not in obs else {"expected": "history to run", "observed": obs, "tags": {"exc": obs["exc"], "kind": kind}}
        if "exc" in obs:
            return None          # both refuse (e.g. reshape to an impossible shape)
        return {"expected": res, "observed": "implementation ran", "tags": {"kind": kind, "model_err": res["err"][:40]}}
    if "exc" in obs:
        return {"expected": "model ran the history", "observed": obs, "tags": {"kind": kind, "impl_raises": obs["exc"]}, "property_failure": True}
    ms = res["ok"]
    if len(ms) != len(obs["states"]):
        return {"expected": len(ms), "observed": len(obs["states"]), "tags": {"kind": kind, "length": True}}
    names = ["construct"] + [s["op"] + (":" + s["name"] if s["op"] == "q" else "") for s in inp["ops"]]
    for k, (m, st) in enumerate(zip(ms, obs["states"])):
        tag = {"kind": kind, "after": names[k], "step": k}
        if m["shape"] != st["shape"]:
            return {"expected": {"shape": m["shape"]}, "observed": {"shape": st["shape"]}, "tags": dict(tag, what="shape")}
        mp = N.dec(m["proj"])
        # objects are projective: primary and derived data are compared row by row up to a non-zero scalar
        if np.asarray(st["proj"]).shape != mp.shape or not O.rows_proj_eq(st["proj"], mp, 1e-8):
            return {"expected": {"proj": mp.tolist()}, "observed": {"proj": st["proj"]}, "tags": dict(tag, what="proj")}
        if (m["aux"] is None) != (st["aux"] is None):
            return {"expected": {"aux": m["aux"] is not None}, "observed": {"aux": st["aux"] is not None}, "tags": dict(tag, what="aux-presence")}
        if m["aux"] is not None:
            ma = N.dec(m["aux"])
            ia = np.array(st["aux"])
            ok = ma.shape == ia.shape and O.aux_proj_eq(kind, ia, ma, 1e-7)
            if not ok:
                return {"expected": {"aux": ma.tolist()}, "observed": {"aux": st["aux"]}, "tags": dict(tag, what="aux")}
    return None


def clauses():
    return [
        Clause("history_corr", "corr", gen_corr, run_corr, judge_corr, lean=lean_corr, site="projective.ProjectiveObject operations + in-place queries",
               budget={"quick": 300, "thorough": 4000},
               what="exact-rational histories (<= 6 operations interleaved with the in-place queries) on polygons (hyperbolic and projective class), tangent vectors, segments and points of shapes (), (2,), (2,3): "
                    "after every step composite shape, proj_data and aux_data of the implementation vs the Lean state machine Obj.step / Obj.afterQuery executed over Q "
                    "(data chosen so that every square root the library takes is rational; segments with interior/ideal endpoints in every combination and representatives of either sign)"),
        Clause("history_oracle", "oracle", gen_hist, run_hist, judge_hist, site="projective.ProjectiveObject (set/copy/apply/reshape/flatten/__getitem__/__setitem__/stack/combine/astype) + queries",
               budget={"quick": 144, "thorough": 30000},
               what="histories over {copy, apply, reshape, flatten, index, set item, stack, combine, astype} on polygons, segments, tangent vectors of shapes (), (2,), (2,3) "
                    "interleaved with read-only queries (random depth <= 8 in quick; in thorough EVERY history of depth <= 4 over {apply, reshape, flatten, index, set item, stack, combine} "
                    "with copy/astype inserted at random): "
                    "after each step every object ever produced has aux_data ~ fresh recomputation; around each query every stored row and every caller-supplied array is unchanged as a projective point (tangent directions: up to a positive scalar); "
                    "among the queries: the module-level frame helpers (indefinite_orthogonalize, find_isometry, orthogonal_complement, projection, timelike_to, project_to_hyperboloid, "
                    "matrix_product, apply_bilinear, normsq) handed the object's OWN stored arrays or views of them"),
        Clause("point_queries", "oracle", gen_pq, run_pq, O.judge_bad, site="hyperbolic.Point.coords/distance/origin_to, hyperbolic.hyperboloid_coords/spacelike_to/timelike_to",
               budget={"quick": 300, "thorough": 3000},
               what="coordinates in every model, distance, origin_to, unit_tangent_towards, fixed points on composite points (either sign of the representative): Klein coordinates of "
                    "the objects unchanged, stored rows unchanged projectively, caller-supplied arrays (constructor inputs, arguments of module-level functions, float64 and float32 stacks of frames given to "
                    "indefinite_orthogonalize / find_isometry / orthogonal_complement / projection) keep their points"),
    ]
